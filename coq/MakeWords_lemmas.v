(* _make_words (lib/sharedbook.c) assigns prefix-free codewords: lemmas for C01/C05.
   The marker array of the C code is kept as it is (33 unsigned 32-bit cells); the invariant says
   that consecutive markers are either parent/left-child or an odd marker lying strictly below its
   parent marker, and that every assigned word is prefix-unrelated to every marker.  Codeword lengths
   of 32 bits are outside this proof (the C code has no overflow test for them; accepted 32-bit books
   are compared with the real decode tables per run). *)
From VV Require Import Bits Pcm Fl Setup Codebook Decoder_lemmas.
From Coq Require Import ZArith List Bool Lia.
Import ListNotations.
Local Open Scope Z_scope.
(* Decoder_lemmas switches lia's div/mod pre-processing on; the proofs below do their divisions by hand *)
Ltac Zify.zify_post_hook ::= idtac.

(* ---- marker array access ---- *)
Lemma lset_length {A} (l : list A) j v : length (lset l j v) = length l.
Proof. revert j. induction l as [|h t IH]; intros [|j]; cbn; try reflexivity. rewrite IH. reflexivity. Qed.
Lemma nth_lset_same {A} (l : list A) j v d : (j < length l)%nat -> nth j (lset l j v) d = v.
Proof. revert j. induction l as [|h t IH]; intros [|j] H; cbn in *; try lia; [reflexivity|]. apply IH. lia. Qed.
Lemma nth_lset_other {A} (l : list A) i j v d : i <> j -> nth i (lset l j v) d = nth i l d.
Proof. revert i j. induction l as [|h t IH]; intros [|i] [|j] H; cbn; try reflexivity; try lia. apply IH. lia. Qed.

Lemma mset_length mk j v : length (mset mk j v) = length mk.
Proof. apply lset_length. Qed.
Lemma mget_mset_same mk j v : length mk = 33%nat -> 0 <= j <= 32 -> mget (mset mk j v) j = u32 v.
Proof. intros Hl Hj. unfold mget, mset. apply nth_lset_same. lia. Qed.
Lemma mget_mset_other mk i j v : 0 <= i -> 0 <= j -> i <> j -> mget (mset mk j v) i = mget mk i.
Proof. intros Hi Hj H. unfold mget, mset. apply nth_lset_other. lia. Qed.
Lemma u32_small x : 0 <= x < 4294967296 -> u32 x = x.
Proof. intros H. unfold u32. apply Z.mod_small. exact H. Qed.

(* ---- what the two marker loops do ---- *)
Lemma mw_up_spec : forall fuel mk j,
  length mk = 33%nat -> 0 <= j <= 31 -> j <= Z.of_nat fuel ->
  (forall k, 1 <= k <= j -> 0 <= mget mk k <= 2 ^ k) ->
  exists j0, 0 <= j0 <= j /\
    (forall k, j0 < k <= j -> Z.odd (mget mk k) = false /\ mget (mw_up fuel mk j) k = mget mk k + 1) /\
    (1 <= j0 -> Z.odd (mget mk j0) = true /\
                mget (mw_up fuel mk j) j0 = (if j0 =? 1 then mget mk 1 + 1 else mget mk (j0 - 1) * 2)) /\
    (forall k, 0 <= k -> (k < j0 \/ j < k) -> mget (mw_up fuel mk j) k = mget mk k) /\
    length (mw_up fuel mk j) = 33%nat.
Proof.
  induction fuel as [|f IH]; intros mk j Hl Hj Hf Hb.
  - assert (j = 0) by lia. subst j. exists 0. cbn [mw_up]. repeat split; try lia; try (intros; lia).
  - cbn [mw_up]. destruct (j <=? 0) eqn:E0.
    + assert (j = 0) by lia. subst j. exists 0. repeat split; try lia; try (intros; lia).
    + destruct (Z.odd (mget mk j)) eqn:Eo.
      * exists j. split; [lia|]. split; [intros k Hk; lia|].
        assert (2 ^ j <= 2 ^ 31) as Hp by (apply Z.pow_le_mono_r; lia).
        assert (2 ^ 31 = 2147483648) as H31 by reflexivity.
        split.
        { intros _. split; [exact Eo|]. destruct (j =? 1) eqn:E1.
          - assert (j = 1) by lia. subst j. rewrite mget_mset_same by (try assumption; lia).
            apply u32_small. specialize (Hb 1 ltac:(lia)). change (2 ^ 1) with 2 in Hb. lia.
          - rewrite mget_mset_same by (try assumption; lia). apply u32_small.
            specialize (Hb (j - 1) ltac:(lia)).
            assert (2 ^ (j - 1) <= 2 ^ 30) by (apply Z.pow_le_mono_r; lia). change (2 ^ 30) with 1073741824 in *. lia. }
        split.
        { intros k Hk0 Hk. destruct (j =? 1) eqn:E1; apply mget_mset_other; lia. }
        { destruct (j =? 1); rewrite mset_length; exact Hl. }
      * set (mk' := mset mk j (mget mk j + 1)).
        assert (2 ^ j <= 2 ^ 31) as Hp by (apply Z.pow_le_mono_r; lia).
        assert (2 ^ 31 = 2147483648) as H31 by reflexivity.
        assert (mget mk' j = mget mk j + 1) as Hj'.
        { unfold mk'. rewrite mget_mset_same by (try assumption; lia). apply u32_small. specialize (Hb j ltac:(lia)). lia. }
        assert (forall k, 0 <= k -> k <> j -> mget mk' k = mget mk k) as Ho by (intros k Hk Hne; unfold mk'; apply mget_mset_other; lia).
        destruct (IH mk' (j - 1)) as (j0 & Hj0 & Hup & Hodd & Hoth & Hlen).
        { unfold mk'. rewrite mset_length. exact Hl. }
        { lia. }
        { lia. }
        { intros k Hk. rewrite Ho by lia. apply Hb. lia. }
        exists j0. split; [lia|]. split.
        { intros k Hk. destruct (Z.eq_dec k j) as [->|Hne].
          - split; [exact Eo|]. rewrite Hoth by lia. exact Hj'.
          - destruct (Hup k ltac:(lia)) as [A B]. rewrite Ho in A, B by lia. split; assumption. }
        split.
        { intros H1. destruct (Hodd H1) as [A B]. rewrite Ho in A by lia. split; [exact A|].
          rewrite B. destruct (j0 =? 1); rewrite Ho by lia; reflexivity. }
        split.
        { intros k Hk0 Hk. rewrite Hoth by lia. apply Ho; lia. }
        { exact Hlen. }
Qed.


Lemma mw_prune_spec : forall fuel mk j entry,
  length mk = 33%nat -> 1 <= j <= 33 -> 33 - j <= Z.of_nat fuel ->
  exists j1, j - 1 <= j1 <= 32 /\
    (forall k, j <= k <= j1 ->
       mget mk k / 2 = (if k =? j then entry else mget mk (k - 1)) /\
       mget (mw_prune fuel mk j entry) k = u32 (mget (mw_prune fuel mk j entry) (k - 1) * 2)) /\
    (j1 < 32 -> mget mk (j1 + 1) / 2 <> (if j1 + 1 =? j then entry else mget mk j1)) /\
    (forall k, 0 <= k -> (k < j \/ j1 < k) -> mget (mw_prune fuel mk j entry) k = mget mk k) /\
    length (mw_prune fuel mk j entry) = 33%nat.
Proof.
  induction fuel as [|f IH]; intros mk j entry Hl Hj Hf.
  - assert (j = 33) by lia. subst j. exists 32. cbn [mw_prune]. repeat split; try lia; intros; lia.
  - cbn [mw_prune]. destruct (j >=? 33) eqn:E33.
    + assert (j = 33) by lia. subst j. exists 32. repeat split; try lia; intros; lia.
    + destruct (mget mk j / 2 =? entry) eqn:Em.
      * set (mk' := mset mk j (mget mk (j - 1) * 2)).
        assert (forall k, 0 <= k -> k <> j -> mget mk' k = mget mk k) as Ho by (intros k Hk Hne; unfold mk'; apply mget_mset_other; lia).
        assert (mget mk' j = u32 (mget mk (j - 1) * 2)) as Hj' by (unfold mk'; apply mget_mset_same; [exact Hl|lia]).
        destruct (IH mk' (j + 1) (mget mk j)) as (j1 & Hj1 & Hch & Hstop & Hoth & Hlen).
        { unfold mk'. rewrite mset_length. exact Hl. }
        { lia. }
        { lia. }
        set (res := mw_prune f mk' (j + 1) (mget mk j)) in *.
        exists j1. split; [lia|]. split.
        { intros k Hk. destruct (Z.eq_dec k j) as [->|Hne].
          - rewrite Z.eqb_refl. split; [lia|].
            rewrite (Hoth j) by lia. rewrite (Hoth (j - 1)) by lia. rewrite Hj', Ho by lia. reflexivity.
          - destruct (Hch k ltac:(lia)) as [A B]. split; [|exact B].
            rewrite Ho in A by lia. destruct (k =? j) eqn:E1; [lia|].
            destruct (k =? j + 1) eqn:E2.
            + assert (k - 1 = j) as -> by lia. exact A.
            + rewrite Ho in A by lia. exact A. }
        split.
        { intros H32. specialize (Hstop H32). rewrite Ho in Hstop by lia.
          destruct (j1 + 1 =? j) eqn:E1; [lia|].
          destruct (j1 + 1 =? j + 1) eqn:E2.
          - assert (j1 = j) as -> by lia. exact Hstop.
          - rewrite Ho in Hstop by lia. exact Hstop. }
        split.
        { intros k Hk0 Hk. rewrite Hoth by lia. apply Ho; lia. }
        { exact Hlen. }
      * exists (j - 1). split; [lia|]. split; [intros k Hk; lia|]. split.
        { intros _. replace (j - 1 + 1) with j by lia. rewrite Z.eqb_refl. lia. }
        split; [intros; reflexivity|exact Hl].
Qed.


(* word w of length l and word x of length j are not prefix-related (numerically) *)
Definition inc (l w j x : Z) : Prop := if j <=? l then w / 2 ^ (l - j) <> x else x / 2 ^ (j - l) <> w.

Lemma pow2_pos t : 0 <= t -> 0 < 2 ^ t.
Proof. intros. apply Z.pow_pos_nonneg; lia. Qed.
Lemma div_pow_div x a b : 0 <= a -> 0 <= b -> x / 2 ^ a / 2 ^ b = x / 2 ^ (a + b).
Proof. intros Ha Hb. rewrite Z.div_div; [|pose proof (pow2_pos a Ha); lia|apply pow2_pos; assumption]. rewrite <- Z.pow_add_r by assumption. reflexivity. Qed.

Lemma inc_desc l w d' n' d n : inc l w d' n' -> d' <= d -> n / 2 ^ (d - d') = n' -> inc l w d n.
Proof.
  unfold inc. intros H Hd Hn.
  destruct (d <=? l) eqn:E1.
  - destruct (d' <=? l) eqn:E2; [|lia]. intros Heq. apply H. rewrite <- Hn, <- Heq.
    rewrite div_pow_div by lia. f_equal. f_equal. lia.
  - destruct (d' <=? l) eqn:E2.
    + intros Heq. apply H. rewrite <- Hn, <- Heq. rewrite div_pow_div by lia. f_equal. f_equal. lia.
    + rewrite <- Hn in H. rewrite div_pow_div in H by lia. replace (d - d' + (d' - l)) with (d - l) in H by lia. exact H.
Qed.

Lemma inc_full l w j : 1 <= l -> 1 <= j -> 0 <= w < 2 ^ l -> inc l w j (2 ^ j).
Proof.
  intros Hl Hj Hw. unfold inc. destruct (j <=? l) eqn:E.
  - assert (w / 2 ^ (l - j) < 2 ^ j); [|lia].
    apply Z.div_lt_upper_bound; [apply pow2_pos; lia|]. rewrite <- Z.pow_add_r by lia. replace (l - j + j) with l by lia. lia.
  - replace j with ((j - l) + l) at 1 by lia. rewrite Z.pow_add_r by lia. rewrite Z.mul_comm, Z.div_mul by (pose proof (pow2_pos (j - l)); lia). lia.
Qed.

Fixpoint PFl (ws : list (Z * Z * Z)) : Prop :=
  match ws with
  | [] => True
  | (i, l, w) :: r => (forall i' l' w', In (i', l', w') r -> inc l' w' l w) /\ PFl r
  end.

Record Inv (mk : list Z) (ws : list (Z * Z * Z)) : Prop := {
  I_len : length mk = 33%nat;
  I_B : forall j, 1 <= j <= 31 -> 0 <= mget mk j <= 2 ^ j;
  I_S : forall j, 2 <= j <= 31 -> mget mk j = 2 * mget mk (j - 1) \/ (Z.odd (mget mk j) = true /\ mget mk j / 2 < mget mk (j - 1));
  I_E : mget mk 1 = 0 -> ws = [];
  I_W : forall i l w, In (i, l, w) ws -> 1 <= l <= 31 /\ 0 <= w < 2 ^ l /\ forall j, 1 <= j <= 31 -> inc l w j (mget mk j);
  I_PF : PFl ws }.

Section Chain.
Variable mk : list Z.
Hypothesis HB : forall j, 1 <= j <= 31 -> 0 <= mget mk j <= 2 ^ j.
Hypothesis HS : forall j, 2 <= j <= 31 -> mget mk j = 2 * mget mk (j - 1) \/ (Z.odd (mget mk j) = true /\ mget mk j / 2 < mget mk (j - 1)).

Lemma below1 k x : 2 <= k <= 31 -> 0 <= x < mget mk k -> x / 2 < mget mk (k - 1).
Proof using HB HS.
  intros Hk Hx. destruct (HS k Hk) as [H|[Ho H]].
  - apply Z.div_lt_upper_bound; lia.
  - assert (x / 2 <= mget mk k / 2) by (apply Z.div_le_mono; lia). lia.
Qed.
Lemma half_le k : 2 <= k <= 31 -> mget mk k / 2 <= mget mk (k - 1).
Proof using HB HS.
  intros Hk. destruct (HS k Hk) as [H|[Ho H]]; [|lia]. rewrite H, Z.mul_comm, Z.div_mul by lia. lia.
Qed.
Lemma below_shift : forall (t : nat) k x, 1 <= k - Z.of_nat t -> k <= 31 -> 0 <= x < mget mk k -> x / 2 ^ Z.of_nat t < mget mk (k - Z.of_nat t).
Proof using HB HS.
  induction t as [|t IH]; intros k x Hk1 Hk2 Hx.
  - change (Z.of_nat 0) with 0. rewrite Z.pow_0_r, Z.div_1_r, Z.sub_0_r. lia.
  - rewrite Nat2Z.inj_succ. unfold Z.succ. rewrite Z.add_comm, <- div_pow_div by lia. change (2 ^ 1) with 2.
    replace (k - (1 + Z.of_nat t)) with (k - 1 - Z.of_nat t) by lia.
    apply IH; [lia|lia|]. split; [apply Z.div_pos; lia|apply below1; lia].
Qed.
Lemma le_shift : forall (t : nat) k, 1 <= k - Z.of_nat t -> k <= 31 -> mget mk k / 2 ^ Z.of_nat t <= mget mk (k - Z.of_nat t).
Proof using HB HS.
  induction t as [|t IH]; intros k Hk1 Hk2.
  - change (Z.of_nat 0) with 0. rewrite Z.pow_0_r, Z.div_1_r, Z.sub_0_r. lia.
  - rewrite Nat2Z.inj_succ. unfold Z.succ. rewrite Z.add_comm, <- div_pow_div by lia. change (2 ^ 1) with 2.
    replace (k - (1 + Z.of_nat t)) with (k - 1 - Z.of_nat t) by lia.
    etransitivity; [|apply IH; lia].
    apply Z.div_le_mono; [apply pow2_pos; lia|]. apply half_le. lia.
Qed.
(* an even stretch of markers is a chain of left children *)
Lemma chain_val a L : 1 <= a -> L <= 31 ->
  (forall k, a < k <= L -> Z.odd (mget mk k) = false) ->
  forall (t : nat), a <= L - Z.of_nat t -> mget mk L = 2 ^ Z.of_nat t * mget mk (L - Z.of_nat t).
Proof using HB HS.
  intros Ha HL Hev. induction t as [|t IH]; intros Ht.
  - change (Z.of_nat 0) with 0. rewrite Z.pow_0_r, Z.sub_0_r. lia.
  - rewrite IH by lia. rewrite Nat2Z.inj_succ. unfold Z.succ. rewrite Z.pow_add_r by lia. change (2 ^ 1) with 2.
    destruct (HS (L - Z.of_nat t) ltac:(lia)) as [H|[Ho _]].
    + rewrite H. replace (L - Z.of_nat t - 1) with (L - (Z.of_nat t + 1)) by lia. lia.
    + rewrite Hev in Ho by lia. discriminate.
Qed.
End Chain.


Lemma all_zero mk : (forall j, 1 <= j <= 31 -> 0 <= mget mk j <= 2 ^ j) ->
  (forall j, 2 <= j <= 31 -> mget mk j = 2 * mget mk (j - 1) \/ (Z.odd (mget mk j) = true /\ mget mk j / 2 < mget mk (j - 1))) ->
  mget mk 1 = 0 -> forall (t : nat), 1 + Z.of_nat t <= 31 -> mget mk (1 + Z.of_nat t) = 0.
Proof.
  intros HB HS H1. induction t as [|t IH]; intros Ht; [rewrite Z.add_0_r; exact H1|].
  rewrite Nat2Z.inj_succ. unfold Z.succ.
  destruct (HS (1 + (Z.of_nat t + 1)) ltac:(lia)) as [H|[Ho H]].
  - rewrite H. replace (1 + (Z.of_nat t + 1) - 1) with (1 + Z.of_nat t) by lia. rewrite IH by lia. reflexivity.
  - replace (1 + (Z.of_nat t + 1) - 1) with (1 + Z.of_nat t) in H by lia. rewrite IH in H by lia.
    pose proof (HB (1 + (Z.of_nat t + 1)) ltac:(lia)) as [B _].
    assert (0 <= mget mk (1 + (Z.of_nat t + 1)) / 2) by (apply Z.div_pos; lia). lia.
Qed.

Lemma odd_even_ne a b : Z.odd a = true -> a <> 2 * b.
Proof. intros H E. rewrite E in H. rewrite Z.odd_mul in H. discriminate. Qed.

Lemma div_lt_pow x e t : 0 <= t -> 0 <= x -> x < 2 ^ t * e -> x / 2 ^ t < e.
Proof. intros Ht Hx H. apply Z.div_lt_upper_bound; [apply pow2_pos; exact Ht|exact H]. Qed.

Lemma nat_range (P : Z -> Prop) a b : (forall t : nat, a + Z.of_nat t <= b -> P (a + Z.of_nat t)) -> forall k, a <= k <= b -> P k.
Proof. intros H k Hk. replace k with (a + Z.of_nat (Z.to_nat (k - a))) by lia. apply H. lia. Qed.

(* one codeword assignment keeps the invariant *)
Lemma assign_step mk ws idx L :
  Inv mk ws -> 1 <= L <= 31 -> Z.shiftr (mget mk L) L = 0 ->
  Inv (mw_prune 40 (mw_up 40 mk L) (L + 1) (mget mk L)) ((idx, L, mget mk L) :: ws).
Proof.
  intros [Hlen HB HS HE HW HPF] HL Hchk.
  set (e := mget mk L) in *.
  assert (0 <= e < 2 ^ L) as He.
  { pose proof (HB L HL) as [B0 _]. fold e in B0. split; [exact B0|].
    rewrite Z.shiftr_div_pow2 in Hchk by lia. apply Z.div_small_iff in Hchk; [|pose proof (pow2_pos L); lia].
    destruct Hchk as [H|H]; [lia|]. pose proof (pow2_pos L). lia. }
  destruct (mw_up_spec 40 mk L Hlen ltac:(lia) ltac:(lia)) as (j0 & Hj0 & F1 & F2 & F3 & Hlen1); [intros k Hk; apply HB; lia|].
  set (mk1 := mw_up 40 mk L) in *.
  destruct (mw_prune_spec 40 mk1 (L + 1) e Hlen1 ltac:(lia) ltac:(lia)) as (j1 & Hj1 & Hch & Hstop & Hoth2 & Hlen2).
  set (mk2 := mw_prune 40 mk1 (L + 1) e) in *.
  (* the stretch (j0, L] is a chain of left children ending in e *)
  set (a := Z.max j0 1).
  assert (forall t : nat, a <= L - Z.of_nat t -> e = 2 ^ Z.of_nat t * mget mk (L - Z.of_nat t)) as Hchain.
  { intros t Ht. unfold e. apply (chain_val mk HB HS a L); [lia|lia| |exact Ht]. intros k Hk. apply F1. lia. }
  assert (forall k, a <= k <= L -> e = 2 ^ (L - k) * mget mk k) as Hchain'.
  { intros k Hk. specialize (Hchain (Z.to_nat (L - k)) ltac:(lia)). rewrite Z2Nat.id in Hchain by lia. replace (L - (L - k)) with k in Hchain by lia. exact Hchain. }
  assert (forall k, a <= k <= L -> e / 2 ^ (L - k) = mget mk k) as Hpre.
  { intros k Hk. rewrite (Hchain' k Hk). rewrite Z.mul_comm, Z.div_mul; [reflexivity|]. pose proof (pow2_pos (L - k)). lia. }
  assert (forall k, a <= k <= L -> mget mk k < 2 ^ k) as Hlt.
  { intros k Hk. pose proof (Hchain' k Hk) as Hc. pose proof (pow2_pos (L - k) ltac:(lia)) as Hp.
    assert (2 ^ L = 2 ^ (L - k) * 2 ^ k) as Hs by (clear - Hk HL; replace L with ((L - k) + k) at 1 by lia; apply Z.pow_add_r; lia).
    pose proof He as [_ He2]. rewrite Hc, Hs in He2. apply Z.mul_lt_mono_pos_l in He2; [exact He2|exact Hp]. }
  (* values after the first loop *)
  assert (forall k, 0 <= k -> L < k -> mget mk1 k = mget mk k) as G3 by (intros k Hk0 Hk; apply F3; lia).
  assert (forall k, 0 <= k -> k <= L -> mget mk2 k = mget mk1 k) as G2 by (intros k Hk0 Hk; apply Hoth2; lia).
  assert (forall k, 0 <= k -> j1 < k -> mget mk2 k = mget mk k) as G4 by (intros k Hk0 Hk; rewrite Hoth2 by lia; apply G3; lia).
  (* new marker L *)
  assert (0 <= mget mk2 L <= 2 ^ L /\ mget mk2 L <> e /\
          (forall i l w, In (i, l, w) ws -> inc l w L (mget mk2 L))) as (BL & NL & WL).
  { rewrite G2 by lia. destruct (Z.eq_dec j0 L) as [E|NE].
    - subst j0. destruct (F2 ltac:(lia)) as [Ho Hv]. rewrite Hv. destruct (L =? 1) eqn:E1.
      + assert (L = 1) by lia. subst L. unfold e in *. pose proof (HB 1 ltac:(lia)) as B1. change (2 ^ 1) with 2 in *.
        assert (mget mk 1 = 1) as M1 by (destruct (Z.eq_dec (mget mk 1) 1); [assumption|]; assert (mget mk 1 = 0 \/ mget mk 1 = 2) as [Z0|Z2] by lia; [rewrite Z0 in Ho|rewrite Z2 in Ho]; discriminate).
        rewrite M1. split; [lia|]. split; [lia|]. intros i l w Hin. destruct (HW i l w Hin) as (Hl & Hw & _).
        change 2 with (2 ^ 1). apply inc_full; lia.
      + pose proof (HB (L - 1) ltac:(lia)) as BL1.
        assert (2 ^ L = 2 * 2 ^ (L - 1)) as Hs by (replace L with (1 + (L - 1)) at 1 by lia; rewrite Z.pow_add_r by lia; reflexivity).
        split; [lia|]. split.
        * intros Heq. apply (odd_even_ne e (mget mk (L - 1))); [exact Ho|lia].
        * intros i l w Hin. destruct (HW i l w Hin) as (Hl & Hw & Hi).
          apply (inc_desc l w (L - 1) (mget mk (L - 1))); [apply Hi; lia|lia|].
          replace (L - (L - 1)) with 1 by lia. change (2 ^ 1) with 2. rewrite Z.div_mul by lia. reflexivity.
    - destruct (F1 L ltac:(lia)) as [Hev Hv]. rewrite Hv. fold e.
      pose proof (Hlt L ltac:(lia)) as HltL. fold e in HltL.
      split; [lia|]. split; [lia|]. intros i l w Hin. destruct (HW i l w Hin) as (Hl & Hw & Hi).
      destruct (Z.eq_dec L 1) as [E1|N1].
      + (* then the whole tree was free: no word yet *)
        exfalso. subst L. assert (j0 = 0) by lia. subst j0.
        pose proof (HB 1 ltac:(lia)) as B1. change (2 ^ 1) with 2 in *. fold e in B1.
        assert (e = 0) as E0 by (destruct (Z.eq_dec e 0); [assumption|]; assert (e = 1) as Z1 by lia; unfold e in Z1; rewrite Z1 in Hev; discriminate).
        rewrite (HE E0) in Hin. exact Hin.
      + destruct (HS L ltac:(lia)) as [H|[Ho _]]; [|unfold e in *; rewrite Hev in Ho; discriminate].
        fold e in H. apply (inc_desc l w (L - 1) (mget mk (L - 1))); [apply Hi; lia|lia|].
        replace (L - (L - 1)) with 1 by lia. change (2 ^ 1) with 2. rewrite H.
        replace (2 * mget mk (L - 1) + 1) with (1 + mget mk (L - 1) * 2) by lia. rewrite Z.div_add by lia. reflexivity. }
  (* the prune chain: new values are the leftmost descendants of the new marker L; old values were a chain under e *)
  set (top := Z.min j1 31).
  assert (forall t : nat, L + Z.of_nat t <= top ->
            mget mk2 (L + Z.of_nat t) = 2 ^ Z.of_nat t * mget mk2 L /\ mget mk (L + Z.of_nat t) = 2 ^ Z.of_nat t * e) as Hnew.
  { induction t as [|t IH]; intros Ht.
    - rewrite Z.add_0_r. change (Z.of_nat 0) with 0. rewrite Z.pow_0_r. split; [lia|unfold e; lia].
    - destruct (IH ltac:(lia)) as [IH1 IH2]. rewrite Nat2Z.inj_succ. unfold Z.succ.
      set (k := L + (Z.of_nat t + 1)). assert (k - 1 = L + Z.of_nat t) as Hk1 by (unfold k; lia).
      destruct (Hch k ltac:(unfold k, top in *; lia)) as [A B].
      rewrite Z.pow_add_r by lia. change (2 ^ 1) with 2.
      assert (0 <= mget mk2 (k - 1) <= 2 ^ (k - 1)) as Bk1.
      { rewrite Hk1, IH1. assert (2 ^ (L + Z.of_nat t) = 2 ^ Z.of_nat t * 2 ^ L) as -> by (rewrite <- Z.pow_add_r by lia; f_equal; lia).
        pose proof (pow2_pos (Z.of_nat t) ltac:(lia)). nia. }
      assert (2 ^ (k - 1) <= 2 ^ 30) by (apply Z.pow_le_mono_r; unfold k, top in *; lia).
      split.
      + rewrite B, u32_small by (change (2 ^ 30) with 1073741824 in *; lia). rewrite Hk1, IH1. lia.
      + (* the old value matched the running entry *)
        rewrite G3 in A by (unfold k; lia).
        assert (mget mk k / 2 = mget mk (k - 1)) as A'.
        { destruct (k =? L + 1) eqn:E1.
          - assert (k - 1 = L) as -> by lia. exact A.
          - rewrite G3 in A by (unfold k in *; lia). exact A. }
        destruct (HS k ltac:(unfold k, top in *; lia)) as [HH|[_ HH]]; [|lia].
        rewrite HH, Hk1, IH2. lia. }
  assert (forall k, L <= k <= top -> mget mk2 k = 2 ^ (k - L) * mget mk2 L /\ mget mk k = 2 ^ (k - L) * e) as Hnew'.
  { intros k Hk. specialize (Hnew (Z.to_nat (k - L)) ltac:(lia)). rewrite Z2Nat.id in Hnew by lia. replace (L + (k - L)) with k in Hnew by lia. exact Hnew. }
  (* the first marker beyond the chain lies to the left of e *)
  assert (forall k, top < k <= 31 -> mget mk k / 2 ^ (k - L) < e) as Hbeyond.
  { assert (top < 31 -> mget mk (top + 1) / 2 ^ (top + 1 - L) < e) as Hfirst.
    { intros Ht. assert (top = j1) as Et by (unfold top in *; lia).
      specialize (Hstop ltac:(lia)). rewrite G3 in Hstop by lia.
      assert (mget mk (j1 + 1) / 2 <> mget mk j1) as Hs'.
      { destruct (j1 + 1 =? L + 1) eqn:E1; [assert (j1 = L) as -> by lia; exact Hstop|]. rewrite G3 in Hstop by lia. exact Hstop. }
      destruct (HS (j1 + 1) ltac:(lia)) as [H|[_ H]].
      { exfalso. apply Hs'. rewrite H. replace (j1 + 1 - 1) with j1 by lia. rewrite Z.mul_comm, Z.div_mul by lia. reflexivity. }
      replace (j1 + 1 - 1) with j1 in H by lia.
      destruct (Hnew' j1 ltac:(lia)) as [_ Hold]. rewrite Hold in H. rewrite Et.
      replace (j1 + 1 - L) with (1 + (j1 - L)) by lia. rewrite <- div_pow_div by lia. change (2 ^ 1) with 2.
      apply div_lt_pow; [lia| |exact H]. apply Z.div_pos; [|lia]. apply HB. lia. }
    intros k Hk. pose proof (le_shift mk HB HS (Z.to_nat (k - (top + 1))) k) as Hle. rewrite Z2Nat.id in Hle by lia.
    replace (k - (k - (top + 1))) with (top + 1) in Hle by lia. specialize (Hle ltac:(unfold top in *; lia) ltac:(lia)).
    replace (k - L) with ((k - (top + 1)) + (top + 1 - L)) by (unfold top in *; lia). rewrite <- div_pow_div by (unfold top in *; lia).
    eapply Z.le_lt_trans; [|apply Hfirst; lia].
    apply Z.div_le_mono; [apply pow2_pos; unfold top in *; lia|exact Hle]. }
  (* values of all new markers *)
  assert (forall k, 1 <= k < j0 -> mget mk2 k = mget mk k) as V1 by (intros k Hk; rewrite G2 by lia; apply F3; lia).
  assert (forall k, j0 < k <= L -> mget mk2 k = mget mk k + 1 /\ Z.odd (mget mk k) = false) as V3.
  { intros k Hk. rewrite G2 by lia. destruct (F1 k Hk) as [A B]. split; assumption. }
  assert (1 <= j0 -> Z.odd (mget mk j0) = true /\ mget mk2 j0 = (if j0 =? 1 then mget mk 1 + 1 else mget mk (j0 - 1) * 2)) as V2.
  { intros H. rewrite G2 by lia. apply F2. exact H. }
  assert (forall k, top < k <= 31 -> mget mk2 k = mget mk k) as V5 by (intros k Hk; apply G4; unfold top in *; lia).
  constructor.
  - exact Hlen2.
  - (* bounds *)
    intros j Hj. destruct (Z_lt_le_dec j j0) as [C1|C1]; [rewrite V1 by lia; apply HB; exact Hj|].
    destruct (Z.eq_dec j j0) as [C2|C2].
    { subst j. destruct (V2 ltac:(lia)) as [Ho Hv]. rewrite Hv. destruct (j0 =? 1) eqn:E1.
      - assert (j0 = 1) by lia. subst j0. pose proof (HB 1 ltac:(lia)) as B1. change (2 ^ 1) with 2 in *.
        assert (mget mk 1 <> 2) by (intros Z2; rewrite Z2 in Ho; discriminate). lia.
      - pose proof (HB (j0 - 1) ltac:(lia)) as B1.
        assert (2 ^ j0 = 2 * 2 ^ (j0 - 1)) as Hs by (replace j0 with (1 + (j0 - 1)) at 1 by lia; rewrite Z.pow_add_r by lia; reflexivity). lia. }
    destruct (Z_le_gt_dec j L) as [C3|C3].
    { destruct (V3 j ltac:(lia)) as [Hv _]. rewrite Hv. pose proof (Hlt j ltac:(unfold a; lia)). pose proof (HB j Hj). lia. }
    destruct (Z_le_gt_dec j top) as [C4|C4].
    { destruct (Hnew' j ltac:(lia)) as [Hv _]. rewrite Hv.
      assert (2 ^ j = 2 ^ (j - L) * 2 ^ L) as -> by (rewrite <- Z.pow_add_r by lia; f_equal; lia).
      pose proof (pow2_pos (j - L) ltac:(lia)). nia. }
    rewrite V5 by lia. apply HB. exact Hj.
  - (* the structure of consecutive markers *)
    intros j Hj.
    destruct (Z_lt_le_dec j j0) as [C1|C1].
    { rewrite V1 by lia. rewrite V1 by lia. apply HS. exact Hj. }
    destruct (Z.eq_dec j j0) as [C2|C2].
    { subst j. destruct (V2 ltac:(lia)) as [Ho Hv]. destruct (j0 =? 1) eqn:E1; [lia|]. left. rewrite Hv, V1 by lia. lia. }
    destruct (Z_le_gt_dec j L) as [C3|C3].
    { destruct (V3 j ltac:(lia)) as [Hv Hev]. right. rewrite Hv.
      destruct (HS j Hj) as [H|[Ho _]]; [|rewrite Hev in Ho; discriminate].
      split; [rewrite Z.odd_add, Hev; reflexivity|].
      replace (mget mk j + 1) with (1 + mget mk (j - 1) * 2) by lia. rewrite Z.div_add by lia. change (1 / 2) with 0. rewrite Z.add_0_l.
      destruct (Z.eq_dec (j - 1) j0) as [C5|C5].
      - rewrite C5. destruct (V2 ltac:(lia)) as [Ho Hv2]. rewrite Hv2. rewrite C5 in H. destruct (j0 =? 1) eqn:E1; [assert (j0 = 1) as EE by lia; rewrite EE; lia|].
        (* m j0 is odd and below its parent marker *)
        destruct (HS j0 ltac:(lia)) as [H2|[_ H2]]; [exfalso; apply (odd_even_ne _ _ Ho H2)|].
        assert (mget mk j0 = 2 * (mget mk j0 / 2) + 1) by (rewrite (Z.div_mod (mget mk j0) 2) at 1 by lia; rewrite <- Z.bit0_mod, Z.bit0_odd, Ho; reflexivity).
        lia.
      - destruct (V3 (j - 1) ltac:(lia)) as [Hv2 _]. rewrite Hv2. lia. }
    destruct (Z_le_gt_dec j top) as [C4|C4].
    { left. destruct (Hnew' j ltac:(lia)) as [Hv _]. destruct (Hnew' (j - 1) ltac:(lia)) as [Hv2 _]. rewrite Hv, Hv2.
      replace (j - L) with (1 + (j - 1 - L)) by lia. rewrite Z.pow_add_r by lia. change (2 ^ 1) with 2. lia. }
    rewrite V5 by lia.
    destruct (Z.eq_dec j (top + 1)) as [C5|C5].
    + (* first marker beyond the chain: it did not match, so it is a right child further left *)
      right. assert (top = j1) as Et by (unfold top in *; lia).
      specialize (Hstop ltac:(lia)). rewrite G3 in Hstop by lia.
      assert (mget mk (j1 + 1) / 2 <> mget mk j1) as Hs'.
      { destruct (j1 + 1 =? L + 1) eqn:E1; [assert (j1 = L) as -> by lia; exact Hstop|]. rewrite G3 in Hstop by lia. exact Hstop. }
      rewrite C5, Et. destruct (HS (j1 + 1) ltac:(lia)) as [H|[Ho H]].
      { exfalso. apply Hs'. rewrite H. replace (j1 + 1 - 1) with j1 by lia. rewrite Z.mul_comm, Z.div_mul by lia. reflexivity. }
      split; [exact Ho|]. replace (j1 + 1 - 1) with j1 in * by lia.
      destruct (Hnew' j1 ltac:(lia)) as [Hv Hold]. rewrite Hv. rewrite Hold in H.
      assert (e < mget mk2 L \/ mget mk2 L < e) as [Hgt|Hlt2] by lia.
      * pose proof (pow2_pos (j1 - L) ltac:(lia)). nia.
      * (* the new marker L is never below e *)
        exfalso. rewrite G2 in Hlt2 by lia. destruct (Z.eq_dec j0 L) as [E|NE].
        -- destruct (F2 ltac:(lia)) as [Ho2 Hv2]. rewrite E in Ho2, Hv2. rewrite Hv2 in Hlt2. destruct (L =? 1) eqn:E1; [unfold e in Hlt2; assert (L = 1) as EL by lia; rewrite EL in *; lia|].
           destruct (HS L ltac:(lia)) as [H2|[_ H2]]; [exfalso; apply (odd_even_ne _ _ Ho2 H2)|].
           assert (mget mk L = 2 * (mget mk L / 2) + 1) by (rewrite (Z.div_mod (mget mk L) 2) at 1 by lia; rewrite <- Z.bit0_mod, Z.bit0_odd, Ho2; reflexivity).
           unfold e in Hlt2. lia.
        -- destruct (F1 L ltac:(lia)) as [_ Hv2]. rewrite Hv2 in Hlt2. unfold e in Hlt2. lia.
    + rewrite V5 by lia. apply HS. exact Hj.
  - (* a word has been assigned: marker 1 is not 0 *)
    intros H1. exfalso. destruct (Z_lt_le_dec 1 j0) as [C1|C1].
    + rewrite V1 in H1 by lia. destruct (V2 ltac:(lia)) as [Ho _].
      pose proof (below_shift mk HB HS (Z.to_nat (j0 - 1)) j0 0) as Hb. rewrite Z2Nat.id in Hb by lia.
      replace (j0 - (j0 - 1)) with 1 in Hb by lia. rewrite Z.div_0_l in Hb by (pose proof (pow2_pos (j0 - 1)); lia).
      assert (0 < mget mk j0) by (pose proof (HB j0 ltac:(lia)); destruct (Z.eq_dec (mget mk j0) 0) as [Z0|]; [rewrite Z0 in Ho; discriminate|lia]).
      specialize (Hb ltac:(lia) ltac:(lia) ltac:(lia)). lia.
    + destruct (Z.eq_dec j0 1) as [C2|C2].
      * destruct (V2 ltac:(lia)) as [_ Hv]. rewrite C2 in Hv. cbn [Z.eqb Pos.eqb] in Hv. rewrite C2 in *. pose proof (HB 1 ltac:(lia)). lia.
      * destruct (V3 1 ltac:(lia)) as [Hv _]. pose proof (HB 1 ltac:(lia)). lia.
  - (* every word against every new marker *)
    intros i l w [Heq|Hin].
    + inversion Heq; subst i l w. clear Heq. split; [exact HL|]. split; [exact He|].
      intros j Hj. unfold inc.
      destruct (j <=? L) eqn:EjL.
      * destruct (Z_lt_le_dec j j0) as [C1|C1].
        { (* above the odd marker: the ancestors of e lie strictly below the markers *)
          rewrite V1 by lia. destruct (V2 ltac:(lia)) as [Ho _].
          assert (e / 2 ^ (L - j) < mget mk j); [|lia].
          replace (L - j) with ((L - j0) + (1 + (j0 - 1 - j))) by lia. rewrite <- div_pow_div by lia.
          rewrite (Hpre j0 ltac:(unfold a; lia)). rewrite <- div_pow_div by lia. change (2 ^ 1) with 2.
          destruct (HS j0 ltac:(lia)) as [H2|[_ H2]]; [exfalso; apply (odd_even_ne _ _ Ho H2)|].
          pose proof (below_shift mk HB HS (Z.to_nat (j0 - 1 - j)) (j0 - 1) (mget mk j0 / 2)) as Hb. rewrite Z2Nat.id in Hb by lia.
          replace (j0 - 1 - (j0 - 1 - j)) with j in Hb by lia. apply Hb; [lia|lia|].
          split; [apply Z.div_pos; [apply HB|]; lia|exact H2]. }
        destruct (Z.eq_dec j j0) as [C2|C2].
        { subst j. destruct (V2 ltac:(lia)) as [Ho Hv]. rewrite Hv, (Hpre j0 ltac:(unfold a; lia)).
          destruct (j0 =? 1) eqn:E1; [assert (j0 = 1) as -> by lia; lia|]. intros Hq. apply (odd_even_ne _ (mget mk (j0 - 1)) Ho). lia. }
        destruct (V3 j ltac:(lia)) as [Hv _]. rewrite Hv, (Hpre j ltac:(unfold a; lia)). lia.
      * destruct (Z_le_gt_dec j top) as [C4|C4].
        { destruct (Hnew' j ltac:(lia)) as [Hv _]. rewrite Hv. rewrite Z.mul_comm, Z.div_mul by (pose proof (pow2_pos (j - L)); lia). exact NL. }
        rewrite V5 by lia. pose proof (Hbeyond j ltac:(lia)). lia.
    + destruct (HW i l w Hin) as (Hl & Hw & Hi). split; [exact Hl|]. split; [exact Hw|].
      intros j Hj.
      destruct (Z_lt_le_dec j j0) as [C1|C1]; [rewrite V1 by lia; apply Hi; exact Hj|].
      destruct (Z.eq_dec j j0) as [C2|C2].
      { subst j. destruct (Z.eq_dec j0 L) as [E|NE]; [rewrite E; apply (WL i l w Hin)|].
        destruct (V2 ltac:(lia)) as [Ho Hv]. rewrite Hv. destruct (j0 =? 1) eqn:E1.
        - assert (j0 = 1) as -> by lia. pose proof (HB 1 ltac:(lia)) as B1. change (2 ^ 1) with 2 in B1.
          assert (mget mk 1 = 1) as -> by (destruct (Z.eq_dec (mget mk 1) 1); [assumption|]; assert (mget mk 1 = 0 \/ mget mk 1 = 2) as [Z0|Z2] by lia; [rewrite Z0 in Ho|rewrite Z2 in Ho]; discriminate).
          change (1 + 1) with (2 ^ 1). apply inc_full; lia.
        - apply (inc_desc l w (j0 - 1) (mget mk (j0 - 1))); [apply Hi; lia|lia|].
          replace (j0 - (j0 - 1)) with 1 by lia. change (2 ^ 1) with 2. rewrite Z.div_mul by lia. reflexivity. }
      destruct (Z_le_gt_dec j L) as [C3|C3].
      { destruct (Z.eq_dec j L) as [E|NE]; [rewrite E; apply (WL i l w Hin)|].
        destruct (V3 j ltac:(lia)) as [Hv Hev]. rewrite Hv.
        destruct (Z.eq_dec j 1) as [E1|N1].
        - exfalso. subst j. assert (j0 = 0) by lia. subst j0.
          pose proof (HB 1 ltac:(lia)) as B1. change (2 ^ 1) with 2 in B1.
          pose proof (Hlt 1 ltac:(unfold a; lia)) as L1. change (2 ^ 1) with 2 in L1.
          assert (mget mk 1 = 0) as Z0 by (destruct (Z.eq_dec (mget mk 1) 0); [assumption|]; assert (mget mk 1 = 1) as Z1 by lia; rewrite Z1 in Hev; discriminate).
          rewrite (HE Z0) in Hin. exact Hin.
        - destruct (HS j ltac:(lia)) as [H|[Ho _]]; [|rewrite Hev in Ho; discriminate].
          apply (inc_desc l w (j - 1) (mget mk (j - 1))); [apply Hi; lia|lia|].
          replace (j - (j - 1)) with 1 by lia. change (2 ^ 1) with 2. rewrite H.
          replace (2 * mget mk (j - 1) + 1) with (1 + mget mk (j - 1) * 2) by lia. rewrite Z.div_add by lia. reflexivity. }
      destruct (Z_le_gt_dec j top) as [C4|C4].
      { destruct (Hnew' j ltac:(lia)) as [Hv _]. apply (inc_desc l w L (mget mk2 L)); [apply (WL i l w Hin)|lia|].
        rewrite Hv. rewrite Z.mul_comm, Z.div_mul by (pose proof (pow2_pos (j - L)); lia). reflexivity. }
      rewrite V5 by lia. apply Hi. exact Hj.
  - (* the new word is unrelated to every earlier one *)
    cbn [PFl]. split; [|exact HPF]. intros i' l' w' Hin. destruct (HW i' l' w' Hin) as (_ & _ & Hi). apply Hi. exact HL.
Qed.


(* ---- from numbers to bit strings ---- *)
Fixpoint bval (bs : list bool) : Z :=
  match bs with [] => 0 | b :: r => Z.b2z b * 2 ^ Z.of_nat (length r) + bval r end.

Lemma cw_bits_length : forall n c, length (cw_bits n c) = n.
Proof. induction n as [|n IH]; intros c; cbn; [reflexivity|rewrite IH; reflexivity]. Qed.

Lemma cw_bits_val : forall n c, bval (cw_bits n c) = c mod 2 ^ Z.of_nat n.
Proof.
  induction n as [|n IH]; intros c.
  - cbn. rewrite Z.mod_1_r. reflexivity.
  - cbn [cw_bits bval]. rewrite cw_bits_length, IH. rewrite Nat2Z.inj_succ. unfold Z.succ.
    rewrite Z.pow_add_r by lia. change (2 ^ 1) with 2.
    rewrite Z.rem_mul_r by (try lia; pose proof (pow2_pos (Z.of_nat n)); lia).
    rewrite Z.testbit_spec' by lia. lia.
Qed.

Lemma cw_bits_split : forall (a c : nat) y, cw_bits (a + c) y = cw_bits a (y / 2 ^ Z.of_nat c) ++ cw_bits c y.
Proof.
  induction a as [|a IH]; intros c y; [reflexivity|].
  cbn [Nat.add cw_bits app]. rewrite IH. f_equal.
  rewrite Z.div_pow2_bits by lia. f_equal. lia.
Qed.

Lemma is_prefix_len : forall a b, is_prefix a b = true -> (length a <= length b)%nat.
Proof.
  induction a as [|x a IH]; intros [|y b] H; cbn in *; try lia; try discriminate.
  apply andb_prop in H. destruct H as [_ H]. specialize (IH b H). lia.
Qed.
Lemma is_prefix_app_eq : forall p a b, is_prefix p (a ++ b) = true -> length p = length a -> p = a.
Proof.
  induction p as [|x p IH]; intros [|y a] b H Hl; cbn in *; try reflexivity; try discriminate.
  apply andb_prop in H. destruct H as [Hx H]. apply eqb_prop in Hx. subst y. f_equal. eapply IH; [exact H|lia].
Qed.

Lemma prefix_num (a b : nat) x y : (a <= b)%nat -> 0 <= x < 2 ^ Z.of_nat a -> 0 <= y < 2 ^ Z.of_nat b ->
  is_prefix (cw_bits a x) (cw_bits b y) = true -> y / 2 ^ (Z.of_nat b - Z.of_nat a) = x.
Proof.
  intros Hab Hx Hy H. replace b with (a + (b - a))%nat in H by lia. rewrite cw_bits_split in H.
  apply is_prefix_app_eq in H; [|rewrite !cw_bits_length; reflexivity].
  apply (f_equal bval) in H. rewrite !cw_bits_val in H.
  replace (Z.of_nat b - Z.of_nat a) with (Z.of_nat (b - a)) by lia.
  rewrite (Z.mod_small x) in H by lia. rewrite H. symmetry. apply Z.mod_small.
  split; [apply Z.div_pos; [lia|apply pow2_pos; lia]|].
  apply Z.div_lt_upper_bound; [apply pow2_pos; lia|]. rewrite <- Z.pow_add_r by lia. replace (Z.of_nat (b - a) + Z.of_nat a) with (Z.of_nat b) by lia. lia.
Qed.

Lemma inc_unrelated l w j x : 1 <= l -> 1 <= j -> 0 <= w < 2 ^ l -> 0 <= x < 2 ^ j -> inc l w j x ->
  unrelated (cw_bits (Z.to_nat j) x) (cw_bits (Z.to_nat l) w).
Proof.
  intros Hl Hj Hw Hx Hi. unfold inc in Hi. split.
  - destruct (is_prefix _ _) eqn:E; [|reflexivity]. exfalso.
    pose proof (is_prefix_len _ _ E) as Hlen. rewrite !cw_bits_length in Hlen.
    destruct (j <=? l) eqn:Ejl; [|lia].
    apply prefix_num in E; try lia; rewrite ?Z2Nat.id in * by lia; try assumption.
    apply Hi. exact E.
  - destruct (is_prefix _ _) eqn:E; [|reflexivity]. exfalso.
    pose proof (is_prefix_len _ _ E) as Hlen. rewrite !cw_bits_length in Hlen.
    apply prefix_num in E; try lia; rewrite ?Z2Nat.id in * by lia; try assumption.
    destruct (j <=? l) eqn:Ejl.
    + assert (j = l) by lia. subst j. rewrite Z.sub_diag, Z.pow_0_r, Z.div_1_r in *. apply Hi. symmetry. exact E.
    + apply Hi. exact E.
Qed.

(* ---- the whole assignment ---- *)
Lemma mget_repeat j : mget (repeat 0 33) j = 0.
Proof. unfold mget. apply nth_repeat. Qed.

Lemma inv_init : Inv (repeat 0 33) [].
Proof.
  constructor.
  - apply repeat_length.
  - intros j Hj. rewrite mget_repeat. pose proof (pow2_pos j ltac:(lia)). lia.
  - intros j Hj. left. rewrite !mget_repeat. reflexivity.
  - intros _. reflexivity.
  - intros i l w [].
  - exact I.
Qed.

Lemma mw_assign_inv : forall lens idx mk acc out mkf,
  (forall l, In l lens -> l <= 31) -> Inv mk acc -> mw_assign lens idx mk = Some (out, mkf) ->
  Inv mkf (rev out ++ acc).
Proof.
  induction lens as [|l rest IH]; intros idx mk acc out mkf Hle Hinv H; cbn [mw_assign] in H.
  - inversion H; subst. exact Hinv.
  - destruct (l >? 0) eqn:Epos.
    + destruct ((l <? 32) && negb (Z.shiftr (mget mk l) l =? 0)) eqn:Echk; [discriminate|].
      assert (l <= 31) as Hl by (apply Hle; left; reflexivity).
      assert (Z.shiftr (mget mk l) l = 0) as Hz.
      { destruct (l <? 32) eqn:E32; [|lia]. cbn [andb] in Echk. destruct (Z.shiftr (mget mk l) l =? 0) eqn:E0; [lia|discriminate]. }
      destruct (mw_assign rest (idx + 1) _) as [[ws mk']|] eqn:Er; [|discriminate].
      inversion H; subst out mkf. clear H.
      pose proof (assign_step mk acc idx l Hinv ltac:(lia) Hz) as Hstep.
      specialize (IH (idx + 1) _ _ ws mk' ltac:(intros x Hx; apply Hle; right; exact Hx) Hstep Er).
      cbn [rev]. rewrite <- app_assoc. exact IH.
    + apply (IH (idx + 1) mk acc out mkf); [intros x Hx; apply Hle; right; exact Hx|exact Hinv|exact H].
Qed.

Lemma PFl_snoc : forall l i0 l0 w0, PFl (l ++ [(i0, l0, w0)]) ->
  (forall i l' w', In (i, l', w') l -> inc l0 w0 l' w') /\ PFl l.
Proof.
  induction l as [|[[i1 l1] w1] r IH]; intros i0 l0 w0 H; [split; [intros i l' w' []|exact I]|].
  cbn [app PFl] in H. destruct H as [H1 H2]. destruct (IH i0 l0 w0 H2) as [A B]. split.
  - intros i l' w' [Heq|Hin]; [inversion Heq; subst; apply (H1 i0 l0 w0); apply in_or_app; right; left; reflexivity|apply (A i l' w' Hin)].
  - cbn [PFl]. split; [|exact B]. intros i' l' w' Hin. apply (H1 i' l' w'). apply in_or_app. left. exact Hin.
Qed.

Definition wf_word (x : Z * Z * Z) : Prop := let '(i, l, w) := x in 1 <= l <= 31 /\ 0 <= w < 2 ^ l.

Lemma PFl_prefix_free : forall out, Forall wf_word out -> PFl (rev out) -> prefix_free out.
Proof.
  induction out as [|[[i0 l0] w0] rest IH]; intros Hwf H; [exact I|].
  cbn [rev] in H. apply PFl_snoc in H. destruct H as [A B].
  inversion Hwf as [|x y Hq0 Hwf']; subst x y. cbn in Hq0. destruct Hq0 as [Hl0 Hw0].
  cbn [prefix_free]. split; [|split].
  - cbn [word_of]. intros E. apply (f_equal (@length bool)) in E. rewrite cw_bits_length in E. cbn in E. lia.
  - apply Forall_forall. intros [[i' l'] w'] Hin. cbn [word_of].
    rewrite Forall_forall in Hwf'. pose proof (Hwf' _ Hin) as Hq. cbn in Hq. destruct Hq as [Hl' Hw'].
    apply inc_unrelated; try lia; try assumption. apply (A i' l' w'). apply in_rev in Hin. exact Hin.
  - apply IH; [exact Hwf'|exact B].
Qed.

(* _make_words: whenever it accepts codeword lengths (all below 32), the codewords it assigns are prefix-free *)
Theorem make_words_prefix_free lens ws :
  (forall l, In l lens -> l <= 31) -> make_words lens = Some ws -> prefix_free ws.
Proof.
  intros Hle H. unfold make_words in H.
  destruct (mw_assign lens 0 (repeat 0 33)) as [[out mkf]|] eqn:E; [|discriminate].
  assert (ws = out) as -> by (destruct (_ && _); [inversion H; reflexivity|destruct (under_populated 40 mkf 1); [discriminate|inversion H; reflexivity]]).
  pose proof (mw_assign_inv lens 0 _ [] out mkf Hle inv_init E) as Hinv. rewrite app_nil_r in Hinv.
  apply PFl_prefix_free; [|exact (I_PF _ _ Hinv)].
  apply Forall_forall. intros [[i l] w] Hin. destruct (I_W _ _ Hinv i l w ltac:(apply in_rev in Hin; exact Hin)) as (A & B & _). split; assumption.
Qed.
