(* Position bookkeeping of vorbisfile is truthful on intact streams: lemmas for C07. *)
From VV Require Import Blocking Blocking_lemmas VFile VFile_lemmas Decoder_lemmas.
From Coq Require Import ZArith List Bool Lia ZifyBool.
Import ListNotations.
Local Open Scope Z_scope.

(* blockin on a decoder whose output has been read completely, for a packet that
   needs no trimming: exactly the step between the two block centres becomes pending *)
Lemma blockin_no_trim c s b :
  0 <= bs0 c -> 0 <= bs1 c -> 0 <= hs c ->
  k_pcm b = true -> d_ret s = d_cur s -> 0 <= d_ret s ->
  k_eof b = false ->
  let stp := bsz c (d_W s) / 4 + bsz c (k_W b) / 4 in
  let lost := (d_seq s =? -1) || negb (d_seq s + 1 =? k_seq b) in
  let gran0 := if lost then -1 else d_gran s in
  let count0 := if lost then -1 else d_count s in
  let count1 := if count0 =? -1 then 0 else count0 + stp in
  (* the packet's granule position, when present, does not contradict the running count *)
  (k_gran b = -1 \/ (gran0 = -1 /\ count1 <= k_gran b) \/ (gran0 <> -1 /\ gran0 + stp = k_gran b)) ->
  exists s', dec_blockin c s b = (0, s') /\
             dec_pcmout s' = (if 0 <? Z.shiftr stp (hs c) then Z.shiftr stp (hs c) else 0) /\
             d_ret s' = d_cur s' - dec_pcmout s' /\ d_W s' = k_W b /\ d_seq s' = k_seq b /\
             d_count s' = count1 /\
             d_gran s' = (if gran0 =? -1 then k_gran b else gran0 + stp) /\ 0 <= d_ret s'.
Proof.
  intros Hb0 Hb1 Hhs Hp Hr Hr0 He stp lost gran0 count0 count1 Hg.
  unfold dec_blockin. rewrite Hr.
  destruct ((d_cur s >? d_cur s) && negb (d_cur s =? -1)) eqn:E0; [lia|].
  unfold dec_pcmpart. rewrite Hp, Hr.
  destruct (d_cur s =? -1) eqn:E1; [lia|].
  fold stp. fold lost. fold gran0. fold count0. fold count1.
  set (prevC := if d_centerW s =? 0 then Z.shiftr (bs1 c) (hs c + 1) else 0).
  assert (0 <= prevC) as HpC by (unfold prevC; destruct (d_centerW s =? 0); [apply Z.shiftr_nonneg; exact Hb1|lia]).
  assert (0 <= Z.shiftr stp (hs c)) as Hst.
  { apply Z.shiftr_nonneg. unfold stp. assert (0 <= bsz c (d_W s) / 4 /\ 0 <= bsz c (k_W b) / 4) by (unfold bsz; destruct (d_W s), (k_W b); split; apply Z.div_pos; lia). lia. }
  assert (dec_granule (hs c) gran0 count1 stp b prevC (prevC + Z.shiftr stp (hs c)) =
          (fst (fst (dec_granule (hs c) gran0 count1 stp b prevC (prevC + Z.shiftr stp (hs c)))), prevC, prevC + Z.shiftr stp (hs c))) as Hdg.
  { unfold dec_granule. destruct (gran0 =? -1) eqn:Eg.
    - destruct (negb (k_gran b =? -1)) eqn:Ek; [|reflexivity].
      rewrite Hp. unfold trim_first. destruct (count1 >? k_gran b) eqn:Ec; [lia|reflexivity].
    - destruct (negb (k_gran b =? -1) && negb (gran0 + stp =? k_gran b)) eqn:Ek; [lia|reflexivity]. }
  assert (fst (fst (dec_granule (hs c) gran0 count1 stp b prevC (prevC + Z.shiftr stp (hs c)))) = (if gran0 =? -1 then k_gran b else gran0 + stp)) as Hgr.
  { unfold dec_granule. destruct (gran0 =? -1) eqn:Eg.
    - destruct (negb (k_gran b =? -1)) eqn:Ek.
      + rewrite Hp. destruct (trim_first (hs c) count1 b prevC (prevC + Z.shiftr stp (hs c))). reflexivity.
      + cbn. lia.
    - destruct (negb (k_gran b =? -1) && negb (gran0 + stp =? k_gran b)) eqn:Ek; [lia|reflexivity]. }
  rewrite Hdg. eexists. split; [reflexivity|].
  unfold dec_pcmout. cbn [d_ret d_cur d_W d_seq d_count d_gran]. rewrite Hgr.
  destruct (0 <? Z.shiftr stp (hs c)) eqn:E;
    destruct ((prevC >? -1) && (prevC <? prevC + Z.shiftr stp (hs c))) eqn:E2; repeat split; lia.
Qed.

(* ------------------------------------------------------------------ *)
(* vorbisfile's position bookkeeping is truthful for a packet of an     *)
(* intact stream: after _fetch_and_process_packet the reported position *)
(* is that of the first sample now pending                              *)
(* ------------------------------------------------------------------ *)
Lemma process_audio_sync s p w :
  let c := cur_cfg s in let d := v_dec s in let l := cur_link s in
  v_hs s = 0 -> 0 <= li_bs0 l -> 0 <= li_bs1 l ->
  d_ret d = d_cur d -> 0 <= d_ret d -> pk_eos p = false ->
  d_seq d <> -1 -> d_seq d + 1 = v_pno s ->
  let stp := bsz c (d_W d) / 4 + bsz c w / 4 in
  let here := v_pcm s - base_of s (v_link s) in          (* position inside the link before the packet *)
  0 <= here ->
  (* intact stream: a granule position, when present, is the link's initial offset plus the position of the end of this block *)
  (pk_gran p = -1 \/ pk_gran p = li_init l + here + stp) ->
  (* the decoder's own tracking agrees with it *)
  (d_gran d = -1 /\ (d_count d = -1 \/ d_count d + stp <= li_init l + here + stp) \/ d_gran d = li_init l + here) ->
  0 <= li_init l ->
  let s' := process_audio s p w in
  v_pcm s' = v_pcm s /\ dec_pcmout (v_dec s') = stp /\ v_link s' = v_link s /\ v_hs s' = v_hs s.
Proof.
  intros c d l Hhs Hb0 Hb1 Hr Hr0 He Hs1 Hs2 stp here Hh Hg Ht Hi.
  unfold process_audio.
  set (b := {| k_W := w; k_gran := pk_gran p; k_seq := v_pno s; k_eof := pk_eos p; k_pcm := true |}).
  assert (hs c = 0) as Hhc by (unfold c, cur_cfg, cfg_of; cbn; exact Hhs).
  assert (0 <= stp) as Hst.
  { assert (0 <= li_bs0 l / 4) by (apply Z.div_pos; lia). assert (0 <= li_bs1 l / 4) by (apply Z.div_pos; lia).
    unfold stp, bsz, c, cur_cfg, cfg_of. cbn [bs0 bs1]. fold l. destruct (d_W d), w; lia. }
  destruct (blockin_no_trim c d b) as (d' & Eb & Hout & Hret & HW & Hsq & Hcnt & Hgrn & Hret0).
  - unfold c, cur_cfg, cfg_of; cbn; exact Hb0.
  - unfold c, cur_cfg, cfg_of; cbn; exact Hb1.
  - lia.
  - reflexivity.
  - exact Hr.
  - exact Hr0.
  - exact He.
  - unfold b. cbn [k_gran k_seq k_W]. fold stp.
    destruct ((d_seq d =? -1) || negb (d_seq d + 1 =? v_pno s)) eqn:El; [lia|].
    destruct Hg as [Hg|Hg]; [left; exact Hg|right].
    destruct Ht as [[Hgd Hc]|Hgd].
    + left. split; [exact Hgd|]. destruct (d_count d =? -1) eqn:Ec; lia.
    + right. split; lia.
  - fold c d. rewrite Eb. unfold b in Hout. cbn [k_W] in Hout. fold stp in Hout. rewrite Hhc in Hout.
    rewrite Z.shiftr_0_r in Hout.
    assert (dec_pcmout d' = stp) as Hout' by (destruct (0 <? stp) eqn:E; lia).
    destruct (negb (pk_gran p =? -1) && negb (pk_eos p)) eqn:Eg.
    + cbn [v_pcm v_dec v_link v_hs set_pcm set_dec]. rewrite Hout', Hhs, Z.shiftl_0_r.
      destruct Hg as [Hg|Hg]; [lia|]. fold l. rewrite Hg.
      replace (li_init l + here + stp - li_init l) with (here + stp) by lia.
      destruct (here + stp <? 0) eqn:E; [lia|]. destruct (here + stp - stp <? 0) eqn:E2; [lia|]. unfold here. repeat split; lia.
    + cbn [v_pcm v_dec v_link v_hs set_dec]. repeat split; try reflexivity. exact Hout'.
Qed.

(* ------------------------------------------------------------------ *)
(* linear reading: feed a packet, take everything it makes available    *)
(* ------------------------------------------------------------------ *)
Definition tracking (l : linfo) (d : dec) (here : Z) : Prop :=
  (d_gran d = -1 /\ (d_count d = -1 \/ d_count d <= li_init l + here)) \/ d_gran d = li_init l + here.

Definition SyncInv (s : vfs) (here : Z) : Prop :=
  let l := cur_link s in let d := v_dec s in
  v_hs s = 0 /\ 0 <= li_bs0 l /\ 0 <= li_bs1 l /\ 0 <= li_init l /\
  d_ret d = d_cur d /\ 0 <= d_ret d /\ 0 <= d_seq d /\ d_seq d + 1 = v_pno s /\
  v_pcm s = base_of s (v_link s) + here /\ 0 <= here /\ tracking l d here.

(* what _fetch_and_process_packet does with one audio packet of the current link *)
Definition feed (s : vfs) (p : pkt) (w : bool) : vfs :=
  let s2 := process_audio s p w in set_q s2 (v_q s2) (v_fresh s2) (v_pno s + 1).
(* ov_read_float asked for at least what is pending (full rate) *)
Definition drain (s : vfs) : Z * vfs :=
  let n := dec_pcmout (v_dec s) in
  let (_, d) := dec_read (v_dec s) n in (n, set_pcm (set_dec s d) (v_pcm s + n)).

Definition intact (s : vfs) (here : Z) (p : pkt) (w : bool) : Prop :=
  let c := cur_cfg s in
  let stp := bsz c (d_W (v_dec s)) / 4 + bsz c w / 4 in
  pk_eos p = false /\ (pk_gran p = -1 \/ pk_gran p = li_init (cur_link s) + here + stp).

Lemma feed_drain_sync s here p w :
  SyncInv s here -> intact s here p w ->
  let stp := bsz (cur_cfg s) (d_W (v_dec s)) / 4 + bsz (cur_cfg s) w / 4 in
  let '(n, s2) := drain (feed s p w) in
  n = stp /\ SyncInv s2 (here + stp) /\ d_W (v_dec s2) = w.
Proof.
  intros (Hhs & Hb0 & Hb1 & Hi & Hr & Hr0 & Hs1 & Hs2 & Hpcm & Hh & Ht) (He & Hg) stp.
  set (c := cur_cfg s) in *. set (d := v_dec s) in *. set (l := cur_link s) in *.
  assert (hs c = 0) as Hhc by (unfold c, cur_cfg, cfg_of; cbn; exact Hhs).
  assert (0 <= stp) as Hst.
  { assert (0 <= li_bs0 l / 4) by (apply Z.div_pos; lia). assert (0 <= li_bs1 l / 4) by (apply Z.div_pos; lia).
    unfold stp, bsz, c, cur_cfg, cfg_of. cbn [bs0 bs1]. fold l. destruct (d_W d), w; lia. }
  set (b := {| k_W := w; k_gran := pk_gran p; k_seq := v_pno s; k_eof := pk_eos p; k_pcm := true |}).
  destruct (blockin_no_trim c d b) as (d' & Eb & Hout & Hret & HW & Hsq & Hcnt & Hgrn & Hret0).
  - unfold c, cur_cfg, cfg_of; cbn; exact Hb0.
  - unfold c, cur_cfg, cfg_of; cbn; exact Hb1.
  - lia.
  - reflexivity.
  - exact Hr.
  - exact Hr0.
  - exact He.
  - unfold b. cbn [k_gran k_seq k_W]. fold c d stp.
    destruct ((d_seq d =? -1) || negb (d_seq d + 1 =? v_pno s)) eqn:El; [lia|].
    destruct Hg as [Hg|Hg]; [left; exact Hg|right].
    destruct Ht as [[Hgd Hc]|Hgd].
    + left. split; [exact Hgd|]. destruct (d_count d =? -1) eqn:Ec; lia.
    + right. split; lia.
  - unfold b in Hout, HW, Hsq, Hcnt, Hgrn. cbn [k_W k_gran k_seq] in Hout, HW, Hsq, Hcnt, Hgrn. fold c d stp in Hout, Hcnt, Hgrn.
    rewrite Hhc, Z.shiftr_0_r in Hout.
    assert (dec_pcmout d' = stp) as Hout' by (destruct (0 <? stp) eqn:E; lia).
    destruct ((d_seq d =? -1) || negb (d_seq d + 1 =? v_pno s)) eqn:El; [lia|].
    (* the state after the packet *)
    unfold feed, process_audio. fold c d b. rewrite Eb.
    set (s1 := if negb (pk_gran p =? -1) && negb (pk_eos p) then _ else set_dec s d').
    assert (v_pcm s1 = v_pcm s /\ v_dec s1 = d' /\ v_link s1 = v_link s /\ v_links s1 = v_links s /\ v_hs s1 = v_hs s) as (P1 & P2 & P3 & P4 & P5).
    { unfold s1. destruct (negb (pk_gran p =? -1) && negb (pk_eos p)) eqn:Eg; cbn; repeat split; try reflexivity.
      rewrite Hout', Hhs, Z.shiftl_0_r. destruct Hg as [Hg|Hg]; [lia|]. fold l. rewrite Hg. fold stp.
      destruct (li_init l + here + stp - li_init l <? 0) eqn:E; [lia|]. destruct (li_init l + here + stp - li_init l - stp <? 0) eqn:E2; lia. }
    unfold drain. cbn [v_dec v_pcm set_q]. rewrite P2.
    unfold dec_read. rewrite Hout'.
    destruct (negb (stp =? 0) && (d_ret d' + stp >? d_cur d')) eqn:Er; [lia|].
    split; [reflexivity|]. split; [|cbn; exact HW].
    unfold SyncInv, cur_link, nth_link, base_of. cbn [v_hs v_dec v_pno v_pcm v_link v_links set_pcm set_dec set_q d_ret d_cur d_seq d_gran d_count d_W].
    rewrite P1, P3, P4, P5. fold (nth_link s (v_link s)). fold (cur_link s). fold l. fold (base_of s (v_link s)).
    repeat split; try assumption; try lia.
    unfold tracking. cbn [d_gran d_count].
    destruct Hg as [Hg|Hg].
    + (* no granule position on this packet *)
      destruct Ht as [[Hgd Hc]|Hgd].
      * left. rewrite Hgrn, Hgd. cbn [Z.eqb]. split; [exact Hg|]. rewrite Hcnt. destruct (d_count d =? -1) eqn:Ec; lia.
      * right. rewrite Hgrn. destruct (d_gran d =? -1) eqn:Eq; lia.
    + fold stp in Hg. right. rewrite Hgrn. destruct (d_gran d =? -1) eqn:Eq; [lia|].
      destruct Ht as [[Hgd Hc]|Hgd]; lia.
Qed.

(* any number of packets of an intact link read linearly *)
Fixpoint run_link (s : vfs) (ps : list (pkt * bool)) : vfs * list Z :=
  match ps with
  | [] => (s, [])
  | (p, w) :: r => let '(n, s2) := drain (feed s p w) in
                   let '(s3, ns) := run_link s2 r in (s3, n :: ns)
  end.
Fixpoint intact_seq (s : vfs) (here : Z) (ps : list (pkt * bool)) : Prop :=
  match ps with
  | [] => True
  | (p, w) :: r =>
      intact s here p w /\
      intact_seq (snd (drain (feed s p w))) (here + (bsz (cur_cfg s) (d_W (v_dec s)) / 4 + bsz (cur_cfg s) w / 4)) r
  end.

Lemma feed_drain_tables s p w :
  v_links (snd (drain (feed s p w))) = v_links s /\ v_link (snd (drain (feed s p w))) = v_link s.
Proof.
  unfold drain, feed, process_audio.
  destruct (dec_blockin (cur_cfg s) (v_dec s) _) as [y d1].
  destruct (negb (pk_gran p =? -1) && negb (pk_eos p)); cbn [v_dec set_q set_pcm set_dec];
    match goal with |- context [dec_read ?a ?b] => destruct (dec_read a b) as [x d0] end; cbn; split; reflexivity.
Qed.

Theorem linear_read_sync : forall ps s here,
  SyncInv s here -> intact_seq s here ps ->
  let '(s', ns) := run_link s ps in
  let total := fold_right Z.add 0 ns in
  SyncInv s' (here + total) /\ v_pcm s' = v_pcm s + total /\ Forall (fun n => 0 <= n) ns.
Proof.
  induction ps as [|pw r IH]; intros s here Hinv Hseq; [|destruct pw as [p w]]; cbn [run_link intact_seq] in *.
  - cbn. rewrite !Z.add_0_r. split; [exact Hinv|]. split; [reflexivity|constructor].
  - destruct Hseq as [Hi Hr].
    pose proof (feed_drain_sync s here p w Hinv Hi) as Hstep.
    destruct (drain (feed s p w)) as [n s2] eqn:Ed. destruct Hstep as (Hn & Hinv2 & HW).
    cbn [snd] in Hr. specialize (IH s2 _ Hinv2 Hr).
    destruct (run_link s2 r) as [s3 ns]. cbn [fold_right].
    destruct IH as (A & B & C).
    assert (v_pcm s2 = v_pcm s + n) as Hp2.
    { destruct Hinv as (_ & _ & _ & _ & _ & _ & _ & _ & Hpc & _). destruct Hinv2 as (_ & _ & _ & _ & _ & _ & _ & _ & Hpc2 & _).
      assert (base_of s2 (v_link s2) = base_of s (v_link s)) as Hb.
      { pose proof (feed_drain_tables s p w) as [T1 T2]. rewrite Ed in T1, T2. cbn [snd] in T1, T2. unfold base_of. rewrite T1, T2. reflexivity. }
      rewrite Hb in Hpc2. lia. }
    assert (0 <= n) as Hn0.
    { subst n. destruct Hinv as (_ & Hb0 & Hb1 & _). unfold bsz, cur_cfg, cfg_of. cbn [bs0 bs1].
      assert (0 <= li_bs0 (cur_link s) / 4) by (apply Z.div_pos; lia). assert (0 <= li_bs1 (cur_link s) / 4) by (apply Z.div_pos; lia).
      destruct (d_W (v_dec s)), w; lia. }
    split; [replace (here + (n + fold_right Z.add 0 ns)) with (here + (bsz (cur_cfg s) (d_W (v_dec s)) / 4 + bsz (cur_cfg s) w / 4) + fold_right Z.add 0 ns) by lia; exact A|].
    split; [lia|constructor; assumption].
Qed.

(* ------------------------------------------------------------------ *)
(* the end of a link                                                    *)
(* ------------------------------------------------------------------ *)
(* the last block of a link: its granule position says where the link ends; what lies beyond is cut off *)
Lemma blockin_eos c s b :
  0 <= bs0 c -> 0 <= bs1 c -> hs c = 0 ->
  k_pcm b = true -> d_ret s = d_cur s -> 0 <= d_ret s -> k_eof b = true ->
  d_seq s <> -1 -> d_seq s + 1 = k_seq b -> d_gran s <> -1 ->
  let stp := bsz c (d_W s) / 4 + bsz c (k_W b) / 4 in
  d_gran s <= k_gran b <= d_gran s + stp -> k_gran b <> -1 ->
  exists s', dec_blockin c s b = (0, s') /\ dec_pcmout s' = k_gran b - d_gran s /\
             d_ret s' = d_cur s' - dec_pcmout s' /\ 0 <= d_ret s' /\ d_gran s' = k_gran b.
Proof.
  intros Hb0 Hb1 Hhs Hp Hr Hr0 He Hs1 Hs2 Hg0 stp Hrange Hk.
  unfold dec_blockin. rewrite Hr.
  destruct ((d_cur s >? d_cur s) && negb (d_cur s =? -1)) eqn:E0; [lia|].
  unfold dec_pcmpart. rewrite Hp, Hr.
  destruct (d_cur s =? -1) eqn:E1; [lia|].
  fold stp.
  destruct ((d_seq s =? -1) || negb (d_seq s + 1 =? k_seq b)) eqn:El; [lia|].
  set (prevC := if d_centerW s =? 0 then Z.shiftr (bs1 c) (hs c + 1) else 0).
  assert (0 <= prevC) as HpC by (unfold prevC; destruct (d_centerW s =? 0); [apply Z.shiftr_nonneg; exact Hb1|lia]).
  assert (0 <= stp) as Hst.
  { unfold stp. assert (0 <= bsz c (d_W s) / 4 /\ 0 <= bsz c (k_W b) / 4) by (unfold bsz; destruct (d_W s), (k_W b); split; apply Z.div_pos; lia). lia. }
  rewrite Hhs, Z.shiftr_0_r.
  set (count1 := if d_count s =? -1 then 0 else d_count s + stp).
  assert (dec_granule 0 (d_gran s) count1 stp b prevC (prevC + stp) = (k_gran b, prevC, prevC + (k_gran b - d_gran s))) as Hdg.
  { unfold dec_granule. destruct (d_gran s =? -1) eqn:Eg; [lia|].
    destruct (negb (k_gran b =? -1) && negb (d_gran s + stp =? k_gran b)) eqn:Ek.
    - unfold trim_tracked. rewrite He. destruct ((d_gran s + stp >? k_gran b) && true) eqn:Egt; [|lia].
      rewrite !Z.shiftl_0_r, !Z.shiftr_0_r.
      replace (prevC + stp - prevC) with stp by lia.
      destruct (d_gran s + stp - k_gran b >? stp) eqn:E2; [lia|].
      destruct (d_gran s + stp - k_gran b <? 0) eqn:E3; [lia|].
      f_equal. lia.
    - assert (d_gran s + stp = k_gran b) by lia. f_equal; [f_equal; lia|lia]. }
  rewrite Hdg. eexists. split; [reflexivity|].
  unfold dec_pcmout. cbn [d_ret d_cur d_gran].
  destruct ((prevC >? -1) && (prevC <? prevC + (k_gran b - d_gran s))) eqn:E2; repeat split; lia.
Qed.

(* the end-of-stream packet of a link, fed to a synchronised handle whose decoder has seen a granule position:
   exactly the samples up to the link's end come out, and the position reported afterwards is the link's end *)
Lemma feed_drain_eos s here p w L :
  SyncInv s here -> d_gran (v_dec s) = li_init (cur_link s) + here ->
  pk_eos p = true -> pk_gran p = li_init (cur_link s) + L ->
  let stp := bsz (cur_cfg s) (d_W (v_dec s)) / 4 + bsz (cur_cfg s) w / 4 in
  here <= L <= here + stp ->
  let '(n, s2) := drain (feed s p w) in
  n = L - here /\ v_pcm s2 = base_of s (v_link s) + L /\ dec_pcmout (v_dec s2) = 0 /\ v_link s2 = v_link s.
Proof.
  intros (Hhs & Hb0 & Hb1 & Hi & Hr & Hr0 & Hs1 & Hs2 & Hpcm & Hh & Ht) Hgr He Hg stp HL.
  set (c := cur_cfg s) in *. set (d := v_dec s) in *. set (l := cur_link s) in *.
  assert (hs c = 0) as Hhc by (unfold c, cur_cfg, cfg_of; cbn; exact Hhs).
  set (b := {| k_W := w; k_gran := pk_gran p; k_seq := v_pno s; k_eof := pk_eos p; k_pcm := true |}).
  destruct (blockin_eos c d b) as (d' & Eb & Hout & Hret & Hret0 & Hgrn).
  - unfold c, cur_cfg, cfg_of; cbn; exact Hb0.
  - unfold c, cur_cfg, cfg_of; cbn; exact Hb1.
  - exact Hhc.
  - reflexivity.
  - exact Hr.
  - exact Hr0.
  - exact He.
  - lia.
  - cbn. lia.
  - lia.
  - unfold b. cbn [k_gran k_W]. fold stp. lia.
  - unfold b. cbn [k_gran]. lia.
  - unfold b in Hout, Hgrn. cbn [k_gran] in Hout, Hgrn.
    unfold drain, feed, process_audio. fold c d b. rewrite Eb.
    rewrite He. rewrite andb_false_r.
    cbn [v_dec v_pcm set_q set_dec].
    unfold dec_read. rewrite Hout.
    destruct (negb (pk_gran p - d_gran d =? 0) && (d_ret d' + (pk_gran p - d_gran d) >? d_cur d')) eqn:Er; [lia|].
    split; [lia|]. split; [cbn; lia|]. split; [|reflexivity].
    unfold dec_pcmout. cbn [v_dec set_pcm set_dec d_ret d_cur].
    destruct ((d_ret d' + (pk_gran p - d_gran d) >? -1) && (d_ret d' + (pk_gran p - d_gran d) <? d_cur d')) eqn:E2; lia.
Qed.

(* reading an intact link to its end: the intact packets, then the end-of-stream packet *)
Theorem link_read_to_end : forall ps s here p w L,
  SyncInv s here -> intact_seq s here ps ->
  let '(s1, ns) := run_link s ps in
  let here1 := here + fold_right Z.add 0 ns in
  d_gran (v_dec s1) <> -1 ->
  pk_eos p = true -> pk_gran p = li_init (cur_link s1) + L ->
  here1 <= L <= here1 + (bsz (cur_cfg s1) (d_W (v_dec s1)) / 4 + bsz (cur_cfg s1) w / 4) ->
  let '(n, s2) := drain (feed s1 p w) in
  fold_right Z.add 0 ns + n = L - here /\ v_pcm s2 = base_of s (v_link s) + L /\ dec_pcmout (v_dec s2) = 0.
Proof.
  intros ps s here p w L Hinv Hseq.
  pose proof (linear_read_sync ps s here Hinv Hseq) as Hlin.
  destruct (run_link s ps) as [s1 ns] eqn:Er. cbv zeta in *. destruct Hlin as (Hinv1 & Hpcm1 & Hpos).
  intros Hgr He Hg HL.
  assert (d_gran (v_dec s1) = li_init (cur_link s1) + (here + fold_right Z.add 0 ns)) as Hgr1.
  { destruct Hinv1 as (_ & _ & _ & _ & _ & _ & _ & _ & _ & _ & [[A _]|A]); [congruence|exact A]. }
  pose proof (feed_drain_eos s1 _ p w L Hinv1 Hgr1 He Hg HL) as Hfin.
  destruct (drain (feed s1 p w)) as [n s2]. destruct Hfin as (Hn & Hp2 & Ho & _).
  split; [lia|]. split; [|exact Ho].
  destruct Hinv as (_ & _ & _ & _ & _ & _ & _ & _ & Hp0 & _). destruct Hinv1 as (_ & _ & _ & _ & _ & _ & _ & _ & Hp1 & _).
  lia.
Qed.
