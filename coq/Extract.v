(* Extraction of the executable models (ExtrOcamlBasic only; Z, N, nat stay
   the extracted inductives).  Roots are listed explicitly. *)
From Coq Require Import Extraction ExtrOcamlBasic.
From VV Require Import SrcFacts Bits Comment Blocking Overlap Pcm VFile Bitrate EncSetup Fl Setup Codebook PacketDec Pack Seek_lemmas SeekH_lemmas SeekE_lemmas Lap_lemmas.
Extraction Language OCaml.
Extraction "model.ml"
  (* SrcFacts *) encode_vendor_string general_vendor_string
  (* Bits *) bits_of val_of bread blook badv bits_of_bytes bytes_of_bits le32 read32 to_int32
  (* Comment *) toupper tagcompare matches query query_count query_value comment_add comment_add_tag
     pack_comment headerin_comment
  (* Blocking *) enc_init enc_buffer enc_wrote enc_blockout enc_run dec_init dec_restart dec_blockin
     dec_pcmout dec_read dec_run dec_lapout to_dblock
  (* Overlap *) blockin_buf lapout_buf spec_out pkts half
  (* Pcm *) decode_b32 ftoi pack_sample pack_frames read_frames
  (* VFile *) open_file read_float read_fuel raw_seek pcm_seek_page pcm_seek pcm_seek_lap pcm_seek_page_lap raw_seek_lap raw_tell pcm_total set_hs halfrate seek_hyps seek_hyps_h seek_hyps_e seek_end_hyps start_hyps lap_hyps
  (* Bitrate *) addblock
  (* EncSetup *) decode_b64 mk_template setup_templates s_init sstep nominal_eff
  (* Setup/Codebook/PacketDec *) h_init headerin synthesis_init synthesis encode_b32 setup_packet ident_packet.
