(* Proofs about M8 (VFile.v): first batch - argument validation, the consuming
   step of a read, the landing page of a page seek, link selection. *)
From VV Require Import Blocking VFile.
From Coq Require Import ZifyBool.
Local Open Scope Z_scope.
Ltac Zify.zify_post_hook ::= Z.div_mod_to_equations.

(* ---- out-of-range arguments are rejected and nothing changes ---------------- *)

Lemma raw_seek_rejects s pos :
  pos < 0 \/ pos > file_end s -> raw_seek s pos = (OV_EINVAL_, s).
Proof.
  intros H. unfold raw_seek. destruct (v_rs s <? OPENED); [reflexivity|].
  destruct ((pos <? 0) || (pos >? file_end s)) eqn:E; [reflexivity|lia].
Qed.

Lemma pcm_seek_page_rejects s pos :
  pos < 0 \/ pos > pcm_total s -> pcm_seek_page s pos = (OV_EINVAL_, s).
Proof.
  intros H. unfold pcm_seek_page. destruct (v_rs s <? OPENED); [reflexivity|].
  destruct ((pos <? 0) || (pos >? pcm_total s)) eqn:E; [reflexivity|lia].
Qed.

Lemma pcm_seek_rejects s pos :
  pos < 0 \/ pos > pcm_total s -> pcm_seek s pos = (OV_EINVAL_, s).
Proof.
  intros H. unfold pcm_seek. rewrite pcm_seek_page_rejects by exact H.
  unfold OV_EINVAL_. reflexivity.
Qed.

(* ---- the consuming step of a read -------------------------------------------- *)

Lemma read_consumes f s len :
  v_rs s = INITSET -> 0 < dec_pcmout (v_dec s) ->
  let avail := dec_pcmout (v_dec s) in
  let n := if avail >? len then len else avail in
  exists s', read_float (S f) s len = (n, v_link s, s') /\
             v_pcm s' = v_pcm s + Z.shiftl n (v_hs s) /\
             v_link s' = v_link s /\ v_rem s' = v_rem s /\ v_q s' = v_q s /\
             v_dec s' = snd (dec_read (v_dec s) n) /\ v_hs s' = v_hs s /\ v_rs s' = v_rs s.
Proof.
  intros Hrs Hav. cbv zeta. cbn [read_float]. rewrite Hrs.
  change (INITSET =? INITSET) with true. cbv iota.
  destruct (negb (dec_pcmout (v_dec s) =? 0)) eqn:E; [|lia].
  destruct (dec_read (v_dec s) (if dec_pcmout (v_dec s) >? len then len else dec_pcmout (v_dec s))) as [rc d] eqn:Ed.
  eexists. split; [reflexivity|]. cbn. repeat split; first [reflexivity | exact Hrs | symmetry; exact Hrs].
Qed.

(* reading n <= avail samples leaves avail - n pending *)
Lemma dec_read_pcmout d n :
  0 <= n <= dec_pcmout d -> 0 < dec_pcmout d ->
  dec_pcmout (snd (dec_read d n)) = dec_pcmout d - n.
Proof.
  intros Hn Hp. unfold dec_pcmout in *. unfold dec_read.
  destruct ((d_ret d >? -1) && (d_ret d <? d_cur d)) eqn:E; [|lia].
  destruct (negb (n =? 0) && (d_ret d + n >? d_cur d)) eqn:E2; [lia|]. cbn.
  destruct ((d_ret d + n >? -1) && (d_ret d + n <? d_cur d)) eqn:E3; lia.
Qed.

(* ---- landing page of a page seek ---------------------------------------------- *)

Definition candidate (l : linfo) (target : Z) (pg : page) : bool :=
  (pg_off pg >=? li_dataoff l) && (pg_serial pg =? li_serial l) && negb (pg_gran pg =? -1) && (pg_gran pg <? target).

Lemma best_page_some pgs l target b r :
  best_page pgs l target b = Some r ->
  (b = Some r) \/ (exists pg rest, r = pg :: rest /\ candidate l target pg = true /\ pg_off pg < li_end l).
Proof.
  revert b. induction pgs as [|pg rest IH]; intros b H; cbn [best_page] in H.
  - left. exact H.
  - destruct (pg_off pg >=? li_end l) eqn:Ee; [left; exact H|].
    fold (candidate l target pg) in H. destruct (candidate l target pg) eqn:Ec.
    + apply IH in H. destruct H as [H|H]; [|right; exact H].
      right. exists pg, rest. inversion H; subst. repeat split; auto. lia.
    + apply IH in H. exact H.
Qed.

(* the landing page is the LAST candidate of the search range *)
Fixpoint last_cand (l : linfo) (target : Z) (pgs : list page) : option (list page) :=
  match pgs with
  | [] => None
  | pg :: r =>
      match last_cand l target r with
      | Some x => Some x
      | None => if candidate l target pg then Some pgs else None
      end
  end.

Lemma best_page_last_cand l target pgs b :
  Forall (fun pg => pg_off pg < li_end l) pgs ->
  best_page pgs l target b = match last_cand l target pgs with Some x => Some x | None => b end.
Proof.
  revert b. induction pgs as [|pg r IH]; intros b Hf; cbn [best_page last_cand]; [reflexivity|].
  inversion Hf as [|? ? Hp Hr]; subst.
  destruct (pg_off pg >=? li_end l) eqn:Ee; [lia|].
  fold (candidate l target pg). destruct (candidate l target pg) eqn:Ec.
  - rewrite IH by exact Hr. destruct (last_cand l target r); reflexivity.
  - rewrite IH by exact Hr. destruct (last_cand l target r); reflexivity.
Qed.

Lemma last_cand_none l target pgs :
  last_cand l target pgs = None -> Forall (fun pg => candidate l target pg = false) pgs.
Proof.
  induction pgs as [|pg r IH]; intros H; [constructor|]. cbn [last_cand] in H.
  destruct (last_cand l target r) eqn:E; [discriminate|].
  destruct (candidate l target pg) eqn:Ec; [discriminate|]. constructor; auto.
Qed.

Lemma last_cand_some l target pgs pg rest :
  last_cand l target pgs = Some (pg :: rest) ->
  exists pre, pgs = pre ++ pg :: rest /\ candidate l target pg = true /\
              Forall (fun q => candidate l target q = false) rest.
Proof.
  induction pgs as [|p r IH]; intros H; [discriminate|]. cbn [last_cand] in H.
  destruct (last_cand l target r) eqn:E.
  - inversion H; subst. destruct (IH eq_refl) as (pre & -> & Hc & Hf).
    exists (p :: pre). auto.
  - destruct (candidate l target p) eqn:Ec; [|discriminate]. inversion H; subst.
    exists []. split; [reflexivity|]. split; [exact Ec|]. apply last_cand_none. exact E.
Qed.

(* page seek landing: among the link's pages in the search range, the landing
   page has a granule position below the target and every later one has not *)
Lemma best_page_spec l target pgs pg rest :
  Forall (fun pg => pg_off pg < li_end l) pgs ->
  best_page pgs l target None = Some (pg :: rest) ->
  exists pre, pgs = pre ++ pg :: rest /\ candidate l target pg = true /\
              Forall (fun q => candidate l target q = false) rest.
Proof.
  intros Hf H. rewrite best_page_last_cand in H by exact Hf.
  destruct (last_cand l target pgs) eqn:E; [|discriminate]. inversion H; subst.
  apply last_cand_some. exact E.
Qed.

Lemma best_page_none_spec l target pgs :
  Forall (fun pg => pg_off pg < li_end l) pgs ->
  best_page pgs l target None = None -> Forall (fun pg => candidate l target pg = false) pgs.
Proof.
  intros Hf H. rewrite best_page_last_cand in H by exact Hf.
  destruct (last_cand l target pgs) eqn:E; [discriminate|]. apply last_cand_none. exact E.
Qed.

(* ---- link selection -------------------------------------------------------------- *)

Lemma link_of_pos_bounds ls pos total i link t :
  link_of_pos ls pos total i = (link, t) -> 0 <= link -> pos >= t /\ link < Z.of_nat i.
Proof.
  revert total. induction i as [|k IH]; intros total H Hl; cbn [link_of_pos] in H.
  - inversion H; subst. lia.
  - destruct (pos >=? total - li_len (nth k ls _)) eqn:E.
    + inversion H; subst. lia.
    + apply IH in H; [|exact Hl]. lia.
Qed.

(* ---- link table ----------------------------------------------------------------- *)

Lemma split_links_gen pgs cur acc pb :
  concat (split_links pgs cur acc pb) = concat (rev acc) ++ rev cur ++ pgs.
Proof.
  revert cur acc pb. induction pgs as [|pg r IH]; intros cur acc pb; cbn [split_links].
  - destruct cur as [|c cs].
    + cbn. rewrite app_nil_r. reflexivity.
    + cbn [rev]. rewrite concat_app. cbn. rewrite !app_nil_r. reflexivity.
  - destruct (pg_bos pg && negb pb).
    + destruct cur as [|c cs]; rewrite IH; cbn [rev app concat].
      * reflexivity.
      * rewrite concat_app. cbn. rewrite app_nil_r, <- !app_assoc. reflexivity.
    + rewrite IH. cbn [rev]. rewrite <- !app_assoc. reflexivity.
Qed.

Lemma split_links_concat pgs : concat (split_links pgs [] [] false) = pgs.
Proof. rewrite split_links_gen. reflexivity. Qed.

Lemma mk_link_nonneg seg hdr fend next :
  0 <= li_len (mk_link seg hdr fend next) /\ 0 <= li_init (mk_link seg hdr fend next).
Proof.
  unfold mk_link. destruct hdr as [[serial b0] b1]. cbn [li_len li_init].
  split.
  - match goal with |- 0 <= (if ?c then _ else _) => destruct c eqn:E end; lia.
  - unfold initial_pcmoffset. match goal with |- 0 <= (if ?c then _ else _) => destruct c eqn:E end; lia.
Qed.

Lemma sum_len_fold ls : sum_len ls (length ls) = fold_right Z.add 0 (map li_len ls).
Proof. induction ls as [|l r IH]; cbn; [reflexivity|]. rewrite IH. reflexivity. Qed.

Lemma pcm_total_sum s : pcm_total s = fold_right Z.add 0 (map li_len (v_links s)).
Proof. unfold pcm_total. apply sum_len_fold. Qed.

Lemma mk_links_length segs hdrs fend :
  length (mk_links segs hdrs fend) = Nat.min (length segs) (length hdrs).
Proof.
  revert hdrs. induction segs as [|s r IH]; intros hdrs; destruct hdrs as [|h hr]; cbn; auto.
Qed.

(* ---- request lengths ---------------------------------------------------------------- *)

(* taking a then b pending samples is taking a+b *)
Lemma dec_read_add d a b :
  0 <= a -> 0 <= b -> a + b <= dec_pcmout d -> 0 < dec_pcmout d ->
  snd (dec_read (snd (dec_read d a)) b) = snd (dec_read d (a + b)).
Proof.
  intros Ha Hb Hab Hp. unfold dec_pcmout in *.
  destruct ((d_ret d >? -1) && (d_ret d <? d_cur d)) eqn:E; [|lia].
  unfold dec_read.
  destruct (negb (a =? 0) && (d_ret d + a >? d_cur d)) eqn:E1; [lia|]. cbn.
  destruct (negb (b =? 0) && (d_ret d + a + b >? d_cur d)) eqn:E2; [lia|].
  destruct (negb (a + b =? 0) && (d_ret d + (a + b) >? d_cur d)) eqn:E3; [lia|]. cbn.
  f_equal. lia.
Qed.

(* two consecutive reads that fit in what is pending equal one read of the sum:
   same counts, position, decoder state, queue and cursor *)
Lemma read_split f s a b :
  v_rs s = INITSET -> 0 <= v_hs s -> 0 < a -> 0 < b -> a + b <= dec_pcmout (v_dec s) ->
  exists s1 s2 s' lk1 lk2 lk,
    read_float (S f) s a = (a, lk1, s1) /\ read_float (S f) s1 b = (b, lk2, s2) /\
    read_float (S f) s (a + b) = (a + b, lk, s') /\
    v_pcm s2 = v_pcm s' /\ v_dec s2 = v_dec s' /\ v_q s2 = v_q s' /\ v_rem s2 = v_rem s' /\ v_link s2 = v_link s'.
Proof.
  intros Hrs Hhs Ha Hb Hab.
  destruct (read_consumes f s a Hrs ltac:(lia)) as (s1 & E1 & P1 & L1 & R1 & Q1 & D1 & H1 & S1).
  assert ((if dec_pcmout (v_dec s) >? a then a else dec_pcmout (v_dec s)) = a) as Ea
    by (destruct (dec_pcmout (v_dec s) >? a) eqn:C; lia).
  rewrite Ea in *.
  assert (dec_pcmout (v_dec s1) = dec_pcmout (v_dec s) - a) as Hav1 by (rewrite D1; apply dec_read_pcmout; lia).
  destruct (read_consumes f s1 b ltac:(congruence) ltac:(lia)) as (s2 & E2 & P2 & L2 & R2 & Q2 & D2 & H2 & S2).
  assert ((if dec_pcmout (v_dec s1) >? b then b else dec_pcmout (v_dec s1)) = b) as Eb
    by (destruct (dec_pcmout (v_dec s1) >? b) eqn:C; lia).
  rewrite Eb in *.
  destruct (read_consumes f s (a + b) Hrs ltac:(lia)) as (s' & E & P & L & R & Q & D & H & S0).
  assert ((if dec_pcmout (v_dec s) >? a + b then a + b else dec_pcmout (v_dec s)) = a + b) as Eab
    by (destruct (dec_pcmout (v_dec s) >? a + b) eqn:C; lia).
  rewrite Eab in *.
  exists s1, s2, s', (v_link s), (v_link s1), (v_link s).
  repeat split; try assumption; try congruence.
  - rewrite P2, P1, P, H1. rewrite !Z.shiftl_mul_pow2 by lia. lia.
  - rewrite D2, D1, D. apply dec_read_add; lia.
Qed.
