(* Proofs about M8 (VFile.v): first batch - argument validation, the consuming
   step of a read, the landing page of a page seek, link selection. *)
From VV Require Import Blocking VFile.
From Coq Require Import ZifyBool.
Local Open Scope Z_scope.
Ltac Zify.zify_post_hook ::= Z.div_mod_to_equations.

(* ---- out-of-range arguments are rejected and nothing changes ---------------- *)

Lemma raw_seek_rejects s pos :
  pos < 0 \/ pos > file_end s -> raw_seek s pos = (OV_EINVAL_, s).
Proof.
  intros H. unfold raw_seek. destruct (v_rs s <? OPENED); [reflexivity|].
  destruct ((pos <? 0) || (pos >? file_end s)) eqn:E; [reflexivity|lia].
Qed.

Lemma pcm_seek_page_rejects s pos :
  pos < 0 \/ pos > pcm_total s -> pcm_seek_page s pos = (OV_EINVAL_, s).
Proof.
  intros H. unfold pcm_seek_page. destruct (v_rs s <? OPENED); [reflexivity|].
  destruct ((pos <? 0) || (pos >? pcm_total s)) eqn:E; [reflexivity|lia].
Qed.

Lemma pcm_seek_rejects s pos :
  pos < 0 \/ pos > pcm_total s -> pcm_seek s pos = (OV_EINVAL_, s).
Proof.
  intros H. unfold pcm_seek. rewrite pcm_seek_page_rejects by exact H.
  unfold OV_EINVAL_. reflexivity.
Qed.

(* ---- the consuming step of a read -------------------------------------------- *)

Lemma read_consumes f s len :
  v_rs s = INITSET -> 0 < dec_pcmout (v_dec s) ->
  let avail := dec_pcmout (v_dec s) in
  let n := if avail >? len then len else avail in
  exists s', read_float (S f) s len = (n, v_link s, s') /\
             v_pcm s' = v_pcm s + Z.shiftl n (v_hs s) /\
             v_link s' = v_link s /\ v_rem s' = v_rem s /\ v_q s' = v_q s /\
             v_dec s' = snd (dec_read (v_dec s) n) /\ v_hs s' = v_hs s /\ v_rs s' = v_rs s.
Proof.
  intros Hrs Hav. cbv zeta. cbn [read_float]. rewrite Hrs.
  change (INITSET =? INITSET) with true. cbv iota.
  destruct (negb (dec_pcmout (v_dec s) =? 0)) eqn:E; [|lia].
  destruct (dec_read (v_dec s) (if dec_pcmout (v_dec s) >? len then len else dec_pcmout (v_dec s))) as [rc d] eqn:Ed.
  eexists. split; [reflexivity|]. cbn. repeat split; first [reflexivity | exact Hrs | symmetry; exact Hrs].
Qed.

(* reading n <= avail samples leaves avail - n pending *)
Lemma dec_read_pcmout d n :
  0 <= n <= dec_pcmout d -> 0 < dec_pcmout d ->
  dec_pcmout (snd (dec_read d n)) = dec_pcmout d - n.
Proof.
  intros Hn Hp. unfold dec_pcmout in *. unfold dec_read.
  destruct ((d_ret d >? -1) && (d_ret d <? d_cur d)) eqn:E; [|lia].
  destruct (negb (n =? 0) && (d_ret d + n >? d_cur d)) eqn:E2; [lia|]. cbn.
  destruct ((d_ret d + n >? -1) && (d_ret d + n <? d_cur d)) eqn:E3; lia.
Qed.

(* ---- landing page of a page seek ---------------------------------------------- *)

Definition candidate (l : linfo) (target : Z) (pg : page) : bool :=
  (pg_off pg >=? li_dataoff l) && (pg_serial pg =? li_serial l) && negb (pg_gran pg =? -1) && (pg_gran pg <? target).

Lemma best_page_some pgs l target b r :
  best_page pgs l target b = Some r ->
  (b = Some r) \/ (exists pg rest, r = pg :: rest /\ candidate l target pg = true /\ pg_off pg < li_end l).
Proof.
  revert b. induction pgs as [|pg rest IH]; intros b H; cbn [best_page] in H.
  - left. exact H.
  - destruct (pg_off pg >=? li_end l) eqn:Ee; [left; exact H|].
    fold (candidate l target pg) in H. destruct (candidate l target pg) eqn:Ec.
    + apply IH in H. destruct H as [H|H]; [|right; exact H].
      right. exists pg, rest. inversion H; subst. repeat split; auto. lia.
    + apply IH in H. exact H.
Qed.

(* the landing page is the LAST candidate of the search range *)
Fixpoint last_cand (l : linfo) (target : Z) (pgs : list page) : option (list page) :=
  match pgs with
  | [] => None
  | pg :: r =>
      match last_cand l target r with
      | Some x => Some x
      | None => if candidate l target pg then Some pgs else None
      end
  end.

Lemma best_page_last_cand l target pgs b :
  Forall (fun pg => pg_off pg < li_end l) pgs ->
  best_page pgs l target b = match last_cand l target pgs with Some x => Some x | None => b end.
Proof.
  revert b. induction pgs as [|pg r IH]; intros b Hf; cbn [best_page last_cand]; [reflexivity|].
  inversion Hf as [|? ? Hp Hr]; subst.
  destruct (pg_off pg >=? li_end l) eqn:Ee; [lia|].
  fold (candidate l target pg). destruct (candidate l target pg) eqn:Ec.
  - rewrite IH by exact Hr. destruct (last_cand l target r); reflexivity.
  - rewrite IH by exact Hr. destruct (last_cand l target r); reflexivity.
Qed.

Lemma last_cand_none l target pgs :
  last_cand l target pgs = None -> Forall (fun pg => candidate l target pg = false) pgs.
Proof.
  induction pgs as [|pg r IH]; intros H; [constructor|]. cbn [last_cand] in H.
  destruct (last_cand l target r) eqn:E; [discriminate|].
  destruct (candidate l target pg) eqn:Ec; [discriminate|]. constructor; auto.
Qed.

Lemma last_cand_some l target pgs pg rest :
  last_cand l target pgs = Some (pg :: rest) ->
  exists pre, pgs = pre ++ pg :: rest /\ candidate l target pg = true /\
              Forall (fun q => candidate l target q = false) rest.
Proof.
  induction pgs as [|p r IH]; intros H; [discriminate|]. cbn [last_cand] in H.
  destruct (last_cand l target r) eqn:E.
  - inversion H; subst. destruct (IH eq_refl) as (pre & -> & Hc & Hf).
    exists (p :: pre). auto.
  - destruct (candidate l target p) eqn:Ec; [|discriminate]. inversion H; subst.
    exists []. split; [reflexivity|]. split; [exact Ec|]. apply last_cand_none. exact E.
Qed.

(* page seek landing: among the link's pages in the search range, the landing
   page has a granule position below the target and every later one has not *)
Lemma best_page_spec l target pgs pg rest :
  Forall (fun pg => pg_off pg < li_end l) pgs ->
  best_page pgs l target None = Some (pg :: rest) ->
  exists pre, pgs = pre ++ pg :: rest /\ candidate l target pg = true /\
              Forall (fun q => candidate l target q = false) rest.
Proof.
  intros Hf H. rewrite best_page_last_cand in H by exact Hf.
  destruct (last_cand l target pgs) eqn:E; [|discriminate]. inversion H; subst.
  apply last_cand_some. exact E.
Qed.

Lemma best_page_none_spec l target pgs :
  Forall (fun pg => pg_off pg < li_end l) pgs ->
  best_page pgs l target None = None -> Forall (fun pg => candidate l target pg = false) pgs.
Proof.
  intros Hf H. rewrite best_page_last_cand in H by exact Hf.
  destruct (last_cand l target pgs) eqn:E; [discriminate|]. apply last_cand_none. exact E.
Qed.

(* ---- link selection -------------------------------------------------------------- *)

Lemma link_of_pos_bounds ls pos total i link t :
  link_of_pos ls pos total i = (link, t) -> 0 <= link -> pos >= t /\ link < Z.of_nat i.
Proof.
  revert total. induction i as [|k IH]; intros total H Hl; cbn [link_of_pos] in H.
  - inversion H; subst. lia.
  - destruct (pos >=? total - li_len (nth k ls _)) eqn:E.
    + inversion H; subst. lia.
    + apply IH in H; [|exact Hl]. lia.
Qed.

(* ---- link table ----------------------------------------------------------------- *)

Lemma split_links_gen pgs cur acc pb :
  concat (split_links pgs cur acc pb) = concat (rev acc) ++ rev cur ++ pgs.
Proof.
  revert cur acc pb. induction pgs as [|pg r IH]; intros cur acc pb; cbn [split_links].
  - destruct cur as [|c cs].
    + cbn. rewrite app_nil_r. reflexivity.
    + cbn [rev]. rewrite concat_app. cbn. rewrite !app_nil_r. reflexivity.
  - destruct (pg_bos pg && negb pb).
    + destruct cur as [|c cs]; rewrite IH; cbn [rev app concat].
      * reflexivity.
      * rewrite concat_app. cbn. rewrite app_nil_r, <- !app_assoc. reflexivity.
    + rewrite IH. cbn [rev]. rewrite <- !app_assoc. reflexivity.
Qed.

Lemma split_links_concat pgs : concat (split_links pgs [] [] false) = pgs.
Proof. rewrite split_links_gen. reflexivity. Qed.

Lemma mk_link_nonneg seg hdr fend next :
  0 <= li_len (mk_link seg hdr fend next) /\ 0 <= li_init (mk_link seg hdr fend next).
Proof.
  unfold mk_link. destruct hdr as [[serial b0] b1]. cbn [li_len li_init].
  split.
  - match goal with |- 0 <= (if ?c then _ else _) => destruct c eqn:E end; lia.
  - unfold initial_pcmoffset. match goal with |- 0 <= (if ?c then _ else _) => destruct c eqn:E end; lia.
Qed.

Lemma sum_len_fold ls : sum_len ls (length ls) = fold_right Z.add 0 (map li_len ls).
Proof. induction ls as [|l r IH]; cbn; [reflexivity|]. rewrite IH. reflexivity. Qed.

Lemma pcm_total_sum s : pcm_total s = fold_right Z.add 0 (map li_len (v_links s)).
Proof. unfold pcm_total. apply sum_len_fold. Qed.

Lemma mk_links_length segs hdrs fend :
  length (mk_links segs hdrs fend) = Nat.min (length segs) (length hdrs).
Proof.
  revert hdrs. induction segs as [|s r IH]; intros hdrs; destruct hdrs as [|h hr]; cbn; auto.
Qed.

(* ---- request lengths ---------------------------------------------------------------- *)

(* taking a then b pending samples is taking a+b *)
Lemma dec_read_add d a b :
  0 <= a -> 0 <= b -> a + b <= dec_pcmout d -> 0 < dec_pcmout d ->
  snd (dec_read (snd (dec_read d a)) b) = snd (dec_read d (a + b)).
Proof.
  intros Ha Hb Hab Hp. unfold dec_pcmout in *.
  destruct ((d_ret d >? -1) && (d_ret d <? d_cur d)) eqn:E; [|lia].
  unfold dec_read.
  destruct (negb (a =? 0) && (d_ret d + a >? d_cur d)) eqn:E1; [lia|]. cbn.
  destruct (negb (b =? 0) && (d_ret d + a + b >? d_cur d)) eqn:E2; [lia|].
  destruct (negb (a + b =? 0) && (d_ret d + (a + b) >? d_cur d)) eqn:E3; [lia|]. cbn.
  f_equal. lia.
Qed.

(* two consecutive reads that fit in what is pending equal one read of the sum:
   same counts, position, decoder state, queue and cursor *)
Lemma read_split f s a b :
  v_rs s = INITSET -> 0 <= v_hs s -> 0 < a -> 0 < b -> a + b <= dec_pcmout (v_dec s) ->
  exists s1 s2 s' lk1 lk2 lk,
    read_float (S f) s a = (a, lk1, s1) /\ read_float (S f) s1 b = (b, lk2, s2) /\
    read_float (S f) s (a + b) = (a + b, lk, s') /\
    v_pcm s2 = v_pcm s' /\ v_dec s2 = v_dec s' /\ v_q s2 = v_q s' /\ v_rem s2 = v_rem s' /\ v_link s2 = v_link s'.
Proof.
  intros Hrs Hhs Ha Hb Hab.
  destruct (read_consumes f s a Hrs ltac:(lia)) as (s1 & E1 & P1 & L1 & R1 & Q1 & D1 & H1 & S1).
  assert ((if dec_pcmout (v_dec s) >? a then a else dec_pcmout (v_dec s)) = a) as Ea
    by (destruct (dec_pcmout (v_dec s) >? a) eqn:C; lia).
  rewrite Ea in *.
  assert (dec_pcmout (v_dec s1) = dec_pcmout (v_dec s) - a) as Hav1 by (rewrite D1; apply dec_read_pcmout; lia).
  destruct (read_consumes f s1 b ltac:(congruence) ltac:(lia)) as (s2 & E2 & P2 & L2 & R2 & Q2 & D2 & H2 & S2).
  assert ((if dec_pcmout (v_dec s1) >? b then b else dec_pcmout (v_dec s1)) = b) as Eb
    by (destruct (dec_pcmout (v_dec s1) >? b) eqn:C; lia).
  rewrite Eb in *.
  destruct (read_consumes f s (a + b) Hrs ltac:(lia)) as (s' & E & P & L & R & Q & D & H & S0).
  assert ((if dec_pcmout (v_dec s) >? a + b then a + b else dec_pcmout (v_dec s)) = a + b) as Eab
    by (destruct (dec_pcmout (v_dec s) >? a + b) eqn:C; lia).
  rewrite Eab in *.
  exists s1, s2, s', (v_link s), (v_link s1), (v_link s).
  repeat split; try assumption; try congruence.
  - rewrite P2, P1, P, H1. rewrite !Z.shiftl_mul_pow2 by lia. lia.
  - rewrite D2, D1, D. apply dec_read_add; lia.
Qed.

(* ---- the tables built at open are never modified ------------------------------------ *)

Definition same_tables (s s' : vfs) : Prop := v_links s' = v_links s /\ v_pages s' = v_pages s.

Lemma st_refl s : same_tables s s. Proof. split; reflexivity. Qed.
Lemma st_trans a b c : same_tables a b -> same_tables b c -> same_tables a c.
Proof. intros [H1 H2] [H3 H4]. split; congruence. Qed.

Ltac st_set :=
  match goal with
  | |- same_tables ?a (set_q ?b _ _ _) => apply (st_trans a b); [|split; reflexivity]
  | |- same_tables ?a (set_rem ?b _) => apply (st_trans a b); [|split; reflexivity]
  | |- same_tables ?a (set_rs ?b _) => apply (st_trans a b); [|split; reflexivity]
  | |- same_tables ?a (set_pcm ?b _) => apply (st_trans a b); [|split; reflexivity]
  | |- same_tables ?a (set_dec ?b _) => apply (st_trans a b); [|split; reflexivity]
  | |- same_tables ?a (set_link ?b _ _) => apply (st_trans a b); [|split; reflexivity]
  | |- same_tables ?a (set_hs ?b _) => apply (st_trans a b); [|split; reflexivity]
  | |- same_tables ?a ?a => apply st_refl
  end.

Lemma st_os_reset s : same_tables s (os_reset s). Proof. unfold os_reset. repeat st_set. Qed.
Lemma st_os_pagein s pg : same_tables s (os_pagein s pg).
Proof.
  unfold os_pagein. destruct (negb (pg_serial pg =? v_serial s)); [apply st_refl|].
  destruct (v_fresh s && pg_cont pg); [destruct (pg_pkts pg)|]; repeat st_set.
Qed.
Lemma st_decode_clear s : same_tables s (decode_clear s). Proof. unfold decode_clear. repeat st_set. Qed.
Lemma st_make_ready s : same_tables s (make_ready s).
Proof. unfold make_ready. destruct (v_rs s =? STREAMSET); repeat st_set. Qed.
Lemma st_process_audio s p w : same_tables s (process_audio s p w).
Proof.
  unfold process_audio. destruct (dec_blockin _ _ _) as [rc d].
  destruct (negb (pk_gran p =? -1) && negb (pk_eos p)); repeat st_set.
Qed.

Ltac st_step :=
  match goal with
  | |- same_tables ?a (os_pagein ?b _) => apply (st_trans a b); [|apply st_os_pagein]
  | |- same_tables ?a (os_reset ?b) => apply (st_trans a b); [|apply st_os_reset]
  | |- same_tables ?a (decode_clear ?b) => apply (st_trans a b); [|apply st_decode_clear]
  | |- same_tables ?a (make_ready ?b) => apply (st_trans a b); [|apply st_make_ready]
  | |- same_tables ?a (process_audio ?b _ _) => apply (st_trans a b); [|apply st_process_audio]
  | |- same_tables ?a (set_q ?b _ _ _) => apply (st_trans a b); [|split; reflexivity]
  | |- same_tables ?a (set_rem ?b _) => apply (st_trans a b); [|split; reflexivity]
  | |- same_tables ?a (set_rs ?b _) => apply (st_trans a b); [|split; reflexivity]
  | |- same_tables ?a (set_pcm ?b _) => apply (st_trans a b); [|split; reflexivity]
  | |- same_tables ?a (set_dec ?b _) => apply (st_trans a b); [|split; reflexivity]
  | |- same_tables ?a (set_link ?b _ _) => apply (st_trans a b); [|split; reflexivity]
  | |- same_tables ?a (set_hs ?b _) => apply (st_trans a b); [|split; reflexivity]
  | |- same_tables ?a ?a => apply st_refl
  end.

Lemma st_fetch fuel : forall s, same_tables s (snd (fetch fuel s)).
Proof.
  induction fuel as [|f IH]; intros s; cbn [fetch]; [apply st_refl|].
  pose proof (st_make_ready s) as Hm. set (s0 := make_ready s) in *.
  apply (st_trans s s0); [exact Hm|]. clear Hm.
  destruct ((v_rs s0 =? INITSET) && match v_q s0 with [] => false | _ => true end).
  - destruct (v_q s0) as [|p q']; [apply st_refl|].
    destruct (pk_W p) as [w|]; cbn [snd].
    + repeat st_step.
    + eapply st_trans; [|apply IH]. repeat st_step.
  - destruct (v_rem s0) as [|pg rem']; [apply st_refl|].
    set (s1 := set_rem s0 rem').
    assert (same_tables s0 s1) as H1 by (split; reflexivity).
    apply (st_trans s0 s1); [exact H1|].
    destruct ((v_rs s1 =? INITSET) && negb (v_serial s1 =? pg_serial pg)).
    + destruct (pg_bos pg).
      * destruct (find_link (v_links (decode_clear s1)) (pg_serial pg) 0).
        -- eapply st_trans; [|apply IH]. repeat st_step.
        -- eapply st_trans; [|apply IH]. repeat st_step.
      * apply IH.
    + destruct (v_rs s1 <? STREAMSET).
      * destruct (find_link (v_links s1) (pg_serial pg) 0).
        -- eapply st_trans; [|apply IH]. repeat st_step.
        -- apply IH.
      * eapply st_trans; [|apply IH]. repeat st_step.
Qed.

Lemma st_read_float fuel : forall s len, same_tables s (snd (read_float fuel s len)).
Proof.
  induction fuel as [|f IH]; intros s len; cbn [read_float]; [apply st_refl|].
  destruct (negb ((if v_rs s =? INITSET then dec_pcmout (v_dec s) else 0) =? 0)).
  - destruct (dec_read _ _) as [rc d]. cbn [snd]. repeat st_step.
  - pose proof (st_fetch (fetch_fuel s) s) as Hf.
    destruct (fetch (fetch_fuel s) s) as [rc s1]. cbn [snd] in Hf.
    destruct (rc =? OV_EOF_); [exact Hf|]. destruct (rc <=? 0); [exact Hf|].
    eapply st_trans; [exact Hf|apply IH].
Qed.

Lemma st_raw_scan fuel : forall s r, same_tables s (raw_scan fuel s r).
Proof.
  induction fuel as [|f IH]; intros s r; cbn [raw_scan]; [repeat st_step|].
  set (take := if negb (r_last r =? 0) then set_pcm s (-1) else _).
  assert (same_tables s take) as Ht.
  { unfold take. destruct (negb (r_last r =? 0)); [repeat st_step|].
    destruct (v_rem s) as [|pg rem']; [repeat st_step|].
    set (s1 := set_rem s rem').
    set (s2 := if (v_rs s1 >=? STREAMSET) && negb (v_serial s1 =? pg_serial pg) && pg_bos pg then decode_clear s1 else s1).
    assert (same_tables s s2) as H2.
    { unfold s2. destruct (_ && _ && _); unfold s1; repeat st_step. }
    destruct (v_rs s2 <? STREAMSET).
    - destruct (find_link (v_links s2) (pg_serial pg) 0).
      + eapply st_trans; [|apply IH]. eapply st_trans; [exact H2|]. repeat st_step.
      + eapply st_trans; [exact H2|apply IH].
    - eapply st_trans; [|apply IH]. eapply st_trans; [exact H2|]. repeat st_step. }
  destruct (v_rs s >=? STREAMSET); [|exact Ht].
  destruct (r_wq r) as [|p wq']; [exact Ht|].
  destruct (pk_W p) as [w|].
  - destruct (r_lastflag r && negb (r_firstflag r)).
    + destruct (negb (pk_gran p =? -1)); [repeat st_step|].
      eapply st_trans; [|apply IH]. repeat st_step.
    + destruct (negb (pk_gran p =? -1)); [repeat st_step|apply IH].
  - destruct (negb (pk_gran p =? -1)); [repeat st_step|].
    eapply st_trans; [|apply IH]. repeat st_step.
Qed.

Lemma st_raw_seek s pos : same_tables s (snd (raw_seek s pos)).
Proof.
  unfold raw_seek. destruct (v_rs s <? OPENED); [apply st_refl|].
  destruct ((pos <? 0) || (pos >? file_end s)); [apply st_refl|]. cbn [snd].
  eapply st_trans; [|apply st_raw_scan].
  destruct ((v_rs s >=? STREAMSET) && _); repeat st_step.
Qed.

Lemma st_enter_link s link : same_tables s (enter_link s link).
Proof. unfold enter_link. destruct (negb (link =? v_link s) || (v_rs s <? STREAMSET)); repeat st_step. Qed.

Lemma st_pcm_seek_page s pos : same_tables s (snd (pcm_seek_page s pos)).
Proof.
  unfold pcm_seek_page. destruct (v_rs s <? OPENED); [apply st_refl|].
  destruct ((pos <? 0) || (pos >? pcm_total s)); [apply st_refl|].
  destruct (link_of_pos _ _ _ _) as [link total].
  destruct (best_page _ _ _ None) as [[|pg rem']|].
  - apply st_refl.
  - set (s1 := enter_link (set_pcm (set_rem s rem') (-1)) link).
    assert (same_tables s s1) as H1.
    { unfold s1. eapply st_trans; [|apply st_enter_link]. repeat st_step. }
    set (s2 := os_pagein (os_reset s1) pg).
    assert (same_tables s s2) as H2 by (unfold s2; eapply st_trans; [exact H1|]; repeat st_step).
    destruct (drop_to_gran (v_q s2) 0) as [[[q' n] g]|].
    + match goal with |- context [if ?c then _ else _] => destruct c end; cbn [snd];
        (eapply st_trans; [exact H2|]); repeat st_step.
    + destruct (rewind_page _ _); cbn [snd]; [|exact H2].
      eapply st_trans; [exact H2|apply st_raw_seek].
  - destruct (pages_from (v_pages s) _) as [|pg rem']; cbn [snd]; [repeat st_step|].
    destruct (pg_serial pg =? _); cbn [snd]; [|repeat st_step].
    set (s1 := enter_link (set_pcm s total) link).
    assert (same_tables s s1) as H1.
    { unfold s1. eapply st_trans; [|apply st_enter_link]. repeat st_step. }
    match goal with |- context [if ?c then _ else _] => destruct c end; cbn [snd];
      (eapply st_trans; [exact H1|]); repeat st_step.
Qed.

Lemma st_seek_discard fuel : forall s pos lb, same_tables s (seek_discard fuel s pos lb).
Proof.
  induction fuel as [|f IH]; intros s pos lb; cbn [seek_discard]; [repeat st_step|].
  destruct (v_q s) as [|p q'].
  - destruct (v_rem s) as [|pg rem']; [apply st_refl|].
    set (s1 := set_rem s rem').
    set (s2 := if pg_bos pg then decode_clear s1 else s1).
    assert (same_tables s s2) as H2 by (unfold s2, s1; destruct (pg_bos pg); repeat st_step).
    destruct (v_rs s2 <? STREAMSET).
    + destruct (find_link (v_links s2) (pg_serial pg) 0).
      * eapply st_trans; [|apply IH]. eapply st_trans; [exact H2|]. repeat st_step.
      * eapply st_trans; [exact H2|apply IH].
    + eapply st_trans; [|apply IH]. eapply st_trans; [exact H2|]. repeat st_step.
  - destruct (pk_W p) as [w|].
    + set (s1 := if negb (lb =? 0) then _ else s).
      assert (same_tables s s1) as H1 by (unfold s1; destruct (negb (lb =? 0)); repeat st_step).
      destruct (_ >=? pos); [exact H1|].
      destruct (dec_blockin _ _ _) as [rc d].
      eapply st_trans; [|apply IH].
      destruct (pk_gran p >? -1); (eapply st_trans; [exact H1|]); repeat st_step.
    + eapply st_trans; [|apply IH]. repeat st_step.
Qed.

Lemma st_seek_skip fuel : forall s pos, same_tables s (seek_skip fuel s pos).
Proof.
  induction fuel as [|f IH]; intros s pos; cbn [seek_skip]; [repeat st_step|].
  destruct (v_pcm s <? _); [|apply st_refl].
  destruct (_ <=? 0); [apply st_refl|].
  destruct (dec_read _ _) as [rc d].
  match goal with |- context [if ?c then _ else _] => destruct c end.
  - set (s1 := set_pcm (set_dec s d) _).
    assert (same_tables s s1) as H1 by (unfold s1; repeat st_step).
    pose proof (st_fetch (fetch_fuel s1) s1) as Hf.
    destruct (fetch (fetch_fuel s1) s1) as [rc2 s2]. cbn [snd] in Hf.
    destruct (rc2 <=? 0); (eapply st_trans; [|apply IH]); (eapply st_trans; [exact H1|]); [|exact Hf].
    eapply st_trans; [exact Hf|]. repeat st_step.
  - eapply st_trans; [|apply IH]. repeat st_step.
Qed.

Lemma st_pcm_seek s pos : same_tables s (snd (pcm_seek s pos)).
Proof.
  unfold pcm_seek. pose proof (st_pcm_seek_page s pos) as H.
  destruct (pcm_seek_page s pos) as [rc s1]. cbn [snd] in H.
  destruct (rc <? 0); [exact H|]. cbn [snd].
  eapply st_trans; [|apply st_seek_skip]. eapply st_trans; [|apply st_seek_discard].
  eapply st_trans; [exact H|apply st_make_ready].
Qed.

Lemma st_halfrate s flag : same_tables s (snd (halfrate s flag)).
Proof.
  unfold halfrate. destruct (flag && _); [apply st_refl|].
  destruct (v_rs _ >? STREAMSET); cbn [snd]; [|repeat st_step].
  destruct (v_pcm _ >=? 0); cbn [snd]; [|repeat st_step].
  eapply st_trans; [|apply st_pcm_seek]. repeat st_step.
Qed.

Lemma halfrate_total s flag : pcm_total (snd (halfrate s flag)) = pcm_total s.
Proof. unfold pcm_total. destruct (st_halfrate s flag) as [-> _]. reflexivity. Qed.

(* ---- termination of the packet/page loops for ARBITRARY page tables ------------------- *)

Definition measure (s : vfs) : nat := (length (v_rem s) + pkt_count (v_rem s) + length (v_q s))%nat.

Lemma measure_make_ready s : measure (make_ready s) = measure s.
Proof. unfold make_ready. destruct (v_rs s =? STREAMSET); reflexivity. Qed.

Lemma os_pagein_q s pg : (length (v_q (os_pagein s pg)) <= length (v_q s) + length (pg_pkts pg))%nat.
Proof.
  unfold os_pagein. destruct (negb (pg_serial pg =? v_serial s)); [lia|].
  destruct (v_fresh s && pg_cont pg).
  - destruct (pg_pkts pg) as [|p r]; cbn; [lia|]. rewrite app_length. lia.
  - cbn. rewrite app_length. lia.
Qed.
Lemma os_pagein_rem s pg : v_rem (os_pagein s pg) = v_rem s.
Proof.
  unfold os_pagein. destruct (negb (pg_serial pg =? v_serial s)); [reflexivity|].
  destruct (v_fresh s && pg_cont pg); [destruct (pg_pkts pg)|]; reflexivity.
Qed.

(* _fetch_and_process_packet's loop always ends: every iteration consumes a
   queued packet or a page; the fuel the model is given is enough for any state *)
Lemma fetch_total fuel : forall s, (measure s < fuel)%nat -> fst (fetch fuel s) <> OUT_OF_FUEL.
Proof.
  induction fuel as [|f IH]; intros s Hm; [lia|]. cbn [fetch].
  rewrite <- (measure_make_ready s) in Hm. set (s0 := make_ready s) in *. clearbody s0.
  destruct ((v_rs s0 =? INITSET) && match v_q s0 with [] => false | _ => true end) eqn:E.
  - destruct (v_q s0) as [|p q'] eqn:Eq; [rewrite andb_false_r in E; discriminate|].
    destruct (pk_W p); cbn [fst]; [unfold OUT_OF_FUEL; lia|].
    apply IH. unfold measure in *. cbn. rewrite Eq in Hm. cbn in Hm. lia.
  - destruct (v_rem s0) as [|pg rem'] eqn:Er; [cbn; unfold OV_EOF_, OUT_OF_FUEL; lia|].
    assert (forall s1, v_rem s1 = rem' -> (length (v_q s1) <= length (v_q s0) + length (pg_pkts pg))%nat ->
                       (measure s1 < f)%nat) as Hstep.
    { intros s1 H1 H2. unfold measure in *. rewrite H1. rewrite Er in Hm. cbn [length pkt_count] in Hm. lia. }
    destruct ((v_rs (set_rem s0 rem') =? INITSET) && negb (v_serial (set_rem s0 rem') =? pg_serial pg)).
    + destruct (pg_bos pg).
      * destruct (find_link _ _ 0).
        -- apply IH, Hstep; [rewrite os_pagein_rem; reflexivity|].
           etransitivity; [apply os_pagein_q|]. cbn. lia.
        -- apply IH, Hstep; [reflexivity|cbn; lia].
      * apply IH, Hstep; [reflexivity|cbn; lia].
    + destruct (v_rs (set_rem s0 rem') <? STREAMSET).
      * destruct (find_link _ _ 0).
        -- apply IH, Hstep; [rewrite os_pagein_rem; reflexivity|].
           etransitivity; [apply os_pagein_q|]. cbn. lia.
        -- apply IH, Hstep; [reflexivity|cbn; lia].
      * apply IH, Hstep; [rewrite os_pagein_rem; reflexivity|].
        etransitivity; [apply os_pagein_q|]. cbn. lia.
Qed.

Lemma fetch_fuel_enough s : fst (fetch (fetch_fuel s) s) <> OUT_OF_FUEL.
Proof. apply fetch_total. unfold fetch_fuel, measure. lia. Qed.

Definition packets (s : vfs) : nat := (pkt_count (v_rem s) + length (v_q s))%nat.

Lemma packets_make_ready s : packets (make_ready s) = packets s.
Proof. unfold make_ready. destruct (v_rs s =? STREAMSET); reflexivity. Qed.

Lemma process_audio_packets s p w : packets (process_audio s p w) = packets s.
Proof.
  unfold process_audio. destruct (dec_blockin _ _ _) as [rc d].
  destruct (negb (pk_gran p =? -1) && negb (pk_eos p)); reflexivity.
Qed.

(* a fetch never creates packets, and a successful one consumed at least one *)
Lemma fetch_packets fuel : forall s,
  (packets (snd (fetch fuel s)) <= packets s)%nat /\
  (fst (fetch fuel s) = 1 -> (packets (snd (fetch fuel s)) < packets s)%nat).
Proof.
  induction fuel as [|f IH]; intros s; cbn [fetch]; [cbn; split; [lia|unfold OUT_OF_FUEL; lia]|].
  rewrite <- (packets_make_ready s). set (s0 := make_ready s). clearbody s0.
  destruct ((v_rs s0 =? INITSET) && match v_q s0 with [] => false | _ => true end) eqn:E.
  - destruct (v_q s0) as [|p q'] eqn:Eq; [rewrite andb_false_r in E; discriminate|].
    destruct (pk_W p) as [w|]; cbn [fst snd].
    + unfold packets at 1 3. cbn [v_rem v_q set_q].
      pose proof (process_audio_packets (set_q s0 q' (v_fresh s0) (v_pno s0)) p w) as Hp.
      unfold packets in Hp. cbn [v_rem v_q set_q] in Hp.
      assert (v_rem (process_audio (set_q s0 q' (v_fresh s0) (v_pno s0)) p w) = v_rem s0 /\
              v_q (process_audio (set_q s0 q' (v_fresh s0) (v_pno s0)) p w) = q') as [Hr Hq].
      { unfold process_audio. destruct (dec_blockin _ _ _) as [rc d].
        destruct (negb (pk_gran p =? -1) && negb (pk_eos p)); split; reflexivity. }
      rewrite Hr, Hq. unfold packets. rewrite Eq. cbn [length]. split; lia.
    + destruct (IH (set_q s0 q' (v_fresh s0) (v_pno s0 + 1))) as [H1 H2].
      assert (packets (set_q s0 q' (v_fresh s0) (v_pno s0 + 1)) < packets s0)%nat as Hd
        by (unfold packets; cbn; rewrite Eq; cbn; lia).
      split; [lia|intros H; specialize (H2 H); lia].
  - destruct (v_rem s0) as [|pg rem'] eqn:Er; [cbn; split; [lia|unfold OV_EOF_; lia]|].
    assert (forall s1, v_rem s1 = rem' -> (length (v_q s1) <= length (v_q s0) + length (pg_pkts pg))%nat ->
                       (packets s1 <= packets s0)%nat) as Hstep.
    { intros s1 H1 H2. unfold packets. rewrite H1, Er. cbn [pkt_count]. lia. }
    assert (forall s1, (packets s1 <= packets s0)%nat ->
              (packets (snd (fetch f s1)) <= packets s0)%nat /\
              (fst (fetch f s1) = 1 -> (packets (snd (fetch f s1)) < packets s0)%nat)) as Hrec.
    { intros s1 Hle. destruct (IH s1) as [H1 H2]. split; [lia|intros H; specialize (H2 H); lia]. }
    destruct ((v_rs (set_rem s0 rem') =? INITSET) && negb (v_serial (set_rem s0 rem') =? pg_serial pg)).
    + destruct (pg_bos pg).
      * destruct (find_link _ _ 0).
        -- apply Hrec, Hstep; [rewrite os_pagein_rem; reflexivity|].
           etransitivity; [apply os_pagein_q|]. cbn. lia.
        -- apply Hrec, Hstep; [reflexivity|cbn; lia].
      * apply Hrec, Hstep; [reflexivity|cbn; lia].
    + destruct (v_rs (set_rem s0 rem') <? STREAMSET).
      * destruct (find_link _ _ 0).
        -- apply Hrec, Hstep; [rewrite os_pagein_rem; reflexivity|].
           etransitivity; [apply os_pagein_q|]. cbn. lia.
        -- apply Hrec, Hstep; [reflexivity|cbn; lia].
      * apply Hrec, Hstep; [rewrite os_pagein_rem; reflexivity|].
        etransitivity; [apply os_pagein_q|]. cbn. lia.
Qed.

Lemma fetch_rc fuel : forall s,
  fst (fetch fuel s) = 1 \/ fst (fetch fuel s) = OV_EOF_ \/ fst (fetch fuel s) = OUT_OF_FUEL.
Proof.
  induction fuel as [|f IH]; intros s; cbn [fetch]; [right; right; reflexivity|].
  set (s0 := make_ready s). clearbody s0.
  destruct ((v_rs s0 =? INITSET) && match v_q s0 with [] => false | _ => true end).
  - destruct (v_q s0) as [|p q']; [right; right; reflexivity|].
    destruct (pk_W p); [left; reflexivity|apply IH].
  - destruct (v_rem s0) as [|pg rem']; [right; left; reflexivity|].
    destruct (_ && _).
    + destruct (pg_bos pg); [destruct (find_link _ _ 0)|]; apply IH.
    + destruct (_ <? _); [destruct (find_link _ _ 0)|]; apply IH.
Qed.

(* ov_read_float's loop always ends, for any page table and any state *)
Lemma read_float_total fuel : forall s len,
  0 <= len -> (packets s + 1 < fuel)%nat -> fst (fst (read_float fuel s len)) <> OUT_OF_FUEL.
Proof.
  induction fuel as [|f IH]; intros s len Hlen Hm; [lia|]. cbn [read_float].
  destruct (negb ((if v_rs s =? INITSET then dec_pcmout (v_dec s) else 0) =? 0)) eqn:E.
  - destruct (dec_read _ _) as [rc d]. cbn [fst].
    destruct (v_rs s =? INITSET) eqn:Ers; [|cbn in E; discriminate].
    assert (0 <= dec_pcmout (v_dec s)) as Hp.
    { unfold dec_pcmout. destruct ((d_ret (v_dec s) >? -1) && (d_ret (v_dec s) <? d_cur (v_dec s))) eqn:E2; lia. }
    unfold OUT_OF_FUEL. destruct (dec_pcmout (v_dec s) >? len); lia.
  - pose proof (fetch_packets (fetch_fuel s) s) as [H1 H2].
    pose proof (fetch_fuel_enough s) as Hf.
    pose proof (fetch_rc (fetch_fuel s) s) as Hrc.
    destruct (fetch (fetch_fuel s) s) as [rc s1]. cbn [fst snd] in *.
    destruct (rc =? OV_EOF_) eqn:Ee; [cbn; unfold OUT_OF_FUEL; lia|].
    destruct (rc <=? 0) eqn:Ele; [cbn; exact Hf|].
    apply IH; [exact Hlen|].
    destruct Hrc as [-> | [-> | ->]]; [specialize (H2 eq_refl); lia| unfold OV_EOF_ in *; lia | unfold OUT_OF_FUEL in *; lia].
Qed.

Lemma read_fuel_enough s len : 0 <= len -> fst (fst (read_float (read_fuel s) s len)) <> OUT_OF_FUEL.
Proof. intros H. apply read_float_total; [exact H|]. unfold read_fuel, packets. lia. Qed.
