(* C10  Decoded audio does not depend on how the bytes are delivered.
   What the model can carry: VFile.v is a function of the page table only, so
   nothing in it depends on the sizes the read callback returns (that libogg's
   incremental sync yields the same page table is outside the repository and
   is what the tie exercises with 1-byte..65535-byte deliveries).  Proved: the
   maximum lengths the application passes do not matter - two reads that fit in
   what is pending equal one read of the sum (counts, position, decoder state,
   queue, cursor), and the pending audio shrinks by exactly what was taken; and
   for WHOLE HISTORIES, across packet, page and link boundaries, any page table:
   two sequences of successful reads with arbitrary requested lengths that
   delivered the same number of samples leave the handle in the SAME state
   (Read_lemmas.v: a read = priming independent of the length + handing out
   min(pending, length); canonical consumption is additive). *)
From VV Require Import Blocking VFile VFile_lemmas Term_lemmas Read_lemmas VFileDemo.
From Coq Require Import ZArith List.
Import ListNotations.
Local Open Scope Z_scope.

Theorem C10_request_lengths_do_not_matter :
  forall f s a b,
    v_rs s = INITSET -> 0 <= v_hs s -> 0 < a -> 0 < b -> a + b <= dec_pcmout (v_dec s) ->
    exists s1 s2 s' lk1 lk2 lk,
      read_float (S f) s a = (a, lk1, s1) /\ read_float (S f) s1 b = (b, lk2, s2) /\
      read_float (S f) s (a + b) = (a + b, lk, s') /\
      v_pcm s2 = v_pcm s' /\ v_dec s2 = v_dec s' /\ v_q s2 = v_q s' /\ v_rem s2 = v_rem s' /\ v_link s2 = v_link s'.
Proof. exact read_split. Qed.
Print Assumptions C10_request_lengths_do_not_matter.

Theorem C10_reads_compose :
  forall d a b, 0 <= a -> 0 <= b -> a + b <= dec_pcmout d -> 0 < dec_pcmout d ->
    snd (dec_read (snd (dec_read d a)) b) = snd (dec_read d (a + b)).
Proof. exact dec_read_add. Qed.
Print Assumptions C10_reads_compose.

(* non-vacuity: on the demo file, 1 + 31 samples = 32 samples *)
(* whole histories, any page table, any handle state, full or half rate *)
Theorem C10_read_histories_depend_on_total_only :
  forall s reqs1 reqs2 t s1 s2,
    0 <= v_hs s -> reads s reqs1 = Some (t, s1) -> reads s reqs2 = Some (t, s2) -> s1 = s2.
Proof. exact request_lengths_do_not_matter. Qed.
Print Assumptions C10_read_histories_depend_on_total_only.

(* a read is: fetch until something is pending (whatever was asked for), then hand out min(pending, asked) *)
Theorem C10_read_is_prime_then_hand :
  forall fuel s len,
    read_float fuel s len = match prime fuel s with
                            | PReady sp => hand sp len
                            | PDone rc s1 => (rc, -1, s1)
                            | PFuel s' => (OUT_OF_FUEL, -1, s')
                            end.
Proof. exact read_prime. Qed.
Print Assumptions C10_read_is_prime_then_hand.

(* non-vacuity: the demo file read in 27 requests of 16 samples and in 4 requests of 1000: 428 samples either
   way (300 + 128, across the link boundary), same final state *)
Example C10_demo_histories :
  exists s1 s2, reads demo (repeat 16 27) = Some (428, s1) /\ reads demo (repeat 1000 4) = Some (428, s2) /\ s1 = s2.
Proof.
  destruct (reads demo (repeat 16 27)) as [[t1 s1]|] eqn:E1; [|vm_compute in E1; discriminate].
  destruct (reads demo (repeat 1000 4)) as [[t2 s2]|] eqn:E2; [|vm_compute in E2; discriminate].
  assert (t1 = 428) as -> by (apply (f_equal (fun o => match o with Some (t, _) => t | None => 0 end)) in E1; vm_compute in E1; congruence).
  assert (t2 = 428) as -> by (apply (f_equal (fun o => match o with Some (t, _) => t | None => 0 end)) in E2; vm_compute in E2; congruence).
  exists s1, s2. split; [reflexivity|]. split; [reflexivity|].
  eapply request_lengths_do_not_matter; [|exact E1|exact E2]. vm_compute. discriminate.
Qed.

Example C10_demo :
  let '(_, _, s0) := read_float (read_fuel demo) demo 1 in
  v_rs s0 = INITSET /\ dec_pcmout (v_dec s0) = 31 /\
  (let '(n, _, s1) := read_float 5 s0 10 in let '(m, _, s2) := read_float 5 s1 21 in
   let '(k, _, s') := read_float 5 s0 31 in n + m = k /\ v_pcm s2 = v_pcm s' /\ v_pcm s' = 32).
Proof. vm_compute. repeat split; reflexivity. Qed.
