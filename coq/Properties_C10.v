(* C10  Decoded audio does not depend on how the bytes are delivered.
   What the model can carry: VFile.v is a function of the page table only, so
   nothing in it depends on the sizes the read callback returns (that libogg's
   incremental sync yields the same page table is outside the repository and
   is what the tie exercises with 1-byte..65535-byte deliveries).  Proved: the
   maximum lengths the application passes do not matter - two reads that fit in
   what is pending equal one read of the sum (counts, position, decoder state,
   queue, cursor), and the pending audio shrinks by exactly what was taken. *)
From VV Require Import Blocking VFile VFile_lemmas VFileDemo.
Local Open Scope Z_scope.

Theorem C10_request_lengths_do_not_matter :
  forall f s a b,
    v_rs s = INITSET -> 0 <= v_hs s -> 0 < a -> 0 < b -> a + b <= dec_pcmout (v_dec s) ->
    exists s1 s2 s' lk1 lk2 lk,
      read_float (S f) s a = (a, lk1, s1) /\ read_float (S f) s1 b = (b, lk2, s2) /\
      read_float (S f) s (a + b) = (a + b, lk, s') /\
      v_pcm s2 = v_pcm s' /\ v_dec s2 = v_dec s' /\ v_q s2 = v_q s' /\ v_rem s2 = v_rem s' /\ v_link s2 = v_link s'.
Proof. exact read_split. Qed.
Print Assumptions C10_request_lengths_do_not_matter.

Theorem C10_reads_compose :
  forall d a b, 0 <= a -> 0 <= b -> a + b <= dec_pcmout d -> 0 < dec_pcmout d ->
    snd (dec_read (snd (dec_read d a)) b) = snd (dec_read d (a + b)).
Proof. exact dec_read_add. Qed.
Print Assumptions C10_reads_compose.

(* non-vacuity: on the demo file, 1 + 31 samples = 32 samples *)
Example C10_demo :
  let '(_, _, s0) := read_float (read_fuel demo) demo 1 in
  v_rs s0 = INITSET /\ dec_pcmout (v_dec s0) = 31 /\
  (let '(n, _, s1) := read_float 5 s0 10 in let '(m, _, s2) := read_float 5 s1 21 in
   let '(k, _, s') := read_float 5 s0 31 in n + m = k /\ v_pcm s2 = v_pcm s' /\ v_pcm s' = 32).
Proof. vm_compute. repeat split; reflexivity. Qed.
