(* C18  Independent codec instances do not interfere; results are reproducible.
   What a theorem can say: every model of this development is a pure function
   of the instance's own state, so for instances with disjoint state ANY
   interleaving of their operations gives each instance exactly the state and
   outputs of running its own operations alone.  Proved generically
   (Interleave.v) and instantiated with a machine whose instances are the
   encoder, decoder, vorbisfile and bitrate models of this development.
   What no model can exhibit - data races, hidden static storage, reads of
   uninitialised memory, the FPU rounding mode - is decided on the
   implementation (harness/c18.c), not proved. *)
From VV Require Import Interleave Interleave_lemmas Blocking VFile Bitrate.
Local Open Scope Z_scope.

Inductive inst :=
| IEnc (c : cfg) (s : enc)
| IDec (c : cfg) (s : dec)
| IFile (s : vfs)
| IRate (p : bparams) (r : Z).
Inductive iop :=
| PBuffer (n : Z) | PWrote (n : Z) | PBlockout (bp : Z)          (* encoder *)
| PBlockin (b : dblock) | PRead (n : Z) | PLapout | PRestart     (* decoder *)
| PRawSeek (pos : Z) | PPcmSeek (pos : Z) | PPcmSeekPage (pos : Z) | PHalfrate (f : bool)   (* vorbisfile *)
| PAddblock (sizes : list Z) (w : bool) (c0 : Z).                (* bitrate manager *)
Inductive iout := ONone | OCode (rc : Z) | OBlock (b : option eblock) | OChoice (c this : Z).

Definition istep (i : inst) (o : iop) : inst * iout :=
  match i, o with
  | IEnc c s, PBuffer n => (IEnc c (enc_buffer s n), ONone)
  | IEnc c s, PWrote n => let '(rc, s') := enc_wrote c s n in (IEnc c s', OCode rc)
  | IEnc c s, PBlockout bp => let '(s', b) := enc_blockout c s bp in (IEnc c s', OBlock b)
  | IDec c s, PBlockin b => let '(rc, s') := dec_blockin c s b in (IDec c s', OCode rc)
  | IDec c s, PRead n => let '(rc, s') := dec_read s n in (IDec c s', OCode rc)
  | IDec c s, PLapout => let '(rc, s') := dec_lapout c s in (IDec c s', OCode rc)
  | IDec c s, PRestart => (IDec c (dec_restart c s), ONone)
  | IFile s, PRawSeek pos => let '(rc, s') := raw_seek s pos in (IFile s', OCode rc)
  | IFile s, PPcmSeek pos => let '(rc, s') := pcm_seek s pos in (IFile s', OCode rc)
  | IFile s, PPcmSeekPage pos => let '(rc, s') := pcm_seek_page s pos in (IFile s', OCode rc)
  | IFile s, PHalfrate f => let '(rc, s') := halfrate s f in (IFile s', OCode rc)
  | IRate p r, PAddblock sizes w c0 => let '(c, this, r') := addblock p r sizes w c0 in (IRate p r', OChoice c this)
  | _, _ => (i, OCode (-131))           (* an operation of another kind of object: refused *)
  end.

(* for ALL worlds of instances, ALL schedules and every instance of the world *)
Theorem C18_interleaving_invisible :
  forall (sched : list (nat * iop)) (w : list inst) (i : nat) (s : inst),
    nth_error w i = Some s ->
    let '(w', outs) := Interleave.run inst iop iout istep w sched in
    let '(s', souts) := Interleave.solo inst iop iout istep s (ops_of iop i sched) in
    nth_error w' i = Some s' /\ outs_of iout i outs = souts.
Proof. exact (interleave_commutes inst iop iout istep). Qed.
Print Assumptions C18_interleaving_invisible.

Theorem C18_schedule_independent :
  forall sched1 sched2 (w : list inst) i s,
    nth_error w i = Some s -> ops_of iop i sched1 = ops_of iop i sched2 ->
    nth_error (fst (Interleave.run inst iop iout istep w sched1)) i = nth_error (fst (Interleave.run inst iop iout istep w sched2)) i /\
    outs_of iout i (snd (Interleave.run inst iop iout istep w sched1)) = outs_of iout i (snd (Interleave.run inst iop iout istep w sched2)).
Proof. exact (schedule_independent inst iop iout istep). Qed.
Print Assumptions C18_schedule_independent.

(* non-vacuity: an encoder and a bitrate manager interleaved *)
Example C18_nonvacuous :
  let w := [IEnc {| bs0 := 256; bs1 := 2048; hs := 0 |} (enc_init {| bs0 := 256; bs1 := 2048; hs := 0 |});
            IRate {| p_min := 93; p_max := 186; p_spl := 8; p_res := 4000; p_fill := 2000 |} 2000] in
  let sched := [(0%nat, PBuffer 1024); (1%nat, PAddblock (repeat 30 15) false 7); (0%nat, PWrote 1024); (0%nat, PBlockout 0)] in
  ops_of iop 0%nat sched = [PBuffer 1024; PWrote 1024; PBlockout 0] /\ length (snd (Interleave.run inst iop iout istep w sched)) = 4%nat.
Proof. vm_compute. split; reflexivity. Qed.
