(* C01  Decoder output conforms to the Vorbis I specification.
   The specification-level decoder is Setup.v + Codebook.v + PacketDec.v
   (written from the specification text and the reference code) + Blocking.v /
   Overlap.v for windows, overlap and counts.  What is PROVED here, for all
   inputs: the sample count per packet; that walking the Huffman tree reads
   back exactly the codeword table (any prefix-free table), and that the
   codeword assignment of the reference code (_make_words, marker array as in
   lib/sharedbook.c) IS prefix-free whenever it accepts lengths below 32 - so
   every accepted such book decodes by tree walk with no hypothesis; the index
   arithmetic of the three residue formats; floor-1 curve shape facts.  What is
   NOT proved: numerical values (inverse MDCT, window, floor-0 curve, dB table)
   - they are compared per run (exactly before the inverse MDCT, with a
   tolerance after it); see MANIFEST level note. *)
From VV Require Import SrcFacts Bits Pcm Fl Setup Codebook PacketDec Blocking Decoder_lemmas MakeWords_lemmas Floor1_lemmas.
From Coq Require Import ZArith List Bool.
Import ListNotations.
Local Open Scope Z_scope.

(* spec 4.3.8: a packet returns the samples between the centre of the previous
   window and the centre of its own: bs[prev]/4 + bs[this]/4 (halved in
   half-rate mode), for every pair of block sizes and every decoder state in
   which the previous output has been read *)
Theorem C01_samples_per_packet :
  forall c s b, 0 <= bs1 c -> 0 <= hs c -> k_pcm b = true -> k_gran b = -1 -> d_ret s = d_cur s -> 0 <= d_ret s ->
    exists s', dec_blockin c s b = (0, s') /\
               dec_pcmout s' = (let n := Z.shiftr (bsz c (d_W s) / 4 + bsz c (k_W b) / 4) (hs c) in if 0 <? n then n else 0).
Proof. exact samples_per_packet. Qed.
Print Assumptions C01_samples_per_packet.

(* the tree walk of book_decode reads back exactly the codeword table: for
   every prefix-free assignment of codewords (any lengths 1..32, ordered,
   sparse or not) and whatever follows in the packet *)
Theorem C01_tree_walk_is_table_lookup :
  forall ws, prefix_free ws -> forall w rest, In w ws ->
    hwalk (build_tree ws) (word_of w ++ rest) = Some (entry_of w, rest).
Proof. exact build_tree_decodes. Qed.
Print Assumptions C01_tree_walk_is_table_lookup.

(* the reference code's codeword assignment: whatever codeword lengths (1..31, 0 = unused entry, any
   order, sparse or not) _make_words accepts, the codewords it hands out are pairwise prefix-unrelated *)
Theorem C01_make_words_prefix_free :
  forall lens ws, (forall l, In l lens -> l <= 31) -> make_words lens = Some ws -> prefix_free ws.
Proof. exact make_words_prefix_free. Qed.
Print Assumptions C01_make_words_prefix_free.

(* hence: every entry of every accepted book is read back by the tree walk, with no side condition *)
Theorem C01_accepted_book_decodes_by_tree_walk :
  forall lens ws, (forall l, In l lens -> l <= 31) -> make_words lens = Some ws ->
    forall w rest, In w ws -> hwalk (build_tree ws) (word_of w ++ rest) = Some (entry_of w, rest).
Proof. intros lens ws Hle Hmw. apply build_tree_decodes. exact (make_words_prefix_free lens ws Hle Hmw). Qed.
Print Assumptions C01_accepted_book_decodes_by_tree_walk.

(* non-vacuity: a sparse, unordered set of lengths that fills the tree exactly is accepted *)
Example C01_make_words_accepts :
  exists ws, make_words [3; 1; 0; 3; 2] = Some ws /\ length ws = 4%nat.
Proof. eexists. split; [vm_compute; reflexivity|reflexivity]. Qed.

(* a look-up never invents bits: what remains is a suffix of what was there, and
   a look-up through an inner node consumes at least one bit *)
Theorem C01_decode_consumes :
  (forall bs t e r, hwalk t bs = Some (e, r) -> exists p, bs = p ++ r) /\
  (forall bs z o e r, hwalk (HNode z o) bs = Some (e, r) -> (length r < length bs)%nat).
Proof. split; [exact hwalk_suffix|exact hwalk_progress]. Qed.
Print Assumptions C01_decode_consumes.

(* residue formats 0/1/2: every partition the decode loop addresses lies inside the half-block *)
Theorem C01_residue_partitions_in_range :
  (forall begin end_ grouping halfn i, 0 <= begin -> 0 < grouping -> 0 <= halfn ->
     let lim := if end_ <? halfn then end_ else halfn in
     0 < lim - begin -> 0 <= i < Z.quot (lim - begin) grouping ->
     0 <= begin + i * grouping /\ begin + i * grouping + grouping <= halfn) /\
  (forall begin end_ grouping halfn ch i, 0 <= begin -> 0 < grouping -> 0 <= halfn -> 0 < ch ->
     let lim := if end_ <? halfn * ch then end_ else halfn * ch in
     0 < lim - begin -> 0 <= i < Z.quot (lim - begin) grouping ->
     0 <= Z.quot (i * grouping + begin) ch /\ Z.quot (i * grouping + begin + grouping) ch <= halfn).
Proof. split; [exact res01_partition_in_bounds|exact res2_partition_in_bounds]. Qed.
Print Assumptions C01_residue_partitions_in_range.

(* the floor-1 curve covers exactly the n spectral lines *)
Theorem C01_floor1_curve_covers :
  forall n mult rangebits posts fit, 0 <= n -> length (floor1_curve n mult rangebits posts fit) = Z.to_nat n.
Proof. exact floor1_curve_length. Qed.
Print Assumptions C01_floor1_curve_covers.

(* floor 1: the integer line algorithm of the reference code (Bresenham with
   error accumulation) yields, at EVERY x of a segment, exactly the value the
   specification defines point-wise (render_point): y0 +- |dy|*(x-x0)/adx *)
Theorem C01_render_line_is_interpolation :
  forall n x0 x1 y0 y1 x, x0 < x1 -> 0 <= y0 < 32768 -> 0 <= y1 < 32768 ->
    x0 <= x < (if n >? x1 then x1 else n) ->
    nth (Z.to_nat (x - x0)) (render_line n x0 x1 y0 y1) 0 = render_point x0 x1 y0 y1 x.
Proof. exact render_line_eq_point. Qed.
Print Assumptions C01_render_line_is_interpolation.

(* non-vacuity: a 3-entry book (lengths 1,2,2), the bits 1,0 decode to entry 1 *)
Example C01_nonvacuous :
  match make_words [1; 2; 2] with
  | Some ws => hwalk (build_tree ws) [true; false; true] = Some (1, [true])
  | None => False
  end.
Proof. vm_compute. reflexivity. Qed.
