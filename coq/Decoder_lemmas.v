(* Lemmas about the decoder models (Setup.v, Codebook.v, PacketDec.v, Blocking.v). *)
From VV Require Import SrcFacts Bits Pcm Fl Setup Codebook PacketDec Blocking.
From Coq Require Import ZArith List Bool Lia ZifyBool.
Import ListNotations.
Local Open Scope Z_scope.
Ltac Zify.zify_post_hook ::= Z.div_mod_to_equations.

(* ------------------------------------------------------------------ *)
(* Huffman tree walk                                                   *)
(* ------------------------------------------------------------------ *)
Lemma hwalk_suffix : forall bs t e r, hwalk t bs = Some (e, r) -> exists p, bs = p ++ r.
Proof.
  induction bs as [|b bs IH]; intros t e r H; destruct t as [|e0|z o]; cbn in H; try discriminate.
  - inversion H; subst. exists []. reflexivity.
  - inversion H; subst. exists []. reflexivity.
  - apply IH in H. destruct H as [p Hp]. exists (b :: p). cbn. f_equal. exact Hp.
Qed.

(* every successful look-up through an inner node consumes at least one bit:
   the measure that bounds every decode loop by the packet length *)
Lemma hwalk_progress : forall bs z o e r, hwalk (HNode z o) bs = Some (e, r) -> (length r < length bs)%nat.
Proof.
  intros bs z o e r H. destruct bs as [|b bs]; cbn in H; [discriminate|].
  apply hwalk_suffix in H. destruct H as [p Hp]. rewrite Hp. cbn. rewrite app_length. lia.
Qed.

Lemma book_decode_no_growth d bs e r : book_decode d bs = (Some e, r) -> (length r <= length bs)%nat.
Proof.
  unfold book_decode. destruct (d_used d =? 0); [discriminate|].
  destruct (d_single d).
  - destruct bs as [|b bs]; intros H; inversion H; subst. cbn. lia.
  - destruct (hwalk (d_tree d) bs) as [[e' r']|] eqn:E; intros H; inversion H; subst.
    apply hwalk_suffix in E. destruct E as [p Hp]. rewrite Hp, app_length. lia.
Qed.

Lemma hwalk_leaf e bs : hwalk (HLeaf e) bs = Some (e, bs).
Proof. destruct bs; reflexivity. Qed.
Lemma hwalk_empty bs : hwalk HEmpty bs = None.
Proof. destruct bs; reflexivity. Qed.

(* prefix relation on codewords *)
Fixpoint is_prefix (a b : list bool) : bool :=
  match a, b with
  | [], _ => true
  | x :: a', y :: b' => Bool.eqb x y && is_prefix a' b'
  | _ :: _, [] => false
  end.
Definition unrelated (a b : list bool) : Prop := is_prefix a b = false /\ is_prefix b a = false.

(* [decodes t w e]: walking t along w (followed by anything) ends in leaf e having consumed exactly w *)
Definition decodes (t : htree) (w : list bool) (e : Z) : Prop := forall rest, hwalk t (w ++ rest) = Some (e, rest).

Definition child (t : htree) (b : bool) : htree :=
  match t with HNode z o => if b then o else z | _ => HEmpty end.

Lemma hwalk_node_step t b l : (forall e, t <> HLeaf e) -> hwalk t (b :: l) = hwalk (child t b) l.
Proof. intros H. destruct t as [|e0|z o]; cbn; [rewrite hwalk_empty; reflexivity|exfalso; apply (H e0); reflexivity|reflexivity]. Qed.

Lemma hinsert_step t b r e l : hwalk (hinsert t (b :: r) e) (b :: l) = hwalk (hinsert (child t b) r e) l.
Proof. destruct t as [|e0|z o], b; reflexivity. Qed.
Lemma hinsert_other t b r e l : hwalk (hinsert t (b :: r) e) (negb b :: l) = hwalk (child t (negb b)) l.
Proof. destruct t as [|e0|z o], b; cbn; try rewrite hwalk_empty; reflexivity. Qed.

Lemma decodes_leaf_nil e0 v e' : decodes (HLeaf e0) v e' -> v = [].
Proof.
  intros H. specialize (H []). rewrite hwalk_leaf in H. inversion H as [[E1 E2]].
  destruct v; [reflexivity|]. exfalso. rewrite app_nil_r in E2. discriminate.
Qed.

Lemma hinsert_decodes_new : forall w t e, w <> [] ->
  (forall p e', p <> w -> is_prefix p w = true -> ~ decodes t p e') ->
  decodes (hinsert t w e) w e.
Proof.
  induction w as [|b w IH]; intros t e Hne Hfree rest; [congruence|].
  assert (forall e0, t <> HLeaf e0) as Hnl.
  { intros e0 ->. apply (Hfree [] e0); [discriminate|reflexivity|]. intros r. apply hwalk_leaf. }
  cbn [app]. rewrite hinsert_step.
  destruct w as [|b2 w2].
  - cbn [hinsert app]. apply hwalk_leaf.
  - apply IH; [discriminate|].
    intros p e' Hp1 Hp2 Hd. apply (Hfree (b :: p) e'); [congruence|cbn; rewrite Hp2; destruct b; reflexivity|].
    intros r. cbn [app]. rewrite hwalk_node_step by exact Hnl. apply Hd.
Qed.

Lemma hinsert_preserves : forall w t e v e', w <> [] -> unrelated v w -> decodes t v e' -> decodes (hinsert t w e) v e'.
Proof.
  induction w as [|b w IH]; intros t e v e' Hne [U1 U2] Hd rest; [congruence|].
  destruct v as [|c v]; [cbn in U1; discriminate|].
  assert (forall e0, t <> HLeaf e0) as Hnl.
  { intros e0 ->. apply decodes_leaf_nil in Hd. discriminate. }
  assert (decodes (child t c) v e') as Hdc.
  { intros r. specialize (Hd r). cbn [app] in Hd. rewrite hwalk_node_step in Hd by exact Hnl. exact Hd. }
  cbn [app]. cbn [is_prefix] in U1, U2.
  destruct (Bool.eqb c b) eqn:Ecb.
  - apply eqb_prop in Ecb. subst c. rewrite hinsert_step.
    assert (is_prefix w v = false) as U2' by (destruct b; cbn [Bool.eqb andb] in U2; exact U2).
    cbn [andb] in U1.
    destruct w as [|b2 w2].
    + cbn in U2'. discriminate.
    + apply IH; [discriminate|split; [exact U1|exact U2']|exact Hdc].
  - assert (c = negb b) as -> by (destruct c, b; cbn in Ecb; try discriminate; reflexivity).
    rewrite hinsert_other. apply Hdc.
Qed.

(* [path_free t w]: w can be inserted into t without meeting a leaf or ending on an inner node *)
Fixpoint path_free (t : htree) (w : list bool) : bool :=
  match t with
  | HEmpty => true
  | HLeaf _ => false
  | HNode z o => match w with [] => false | b :: r => path_free (if b then o else z) r end
  end.

Lemma path_free_decodes : forall w t e, w <> [] -> path_free t w = true -> decodes (hinsert t w e) w e.
Proof.
  induction w as [|b w IH]; intros t e Hne Hp rest; [congruence|].
  cbn [app]. rewrite hinsert_step.
  destruct w as [|b2 w2]; [cbn [hinsert app]; apply hwalk_leaf|].
  apply IH; [discriminate|].
  destruct t as [|e0|z o]; cbn in *; [reflexivity|discriminate|destruct b; exact Hp].
Qed.

Lemma path_free_hinsert : forall w t e v, w <> [] -> unrelated v w -> path_free t v = true -> path_free (hinsert t w e) v = true.
Proof.
  induction w as [|b w IH]; intros t e v Hne [U1 U2] Hp; [congruence|].
  destruct v as [|c v]; [cbn in U1; discriminate|].
  cbn [is_prefix] in U1, U2.
  assert (forall t', path_free t' v = true -> c = b -> path_free (hinsert t' w e) v = true) as Hrec.
  { intros t' Hp' ->. rewrite eqb_reflx in U1, U2. cbn [andb] in U1, U2.
    destruct w as [|b2 w2]; [destruct v; cbn in U2; discriminate|].
    apply IH; [discriminate|split; assumption|exact Hp']. }
  destruct t as [|e0|z o]; [|cbn in Hp; discriminate|].
  - cbn [hinsert]. destruct b, c; cbn [path_free]; try reflexivity; apply Hrec; reflexivity.
  - cbn [hinsert]. cbn [path_free] in Hp. destruct b, c; cbn [path_free]; try exact Hp; apply Hrec; try reflexivity; exact Hp.
Qed.

(* all codewords of a prefix-free table decode to their entry in the tree built from the table *)
Definition word_of (w : Z * Z * Z) : list bool := let '(e, l, c) := w in cw_bits (Z.to_nat l) c.
Definition entry_of (w : Z * Z * Z) : Z := let '(e, l, c) := w in e.
Definition ins (t : htree) (w : Z * Z * Z) : htree := let '(e, l, c) := w in hinsert t (cw_bits (Z.to_nat l) c) e.

Fixpoint prefix_free (ws : list (Z * Z * Z)) : Prop :=
  match ws with
  | [] => True
  | w :: rest => word_of w <> [] /\ Forall (fun w' => unrelated (word_of w') (word_of w)) rest /\ prefix_free rest
  end.

Lemma unrelated_sym a b : unrelated a b -> unrelated b a.
Proof. intros [H1 H2]. split; assumption. Qed.

Lemma fold_ins_ok : forall ws t done,
  (forall w, In w ws -> path_free t (word_of w) = true) ->
  (forall d, In d done -> decodes t (word_of d) (entry_of d)) ->
  (forall d w, In d done -> In w ws -> unrelated (word_of d) (word_of w)) ->
  prefix_free ws ->
  forall x, In x done \/ In x ws -> decodes (fold_left ins ws t) (word_of x) (entry_of x).
Proof.
  induction ws as [|w ws IH]; intros t done Hpf Hdone Hun Hfree x Hx.
  - destruct Hx as [Hx|[]]. cbn. apply Hdone, Hx.
  - destruct Hfree as (Hne & Hall & Hfree'). rewrite Forall_forall in Hall.
    cbn [fold_left].
    assert (ins t w = hinsert t (word_of w) (entry_of w)) as Et by (unfold ins, word_of, entry_of; destruct w as [[e l] c]; reflexivity).
    apply (IH (ins t w) (w :: done)).
    + intros w0 Hin. rewrite Et. apply path_free_hinsert; [exact Hne|apply Hall, Hin|apply Hpf; right; exact Hin].
    + intros d [<-|Hd].
      * rewrite Et. apply path_free_decodes; [exact Hne|apply Hpf; left; reflexivity].
      * rewrite Et. apply hinsert_preserves; [exact Hne|apply Hun; [exact Hd|left; reflexivity]|apply Hdone, Hd].
    + intros d w0 [<-|Hd] Hin.
      * apply unrelated_sym, Hall, Hin.
      * apply Hun; [exact Hd|right; exact Hin].
    + exact Hfree'.
    + destruct Hx as [Hx|[<-|Hx]]; [left; right; exact Hx|left; left; reflexivity|right; exact Hx].
Qed.

Lemma path_free_empty w : path_free HEmpty w = true.
Proof. reflexivity. Qed.

(* decode (encode e) = e for every prefix-free codeword table: what the
   encoder writes with vorbis_book_encode, the tree walk reads back *)
Theorem build_tree_decodes : forall ws, prefix_free ws ->
  forall w rest, In w ws -> hwalk (build_tree ws) (word_of w ++ rest) = Some (entry_of w, rest).
Proof.
  intros ws Hpf w rest Hin.
  assert (build_tree ws = fold_left ins ws HEmpty) as -> by reflexivity.
  apply (fold_ins_ok ws HEmpty []); [intros; apply path_free_empty|intros d []|intros d w0 []|exact Hpf|right; exact Hin].
Qed.

(* ------------------------------------------------------------------ *)
(* residue index arithmetic: every partition the decode loops address   *)
(* lies inside the half-block vectors (the CVE class of res0.c)         *)
(* ------------------------------------------------------------------ *)
(* formats 0 and 1: partition i of channel vector [0, halfn) *)
Lemma res01_partition_in_bounds begin end_ grouping halfn i :
  0 <= begin -> 0 < grouping -> 0 <= halfn ->
  let lim := if end_ <? halfn then end_ else halfn in
  let n := lim - begin in
  0 < n -> 0 <= i < Z.quot n grouping ->
  0 <= begin + i * grouping /\ begin + i * grouping + grouping <= halfn.
Proof.
  intros Hb Hg Hh lim n Hn Hi. rewrite Z.quot_div_nonneg in Hi by lia.
  assert (lim <= halfn) by (unfold lim; destruct (end_ <? halfn) eqn:E; lia).
  assert ((i + 1) * grouping <= n) by (assert (i + 1 <= n / grouping) by lia; nia).
  split; nia.
Qed.

(* format 2: the interleaved partition i touches indices < m of each of the ch vectors, m <= halfn *)
Lemma res2_partition_in_bounds begin end_ grouping halfn ch i :
  0 <= begin -> 0 < grouping -> 0 <= halfn -> 0 < ch ->
  let mx := halfn * ch in
  let lim := if end_ <? mx then end_ else mx in
  let n := lim - begin in
  0 < n -> 0 <= i < Z.quot n grouping ->
  let off := i * grouping + begin in
  0 <= Z.quot off ch /\ Z.quot (off + grouping) ch <= halfn.
Proof.
  intros Hb Hg Hh Hc mx lim n Hn Hi off. rewrite Z.quot_div_nonneg in Hi by lia.
  assert (lim <= mx) by (unfold lim; destruct (end_ <? mx) eqn:E; lia).
  assert ((i + 1) * grouping <= n) by (assert (i + 1 <= n / grouping) by lia; nia).
  assert (0 <= off) by (unfold off; nia).
  rewrite !Z.quot_div_nonneg by lia.
  split; [apply Z.div_pos; lia|].
  assert (off + grouping <= halfn * ch) by (unfold off, mx in *; nia).
  apply Z.div_le_upper_bound; lia.
Qed.

(* format 0's interleave: a[o+j], o = i*step, j < step, step = n/dim stays below n *)
Lemma res0_interleave_in_bounds n dim i j :
  0 < dim -> 0 <= n -> 0 <= i < dim -> 0 <= j < Z.quot n dim -> 0 <= i * Z.quot n dim + j < n.
Proof.
  intros Hd Hn Hi Hj. rewrite Z.quot_div_nonneg in * by lia.
  assert (dim * (n / dim) <= n) by (apply Z.mul_div_le; lia). nia.
Qed.

(* vectors never change length *)
Lemma add_at_length : forall off vals vec, length (add_at off vals vec) = length vec.
Proof.
  induction off as [|k IH]; intros vals vec.
  - revert vals; induction vec as [|x r IHr]; intros vals; [reflexivity|]. destruct vals as [|v vs]; [reflexivity|]. cbn. f_equal. apply IHr.
  - destruct vec as [|x r]; [reflexivity|]. cbn. f_equal. apply IH.
Qed.

(* ------------------------------------------------------------------ *)
(* floor 1                                                             *)
(* ------------------------------------------------------------------ *)
Lemma floor1_curve_length n mult rangebits posts fit : 0 <= n ->
  length (floor1_curve n mult rangebits posts fit) = Z.to_nat n.
Proof.
  intros Hn. unfold floor1_curve.
  destruct (f1_lines n (0 :: 2 ^ rangebits :: posts) fit mult (tl (forward_index (0 :: 2 ^ rangebits :: posts))) 0 (clamp255 (zn fit 0 * mult))) as [[l hx] ly].
  rewrite app_length, repeat_length, firstn_length. lia.
Qed.

Lemma clamp255_range y : 0 <= clamp255 y <= 255.
Proof. unfold clamp255. destruct (y <? 0) eqn:E1; [lia|]. destruct (y >? 255) eqn:E2; lia. Qed.

Lemma lset_length {A} : forall (l : list A) j v, length (lset l j v) = length l.
Proof. induction l as [|h t IH]; intros [|j] v; cbn; auto. Qed.

Lemma f1_unwrap_length : forall fuel pl q i fit, length (f1_unwrap fuel pl q i fit) = length fit.
Proof.
  induction fuel as [|f IH]; intros pl q i fit; [reflexivity|]. cbn [f1_unwrap].
  destruct (i >=? Z.of_nat (length pl)); [reflexivity|].
  destruct (neighbors pl i) as [lo hi]. rewrite IH.
  destruct (negb (zn fit i =? 0)); rewrite ?lset_length; reflexivity.
Qed.

Lemma rd_list_length : forall n w bs l r, rd_list n w bs = Some (l, r) -> length l = n.
Proof.
  induction n as [|k IH]; intros w bs l r H; cbn [rd_list] in H.
  - inversion H; reflexivity.
  - destruct (rd w bs) as [[v r1]|]; [|discriminate].
    destruct (rd_list k w r1) as [[l1 r2]|] eqn:E; [|discriminate].
    inversion H; subst. cbn. f_equal. eapply IH; exact E.
Qed.

(* the post count of an accepted floor 1 never exceeds VIF_POSIT: fit_value[j+k] stays inside its posts+2 cells *)
Lemma rd_posts_count : forall pc classes rb count bs posts r,
  rd_posts pc classes rb count bs = Some (posts, r) ->
  (forall c, 0 <= c_dim (cls classes c)) -> 0 <= count <= VIF_POSIT ->
  count + Z.of_nat (length posts) <= VIF_POSIT.
Proof.
  induction pc as [|c rest IH]; intros classes rb count bs posts r H Hdim Hc; cbn [rd_posts] in H.
  - inversion H; subst. cbn. lia.
  - destruct (count + c_dim (cls classes c) >? VIF_POSIT) eqn:E; [discriminate|].
    destruct (rd_list (Z.to_nat (c_dim (cls classes c))) rb bs) as [[l r1]|] eqn:E1; [|discriminate].
    destruct (rd_posts rest classes rb (count + c_dim (cls classes c)) r1) as [[l2 r2]|] eqn:E2; [|discriminate].
    inversion H; subst. apply rd_list_length in E1. pose proof (Hdim c) as Hdc.
    apply IH in E2; [|exact Hdim|lia]. rewrite app_length. lia.
Qed.

(* ------------------------------------------------------------------ *)
(* the bit reader                                                      *)
(* ------------------------------------------------------------------ *)
Lemma rd_acc_range : forall w bs k acc v r, 0 < k ->
  rd_acc w bs k acc = Some (v, r) -> acc <= v <= acc + k * (2 ^ Z.of_nat w - 1) /\ (length r + w = length bs)%nat.
Proof.
  induction w as [|w IH]; intros bs k acc v r Hk H; cbn [rd_acc] in H.
  - inversion H; subst. cbn. lia.
  - destruct bs as [|b bs]; [discriminate|].
    apply IH in H; [|lia]. destruct H as [H1 H2].
    rewrite Nat2Z.inj_succ, Z.pow_succ_r by lia. cbn [length]. split; [|lia].
    assert (0 < 2 ^ Z.of_nat w) by (apply Z.pow_pos_nonneg; lia).
    destruct b; nia.
Qed.
Lemma rd_range w bs v r : rd w bs = Some (v, r) -> 0 <= v < 2 ^ Z.of_nat w /\ (length r + w = length bs)%nat.
Proof. unfold rd. intros H. apply rd_acc_range in H; [|lia]. assert (0 < 2 ^ Z.of_nat w) by (apply Z.pow_pos_nonneg; lia). lia. Qed.

(* ------------------------------------------------------------------ *)
(* accepted set-up headers: every index the decoder will use is in range *)
(* ------------------------------------------------------------------ *)
Lemma rd_modes_wf : forall n maps bs l r, rd_modes n maps bs = Some (l, r) ->
  length l = n /\ Forall (fun m => 0 <= md_mapping m < maps /\ (md_blockflag m = 0 \/ md_blockflag m = 1)) l.
Proof.
  induction n as [|k IH]; intros maps bs l r H; cbn [rd_modes] in H.
  - inversion H; subst. split; [reflexivity|constructor].
  - destruct (rd 1 bs) as [[bf r1]|] eqn:E1; [|discriminate].
    destruct (rd 16 r1) as [[wt r2]|]; [|discriminate].
    destruct (rd 16 r2) as [[t2 r3]|]; [|discriminate].
    destruct (rd 8 r3) as [[mp r4]|] eqn:E4; [|discriminate].
    destruct ((wt >=? 1) || (t2 >=? 1) || (mp >=? maps)) eqn:Ec; [discriminate|].
    destruct (rd_modes k maps r4) as [[l1 r5]|] eqn:E5; [|discriminate].
    inversion H; subst. apply IH in E5. destruct E5 as [L F].
    apply rd_range in E1, E4. cbn [md_mapping md_blockflag]. split; [cbn; f_equal; exact L|].
    constructor; [cbn; change (2 ^ Z.of_nat 1) with 2 in E1; lia|exact F].
Qed.

Lemma rd_coupling_wf : forall n ch bs l r, rd_coupling n ch bs = Some (l, r) ->
  Forall (fun p => 0 <= fst p < ch /\ 0 <= snd p < ch /\ fst p <> snd p) l.
Proof.
  induction n as [|k IH]; intros ch bs l r H; cbn [rd_coupling] in H.
  - inversion H; constructor.
  - destruct (rd (ilogn (ch - 1)) bs) as [[m r1]|] eqn:E1; [|discriminate].
    destruct (rd (ilogn (ch - 1)) r1) as [[a r2]|] eqn:E2; [|discriminate].
    destruct ((m =? a) || (m >=? ch) || (a >=? ch)) eqn:Ec; [discriminate|].
    destruct (rd_coupling k ch r2) as [[l1 r3]|] eqn:E3; [|discriminate].
    inversion H; subst. apply IH in E3. apply rd_range in E1, E2.
    constructor; [cbn; lia|exact E3].
Qed.

Lemma rd_mux_wf : forall n submaps bs l r, rd_mux n submaps bs = Some (l, r) ->
  length l = n /\ Forall (fun v => 0 <= v < submaps) l.
Proof.
  induction n as [|k IH]; intros submaps bs l r H; cbn [rd_mux] in H.
  - inversion H; split; [reflexivity|constructor].
  - destruct (rd 4 bs) as [[v r1]|] eqn:E1; [|discriminate].
    destruct (v >=? submaps) eqn:Ec; [discriminate|].
    destruct (rd_mux k submaps r1) as [[l1 r2]|] eqn:E2; [|discriminate].
    inversion H; subst. apply IH in E2. apply rd_range in E1. destruct E2 as [L F].
    split; [cbn; f_equal; exact L|constructor; [lia|exact F]].
Qed.

Lemma rd_submaps_wf : forall n floors residues bs l r, rd_submaps n floors residues bs = Some (l, r) ->
  length l = n /\ Forall (fun p => 0 <= fst p < floors /\ 0 <= snd p < residues) l.
Proof.
  induction n as [|k IH]; intros floors residues bs l r H; cbn [rd_submaps] in H.
  - inversion H; split; [reflexivity|constructor].
  - destruct (rd 8 bs) as [[t r0]|]; [|discriminate].
    destruct (rd 8 r0) as [[f r1]|] eqn:E1; [|discriminate].
    destruct (f >=? floors) eqn:Ef; [discriminate|].
    destruct (rd 8 r1) as [[rs r2]|] eqn:E2; [|discriminate].
    destruct (rs >=? residues) eqn:Er; [discriminate|].
    destruct (rd_submaps k floors residues r2) as [[l1 r3]|] eqn:E3; [|discriminate].
    inversion H; subst. apply IH in E3. apply rd_range in E1, E2. destruct E3 as [L F].
    split; [cbn; f_equal; exact L|constructor; [cbn; lia|exact F]].
Qed.

Definition mapping_wf (channels floors residues : Z) (m : mapping) : Prop :=
  1 <= m_submaps m <= 16 /\
  length (m_mux m) = Z.to_nat channels /\ Forall (fun v => 0 <= v < m_submaps m) (m_mux m) /\
  Forall (fun p => 0 <= fst p < channels /\ 0 <= snd p < channels /\ fst p <> snd p) (m_coupling m) /\
  length (m_floor m) = Z.to_nat (m_submaps m) /\ length (m_residue m) = Z.to_nat (m_submaps m) /\
  Forall (fun f => 0 <= f < floors) (m_floor m) /\ Forall (fun x => 0 <= x < residues) (m_residue m).

Lemma repeat_forall {A} (P : A -> Prop) x n : P x -> Forall P (repeat x n).
Proof. intros H. induction n; cbn; constructor; auto. Qed.

Lemma unpack_mapping_wf channels floors residues bs m r :
  unpack_mapping channels floors residues bs = Some (m, r) -> 0 < channels /\ mapping_wf channels floors residues m.
Proof.
  unfold unpack_mapping. intros H.
  destruct (channels <=? 0) eqn:Ech; [discriminate|].
  destruct (rd 1 bs) as [[b1 r1]|]; [|discriminate].
  destruct (if b1 =? 1 then match rd 4 r1 with Some (s, r0) => Some (s + 1, r0) | None => None end else Some (1, r1)) as [[submaps r2]|] eqn:Es; [|discriminate].
  assert (1 <= submaps <= 16) as Hsub.
  { destruct (b1 =? 1); [|inversion Es; lia]. destruct (rd 4 r1) as [[s r0]|] eqn:E; [|discriminate]. inversion Es; subst.
    apply rd_range in E. change (2 ^ Z.of_nat 4) with 16 in E. lia. }
  destruct (rd 1 r2) as [[b2 r3]|]; [|discriminate].
  destruct (if b2 =? 1 then match rd 8 r3 with Some (s, r0) => rd_coupling (Z.to_nat (s + 1)) channels r0 | None => None end else Some ([], r3)) as [[coupling r4]|] eqn:Ec; [|discriminate].
  assert (Forall (fun p => 0 <= fst p < channels /\ 0 <= snd p < channels /\ fst p <> snd p) coupling) as Hc.
  { destruct (b2 =? 1); [|inversion Ec; constructor]. destruct (rd 8 r3) as [[s r0]|]; [|discriminate]. eapply rd_coupling_wf; exact Ec. }
  destruct (rd 2 r4) as [[reserved r5]|]; [|discriminate].
  destruct (negb (reserved =? 0)); [discriminate|].
  destruct (if submaps >? 1 then rd_mux (Z.to_nat channels) submaps r5 else Some (repeat 0 (Z.to_nat channels), r5)) as [[mux r6]|] eqn:Em; [|discriminate].
  assert (length mux = Z.to_nat channels /\ Forall (fun v => 0 <= v < submaps) mux) as Hm.
  { destruct (submaps >? 1); [eapply rd_mux_wf; exact Em|]. inversion Em; subst. split; [apply repeat_length|apply repeat_forall; lia]. }
  destruct (rd_submaps (Z.to_nat submaps) floors residues r6) as [[subs r7]|] eqn:Esu; [|discriminate].
  apply rd_submaps_wf in Esu. destruct Esu as [Ls Fs].
  inversion H; subst. split; [lia|]. unfold mapping_wf. cbn [m_submaps m_mux m_coupling m_floor m_residue].
  rewrite !map_length. repeat split; try lia; try tauto.
  - apply Forall_forall. intros f Hf. apply in_map_iff in Hf. destruct Hf as [p [<- Hp]]. rewrite Forall_forall in Fs. apply Fs in Hp. lia.
  - apply Forall_forall. intros f Hf. apply in_map_iff in Hf. destruct Hf as [p [<- Hp]]. rewrite Forall_forall in Fs. apply Fs in Hp. lia.
Qed.

(* ------------------------------------------------------------------ *)
(* samples returned per packet (Vorbis I spec 4.3.8: from the centre of the
   previous window to the centre of the current one)                     *)
(* ------------------------------------------------------------------ *)
Lemma samples_per_packet c s b :
  0 <= bs1 c -> 0 <= hs c ->
  k_pcm b = true -> k_gran b = -1 ->
  d_ret s = d_cur s -> 0 <= d_ret s ->
  exists s', dec_blockin c s b = (0, s') /\
             dec_pcmout s' = (let n := Z.shiftr (bsz c (d_W s) / 4 + bsz c (k_W b) / 4) (hs c) in if 0 <? n then n else 0).
Proof.
  intros Hb1 Hhs Hp Hg Hr Hr0. unfold dec_blockin. rewrite Hr.
  destruct ((d_cur s >? d_cur s) && negb (d_cur s =? -1)) eqn:E0; [lia|].
  unfold dec_pcmpart. rewrite Hp, Hr.
  destruct (d_cur s =? -1) eqn:E1; [lia|].
  set (stp := bsz c (d_W s) / 4 + bsz c (k_W b) / 4).
  set (prevC := if d_centerW s =? 0 then Z.shiftr (bs1 c) (hs c + 1) else 0).
  assert (0 <= prevC) as HpC by (unfold prevC; destruct (d_centerW s =? 0); [apply Z.shiftr_nonneg; exact Hb1|lia]).
  unfold dec_granule. rewrite Hg. change (-1 =? -1) with true. cbn [negb andb].
  assert (forall g cnt, dec_pcmout {| d_lW := d_W s; d_W := k_W b; d_centerW := prevC; d_cur := prevC + Z.shiftr stp (hs c);
                                      d_ret := prevC; d_gran := g; d_seq := k_seq b; d_count := cnt; d_eof := d_eof s || k_eof b; d_fresh := true |}
                        = (if 0 <? Z.shiftr stp (hs c) then Z.shiftr stp (hs c) else 0)) as Hout.
  { intros g cnt. unfold dec_pcmout. cbn [d_ret d_cur].
    destruct (0 <? Z.shiftr stp (hs c)) eqn:E;
      destruct ((prevC >? -1) && (prevC <? prevC + Z.shiftr stp (hs c))) eqn:E2; lia. }
  match goal with |- context [if ?g =? -1 then _ else _] => destruct (g =? -1) eqn:Eg end;
    eexists; (split; [reflexivity|apply Hout]).
Qed.

(* ------------------------------------------------------------------ *)
(* accepted residues and floors: every book they name exists and is of *)
(* the kind the decoder will use it as                                  *)
(* ------------------------------------------------------------------ *)
Definition value_book_ok (books : list book) (b : Z) : Prop :=
  0 <= b < nbooks books /\ b_maptype (bk books b) <> 0 /\ 1 <= b_dim (bk books b).

Lemma rd_list_range : forall n w bs l r, rd_list n w bs = Some (l, r) -> Forall (fun v => 0 <= v < 2 ^ Z.of_nat w) l.
Proof.
  induction n as [|k IH]; intros w bs l r H; cbn [rd_list] in H.
  - inversion H; constructor.
  - destruct (rd w bs) as [[v r1]|] eqn:E; [|discriminate].
    destruct (rd_list k w r1) as [[l1 r2]|] eqn:E2; [|discriminate].
    inversion H; subst. constructor; [apply rd_range in E; tauto|eapply IH; exact E2].
Qed.

Lemma rd_cascade_wf : forall n bs l r, rd_cascade n bs = Some (l, r) -> length l = n /\ Forall (fun c => 0 <= c < 256) l.
Proof.
  induction n as [|k IH]; intros bs l r H; cbn [rd_cascade] in H.
  - inversion H; split; [reflexivity|constructor].
  - destruct (rd 3 bs) as [[c r1]|] eqn:E1; [|discriminate].
    destruct (rd 1 r1) as [[f r2]|] eqn:E2; [|discriminate].
    destruct (if f =? 1 then match rd 5 r2 with Some (c5, r0) => Some (c + c5 * 8, r0) | None => None end else Some (c, r2)) as [[cc r3]|] eqn:E3; [|discriminate].
    destruct (rd_cascade k r3) as [[l1 r4]|] eqn:E4; [|discriminate].
    inversion H; subst. apply IH in E4. destruct E4 as [L F]. apply rd_range in E1.
    change (2 ^ Z.of_nat 3) with 8 in E1.
    split; [cbn; f_equal; exact L|]. constructor; [|exact F].
    destruct (f =? 1).
    + destruct (rd 5 r2) as [[c5 r0]|] eqn:E5; [|discriminate]. inversion E3; subst. apply rd_range in E5. change (2 ^ Z.of_nat 5) with 32 in E5. lia.
    + inversion E3; subst. lia.
Qed.

Lemma partvals_fuel_bound : forall fuel dim partitions entries acc pv,
  partvals_fuel fuel dim partitions entries acc = Some pv -> 1 <= dim -> pv <= entries.
Proof.
  induction fuel as [|f IH]; intros dim partitions entries acc pv H Hd; cbn [partvals_fuel] in H; [discriminate|].
  destruct (dim <=? 0) eqn:E0; [lia|].
  destruct (acc * partitions >? entries) eqn:E; [discriminate|].
  destruct (Z.eq_dec dim 1) as [->|Hne].
  - destruct f as [|f']; cbn [partvals_fuel] in H; [discriminate|]. cbn in H. inversion H; subst. lia.
  - eapply IH; [exact H|lia].
Qed.
Lemma partvals_fuel_pos : forall fuel dim p e acc x, 1 <= acc -> 1 <= p -> partvals_fuel fuel dim p e acc = Some x -> 1 <= x.
Proof.
  induction fuel as [|f IH]; intros dim p e acc x Ha Hp H; cbn [partvals_fuel] in H; [discriminate|].
  destruct (dim <=? 0); [inversion H; lia|]. destruct (acc * p >? e); [discriminate|].
  eapply (IH _ _ _ (acc * p)); [nia|exact Hp|exact H].
Qed.

Definition residue_wf (books : list book) (r : residue) : Prop :=
  0 <= r_type r /\ 0 <= r_begin r /\ 0 <= r_end r /\ 1 <= r_grouping r /\ 1 <= r_partitions r <= 64 /\
  0 <= r_groupbook r < nbooks books /\ 1 <= b_dim (bk books (r_groupbook r)) /\
  length (r_secondstages r) = Z.to_nat (r_partitions r) /\ Forall (fun c => 0 <= c < 256) (r_secondstages r) /\
  Forall (value_book_ok books) (r_booklist r) /\
  1 <= r_partvals r <= b_entries (bk books (r_groupbook r)).

Lemma unpack_residue_wf rtype books bs r rest : 0 <= rtype ->
  unpack_residue rtype books bs = Some (r, rest) -> residue_wf books r.
Proof.
  intros Ht. unfold unpack_residue. intros H.
  destruct (rd 24 bs) as [[begin r1]|] eqn:E1; [|discriminate].
  destruct (rd 24 r1) as [[end_ r2]|] eqn:E2; [|discriminate].
  destruct (rd 24 r2) as [[grouping r3]|] eqn:E3; [|discriminate].
  destruct (rd 6 r3) as [[parts r4]|] eqn:E4; [|discriminate].
  destruct (rd 8 r4) as [[groupbook r5]|] eqn:E5; [|discriminate].
  destruct (rd_cascade (Z.to_nat (parts + 1)) r5) as [[casc r6]|] eqn:E6; [|discriminate].
  destruct (rd_list _ 8 r6) as [[bl r7]|] eqn:E7; [|discriminate].
  destruct (groupbook >=? nbooks books) eqn:Eg; [discriminate|].
  destruct (existsb _ bl) eqn:Ex; [discriminate|].
  destruct (b_dim (bk books groupbook) <? 1) eqn:Ed; [discriminate|].
  apply rd_range in E1, E2, E3, E4, E5. change (2 ^ Z.of_nat 6) with 64 in E4.
  apply rd_cascade_wf in E6. destruct E6 as [Lc Fc].
  pose proof (rd_list_range _ _ _ _ _ E7) as Fb.
  assert (Forall (value_book_ok books) bl) as Hbl.
  { apply Forall_forall. intros b Hb. rewrite Forall_forall in Fb. specialize (Fb b Hb).
    assert ((b >=? nbooks books) || (b_maptype (bk books b) =? 0) || (b_dim (bk books b) <? 1) = false) as Hf.
    { destruct ((b >=? nbooks books) || (b_maptype (bk books b) =? 0) || (b_dim (bk books b) <? 1)) eqn:E; [|reflexivity].
      exfalso. assert (existsb (fun b0 => (b0 >=? nbooks books) || (b_maptype (bk books b0) =? 0) || (b_dim (bk books b0) <? 1)) bl = true) as Hx
        by (apply existsb_exists; exists b; split; [exact Hb|exact E]). congruence. }
    unfold value_book_ok. lia. }
  destruct (if parts + 1 =? 1 then Some 1 else partvals_fuel 30 (b_dim (bk books groupbook)) (parts + 1) (b_entries (bk books groupbook)) 1) as [pv|] eqn:Ep; [|discriminate].
  destruct ((parts + 1 =? 1) && (1 >? b_entries (bk books groupbook))) eqn:E1e; [discriminate|].
  inversion H; subst. unfold residue_wf. cbn.
  assert (1 <= pv <= b_entries (bk books groupbook)) as Hpv.
  { destruct (parts + 1 =? 1) eqn:Epp.
    - inversion Ep; subst. lia.
    - split; [eapply (partvals_fuel_pos _ _ (parts + 1) _ 1); [lia|lia|exact Ep]|eapply partvals_fuel_bound; [exact Ep|lia]]. }
  repeat split; try lia; try assumption.
Qed.

Lemma rd_floor0_books_wf : forall n books bs l r, rd_floor0_books n books bs = Some (l, r) ->
  length l = n /\ Forall (value_book_ok books) l.
Proof.
  induction n as [|k IH]; intros books bs l r H; cbn [rd_floor0_books] in H.
  - inversion H; split; [reflexivity|constructor].
  - destruct (rd 8 bs) as [[b r1]|] eqn:E1; [|discriminate].
    destruct ((b >=? nbooks books) || (b_maptype (bk books b) =? 0) || (b_dim (bk books b) <? 1)) eqn:Ec; [discriminate|].
    destruct (rd_floor0_books k books r1) as [[l1 r2]|] eqn:E2; [|discriminate].
    inversion H; subst. apply IH in E2. destruct E2 as [L F]. apply rd_range in E1.
    split; [cbn; f_equal; exact L|constructor; [unfold value_book_ok; lia|exact F]].
Qed.

Lemma rd_subbooks_wf : forall n nb bs l r, rd_subbooks n nb bs = Some (l, r) -> length l = n /\ Forall (fun b => -1 <= b < nb) l.
Proof.
  induction n as [|k IH]; intros nb bs l r H; cbn [rd_subbooks] in H.
  - inversion H; split; [reflexivity|constructor].
  - destruct (rd 8 bs) as [[v r1]|] eqn:E1; [|discriminate].
    destruct (v - 1 >=? nb) eqn:Ec; [discriminate|].
    destruct (rd_subbooks k nb r1) as [[l1 r2]|] eqn:E2; [|discriminate].
    inversion H; subst. apply IH in E2. destruct E2 as [L F]. apply rd_range in E1.
    split; [cbn; f_equal; exact L|constructor; [lia|exact F]].
Qed.

Definition class_wf (nb : Z) (c : fclass) : Prop :=
  1 <= c_dim c <= 8 /\ 0 <= c_subs c <= 3 /\ 0 <= c_book c < nb /\
  length (c_subbook c) = Z.to_nat (2 ^ c_subs c) /\ Forall (fun b => -1 <= b < nb) (c_subbook c).

Lemma rd_classes_wf : forall n nb bs l r, 0 < nb -> rd_classes n nb bs = Some (l, r) -> length l = n /\ Forall (class_wf nb) l.
Proof.
  induction n as [|k IH]; intros nb bs l r Hnb H; cbn [rd_classes] in H.
  - inversion H; split; [reflexivity|constructor].
  - destruct (rd 3 bs) as [[d r1]|] eqn:E1; [|discriminate].
    destruct (rd 2 r1) as [[subs r2]|] eqn:E2; [|discriminate].
    destruct (if subs =? 0 then Some (0, r2) else rd 8 r2) as [[cb r3]|] eqn:E3; [|discriminate].
    destruct (cb >=? nb) eqn:Ec; [discriminate|].
    destruct (rd_subbooks (Z.to_nat (2 ^ subs)) nb r3) as [[sb r4]|] eqn:E4; [|discriminate].
    destruct (rd_classes k nb r4) as [[l1 r5]|] eqn:E5; [|discriminate].
    inversion H; subst. apply IH in E5; [|exact Hnb]. destruct E5 as [L F].
    apply rd_range in E1, E2. change (2 ^ Z.of_nat 3) with 8 in E1. change (2 ^ Z.of_nat 2) with 4 in E2.
    apply rd_subbooks_wf in E4. destruct E4 as [Ls Fs].
    assert (0 <= cb) as Hcb by (destruct (subs =? 0); [inversion E3; lia|apply rd_range in E3; lia]).
    split; [cbn; f_equal; exact L|]. constructor; [|exact F].
    unfold class_wf. cbn. repeat split; try lia; assumption.
Qed.

(* every floor of an accepted set-up is well formed *)
Definition floor_wf (books : list book) (f : Setup.floor) : Prop :=
  match f with
  | Floor0 order rate barkmap ampbits ampdB bl =>
      1 <= order <= 255 /\ 1 <= rate /\ 1 <= barkmap /\ 0 <= ampbits < 64 /\ 0 <= ampdB < 256 /\
      (1 <= length bl <= 16)%nat /\ Forall (value_book_ok books) bl
  | Floor1 pc classes mult rangebits posts =>
      Forall (fun c => 0 <= c < Z.of_nat (length classes)) pc /\ Forall (class_wf (nbooks books)) classes /\
      1 <= mult <= 4 /\ 0 <= rangebits < 16 /\ Z.of_nat (length posts) <= VIF_POSIT /\
      Forall (fun x => 0 <= x < 2 ^ rangebits) posts /\ nodupb (0 :: 2 ^ rangebits :: posts) = true
  end.

Lemma zmax_list_ge : forall l acc x, In x l -> x <= zmax_list l acc.
Proof.
  induction l as [|y r IH]; intros acc x Hin; [destruct Hin|]. cbn [zmax_list].
  destruct Hin as [->|Hin]; [|apply IH; exact Hin].
  assert (forall l a, a <= zmax_list l a) as Hmono by (induction l as [|z t IHt]; intros a; cbn; [lia|specialize (IHt (Z.max a z)); lia]).
  specialize (Hmono r (Z.max acc x)). lia.
Qed.

Lemma rd_posts_range : forall pc classes rb count bs posts r,
  rd_posts pc classes rb count bs = Some (posts, r) -> Forall (fun x => 0 <= x < 2 ^ Z.of_nat rb) posts.
Proof.
  induction pc as [|c rest IH]; intros classes rb count bs posts r H; cbn [rd_posts] in H.
  - inversion H; constructor.
  - destruct (count + c_dim (cls classes c) >? VIF_POSIT); [discriminate|].
    destruct (rd_list _ rb bs) as [[l r1]|] eqn:E1; [|discriminate].
    destruct (rd_posts rest classes rb _ r1) as [[l2 r2]|] eqn:E2; [|discriminate].
    inversion H; subst. apply Forall_app. split; [eapply rd_list_range; exact E1|eapply IH; exact E2].
Qed.

Lemma unpack_floor1_wf books bs f r : 0 < nbooks books -> unpack_floor1 books bs = Some (f, r) -> floor_wf books f.
Proof.
  intros Hnb. unfold unpack_floor1. intros H.
  destruct (rd 5 bs) as [[parts r1]|] eqn:E1; [|discriminate].
  destruct (rd_list (Z.to_nat parts) 4 r1) as [[pc r2]|] eqn:E2; [|discriminate].
  destruct (rd_classes _ (nbooks books) r2) as [[classes r3]|] eqn:E3; [|discriminate].
  destruct (rd 2 r3) as [[mult r4]|] eqn:E4; [|discriminate].
  destruct (rd 4 r4) as [[rangebits r5]|] eqn:E5; [|discriminate].
  destruct (rd_posts pc classes (Z.to_nat rangebits) 0 r5) as [[posts r6]|] eqn:E6; [|discriminate].
  destruct (nodupb (0 :: 2 ^ rangebits :: posts)) eqn:En; [|discriminate].
  inversion H; subst. cbn [floor_wf].
  pose proof (rd_list_range _ _ _ _ _ E2) as Fpc. change (2 ^ Z.of_nat 4) with 16 in Fpc.
  apply rd_classes_wf in E3; [|exact Hnb]. destruct E3 as [Lc Fc].
  apply rd_range in E4, E5. change (2 ^ Z.of_nat 2) with 4 in E4. change (2 ^ Z.of_nat 4) with 16 in E5.
  assert (forall c, 0 <= c_dim (cls classes c)) as Hdim.
  { intros c. unfold cls. destruct (Nat.ltb (Z.to_nat c) (length classes)) eqn:El.
    - apply Nat.ltb_lt in El. rewrite Forall_forall in Fc. specialize (Fc _ (nth_In classes {| c_dim := 0; c_subs := 0; c_book := 0; c_subbook := [] |} El)).
      unfold class_wf in Fc. lia.
    - apply Nat.ltb_ge in El. rewrite nth_overflow by exact El. cbn. lia. }
  pose proof (rd_posts_range _ _ _ _ _ _ _ E6) as Fp. rewrite Z2Nat.id in Fp by lia.
  apply rd_posts_count in E6; [|exact Hdim|unfold VIF_POSIT; lia].
  repeat split; try lia; try assumption.
  apply Forall_forall. intros c Hc. rewrite Forall_forall in Fpc. specialize (Fpc c Hc).
  pose proof (zmax_list_ge pc (-1) c Hc). lia.
Qed.

Lemma unpack_floor0_wf books bs f r : unpack_floor0 books bs = Some (f, r) -> floor_wf books f.
Proof.
  unfold unpack_floor0. intros H.
  destruct (rd 8 bs) as [[order r1]|] eqn:E1; [|discriminate].
  destruct (rd 16 r1) as [[rate r2]|] eqn:E2; [|discriminate].
  destruct (rd 16 r2) as [[barkmap r3]|] eqn:E3; [|discriminate].
  destruct (rd 6 r3) as [[ampbits r4]|] eqn:E4; [|discriminate].
  destruct (rd 8 r4) as [[ampdB r5]|] eqn:E5; [|discriminate].
  destruct (rd 4 r5) as [[nb r6]|] eqn:E6; [|discriminate].
  destruct ((order <? 1) || (rate <? 1) || (barkmap <? 1)) eqn:Ec; [discriminate|].
  destruct (rd_floor0_books (Z.to_nat (nb + 1)) books r6) as [[bl r7]|] eqn:E7; [|discriminate].
  inversion H; subst. cbn [floor_wf].
  apply rd_range in E1, E4, E5, E6. change (2 ^ Z.of_nat 8) with 256 in *. change (2 ^ Z.of_nat 6) with 64 in E4. change (2 ^ Z.of_nat 4) with 16 in E6.
  apply rd_floor0_books_wf in E7. destruct E7 as [L F].
  repeat split; try lia; assumption.
Qed.

Lemma rd_books_length : forall n bs l r, rd_books n bs = Some (l, r) -> length l = n.
Proof.
  induction n as [|k IH]; intros bs l r H; cbn [rd_books] in H; [inversion H; reflexivity|].
  destruct (unpack_book bs) as [[b r1]|]; [|discriminate].
  destruct (rd_books k r1) as [[l1 r2]|] eqn:E; [|discriminate]. inversion H; subst. cbn. f_equal. eapply IH; exact E.
Qed.
Lemma rd_floors_wf : forall n books bs l r, 0 < nbooks books -> rd_floors n books bs = Some (l, r) -> length l = n /\ Forall (floor_wf books) l.
Proof.
  induction n as [|k IH]; intros books bs l r Hnb H; cbn [rd_floors] in H; [inversion H; split; [reflexivity|constructor]|].
  destruct (rd 16 bs) as [[t r0]|]; [|discriminate]. destruct (t >=? VI_FLOORB); [discriminate|].
  destruct (if t =? 0 then unpack_floor0 books r0 else unpack_floor1 books r0) as [[f r1]|] eqn:Ef; [|discriminate].
  destruct (rd_floors k books r1) as [[l1 r2]|] eqn:E; [|discriminate]. inversion H; subst.
  apply IH in E; [|exact Hnb]. destruct E as [L F]. split; [cbn; f_equal; exact L|constructor; [|exact F]].
  destruct (t =? 0); [eapply unpack_floor0_wf; exact Ef|eapply unpack_floor1_wf; [exact Hnb|exact Ef]].
Qed.
Lemma rd_residues_wf : forall n books bs l r, rd_residues n books bs = Some (l, r) -> length l = n /\ Forall (residue_wf books) l.
Proof.
  induction n as [|k IH]; intros books bs l r H; cbn [rd_residues] in H; [inversion H; split; [reflexivity|constructor]|].
  destruct (rd 16 bs) as [[t r0]|] eqn:Et; [|discriminate]. destruct (t >=? VI_RESB); [discriminate|].
  destruct (unpack_residue t books r0) as [[x r1]|] eqn:Ex; [|discriminate].
  destruct (rd_residues k books r1) as [[l1 r2]|] eqn:E; [|discriminate]. inversion H; subst.
  apply IH in E. destruct E as [L F]. apply rd_range in Et.
  split; [cbn; f_equal; exact L|constructor; [eapply unpack_residue_wf; [|exact Ex]; lia|exact F]].
Qed.
Lemma rd_maps_wf : forall n ch fl rs bs l r, rd_maps n ch fl rs bs = Some (l, r) -> length l = n /\ Forall (mapping_wf ch fl rs) l.
Proof.
  induction n as [|k IH]; intros ch fl rs bs l r H; cbn [rd_maps] in H; [inversion H; split; [reflexivity|constructor]|].
  destruct (rd 16 bs) as [[t r0]|]; [|discriminate]. destruct (t >=? VI_MAPB); [discriminate|].
  destruct (unpack_mapping ch fl rs r0) as [[x r1]|] eqn:Ex; [|discriminate].
  destruct (rd_maps k ch fl rs r1) as [[l1 r2]|] eqn:E; [|discriminate]. inversion H; subst.
  apply IH in E. destruct E as [L F]. apply unpack_mapping_wf in Ex.
  split; [cbn; f_equal; exact L|constructor; [tauto|exact F]].
Qed.

(* the accepted set-up as a whole: 1..256 books, 1..64 floors/residues/maps/modes,
   every cross reference valid *)
Definition setup_wf (channels : Z) (s : setup) : Prop :=
  (1 <= length (s_books s) <= 256)%nat /\
  (1 <= length (s_floors s) <= 64)%nat /\ Forall (floor_wf (s_books s)) (s_floors s) /\
  (1 <= length (s_residues s) <= 64)%nat /\ Forall (residue_wf (s_books s)) (s_residues s) /\
  (1 <= length (s_maps s) <= 64)%nat /\
  Forall (mapping_wf channels (Z.of_nat (length (s_floors s))) (Z.of_nat (length (s_residues s)))) (s_maps s) /\
  (1 <= length (s_modes s) <= 64)%nat /\
  Forall (fun m => 0 <= md_mapping m < Z.of_nat (length (s_maps s)) /\ (md_blockflag m = 0 \/ md_blockflag m = 1)) (s_modes s).

Theorem unpack_setup_wf channels bs s : unpack_setup channels bs = Some s -> setup_wf channels s.
Proof.
  unfold unpack_setup. intros H.
  destruct (rd 8 bs) as [[nb r1]|] eqn:E1; [|discriminate].
  destruct (rd_books (Z.to_nat (nb + 1)) r1) as [[books r2]|] eqn:E2; [|discriminate].
  destruct (rd 6 r2) as [[nt r3]|]; [|discriminate].
  destruct (rd_times _ r3) as [[u r4]|]; [|discriminate].
  destruct (rd 6 r4) as [[nf r5]|] eqn:E5; [|discriminate].
  destruct (rd_floors (Z.to_nat (nf + 1)) books r5) as [[floors r6]|] eqn:E6; [|discriminate].
  destruct (rd 6 r6) as [[nr r7]|] eqn:E7; [|discriminate].
  destruct (rd_residues (Z.to_nat (nr + 1)) books r7) as [[residues r8]|] eqn:E8; [|discriminate].
  destruct (rd 6 r8) as [[nm r9]|] eqn:E9; [|discriminate].
  destruct (rd_maps (Z.to_nat (nm + 1)) channels _ _ r9) as [[maps r10]|] eqn:E10; [|discriminate].
  destruct (rd 6 r10) as [[nmo r11]|] eqn:E11; [|discriminate].
  destruct (rd_modes (Z.to_nat (nmo + 1)) _ r11) as [[modes r12]|] eqn:E12; [|discriminate].
  destruct (rd 1 r12) as [[fr r13]|]; [|discriminate].
  destruct (fr =? 1); [|discriminate]. inversion H; subst. clear H.
  apply rd_range in E1, E5, E7, E9, E11. change (2 ^ Z.of_nat 8) with 256 in E1. change (2 ^ Z.of_nat 6) with 64 in *.
  apply rd_books_length in E2.
  assert (0 < nbooks books) as Hnb by (unfold nbooks; lia).
  apply rd_floors_wf in E6; [|exact Hnb]. apply rd_residues_wf in E8. apply rd_maps_wf in E10. apply rd_modes_wf in E12.
  unfold setup_wf. cbn. repeat split; try lia; tauto.
Qed.

(* ------------------------------------------------------------------ *)
(* every successful codeword look-up strictly consumes bits             *)
(* ------------------------------------------------------------------ *)
Definition is_node (t : htree) : Prop := match t with HNode _ _ => True | _ => False end.

Lemma hinsert_node t b r e : is_node (hinsert t (b :: r) e).
Proof. destruct t as [|e0|z o], b; exact I. Qed.

Lemma mw_assign_lengths : forall lens idx mk ws mk', mw_assign lens idx mk = Some (ws, mk') ->
  Forall (fun w => let '(e, l, c) := w in 0 < l) ws.
Proof.
  induction lens as [|l rest IH]; intros idx mk ws mk' H; cbn [mw_assign] in H.
  - inversion H; constructor.
  - destruct (l >? 0) eqn:El.
    + destruct ((l <? 32) && negb (Z.shiftr (mget mk l) l =? 0)); [discriminate|].
      destruct (mw_assign rest (idx + 1) _) as [[ws1 mk1]|] eqn:E; [|discriminate].
      inversion H; subst. constructor; [lia|eapply IH; exact E].
    + eapply IH; exact H.
Qed.

Lemma build_tree_node : forall ws, ws <> [] -> Forall (fun w => let '(e, l, c) := w in 0 < l) ws -> is_node (build_tree ws).
Proof.
  intros ws Hne Hl. unfold build_tree.
  assert (forall ws t, Forall (fun w => let '(e, l, c) := w in 0 < l) ws -> (is_node t \/ ws <> []) ->
          is_node (fold_left (fun t w => let '(e, l, c) := w in hinsert t (cw_bits (Z.to_nat l) c) e) ws t)) as G.
  { induction ws0 as [|[[e l] c] rest IH]; intros t Hf Hor; cbn [fold_left].
    - destruct Hor as [H|H]; [exact H|congruence].
    - inversion Hf as [|? ? Hl0 Hrest]; subst. apply IH; [exact Hrest|left].
      destruct (Z.to_nat l) as [|k] eqn:Ek; [lia|]. cbn [cw_bits]. apply hinsert_node. }
  apply G; [exact Hl|right; exact Hne].
Qed.

Theorem book_decode_progress b d bs e r :
  init_book b = Some d -> book_decode d bs = (Some e, r) -> (length r < length bs)%nat.
Proof.
  unfold init_book. intros Hi Hd.
  set (used := Z.of_nat (length (filter (fun l => l >? 0) (b_lengths b)))) in *.
  destruct (used =? 0) eqn:Eu.
  - inversion Hi; subst. unfold book_decode in Hd. cbn [d_used] in Hd. rewrite Eu in Hd. discriminate.
  - destruct (make_words (b_lengths b)) as [ws|] eqn:Em; [|discriminate]. inversion Hi; subst. clear Hi.
    unfold book_decode in Hd. cbn [d_used d_single d_first d_tree] in Hd. rewrite Eu in Hd.
    destruct ((used =? 1) && (zmax_list (b_lengths b) 0 =? 1)).
    + destruct bs as [|x bs]; inversion Hd; subst. cbn. lia.
    + destruct (hwalk (build_tree ws) bs) as [[e' r']|] eqn:Ew; inversion Hd; subst.
      unfold make_words in Em. destruct (mw_assign (b_lengths b) 0 (repeat 0 33)) as [[ws0 mk]|] eqn:Ea; [|discriminate].
      pose proof (mw_assign_lengths _ _ _ _ _ Ea) as Hl.
      assert (ws = ws0) as -> by (destruct ((Z.of_nat (length ws0) =? 1) && (mget mk 2 =? 2)); [inversion Em; reflexivity|destruct (under_populated 40 mk 1); [discriminate|inversion Em; reflexivity]]).
      destruct ws0 as [|w0 wr].
      * cbn in Ew. destruct bs; discriminate.
      * pose proof (build_tree_node (w0 :: wr) ltac:(discriminate) Hl) as Hn.
        destruct (build_tree (w0 :: wr)) as [|?|z o]; try contradiction.
        eapply hwalk_progress; exact Ew.
Qed.

(* ------------------------------------------------------------------ *)
(* the working vectors keep their length through residue decode,        *)
(* coupling and the floor product: every channel ends with exactly      *)
(* n/2 spectral lines                                                   *)
(* ------------------------------------------------------------------ *)
Definition VL (n : nat) (vecs : list (list f32)) : Prop := Forall (fun v => length v = n) vecs.

Lemma lset_VL n vecs j v : VL n vecs -> length v = n -> VL n (lset vecs j v).
Proof.
  unfold VL. revert j; induction vecs as [|h t IH]; intros j Hv Hl; destruct j; cbn; auto;
    inversion Hv; subst; constructor; auto.
Qed.
Lemma nth_VL n vecs j : VL n vecs -> (j < length vecs)%nat -> length (nth j vecs []) = n.
Proof. intros H Hj. unfold VL in H. rewrite Forall_forall in H. apply H. apply nth_In. exact Hj. Qed.
Lemma lset_same_len {A} (l : list A) j v : length (lset l j v) = length l.
Proof. apply lset_length. Qed.
Lemma lset_oob {A} : forall (l : list A) j v, (length l <= j)%nat -> lset l j v = l.
Proof. induction l as [|h t IH]; intros [|j] v H; cbn in *; try reflexivity; try lia. f_equal. apply IH. lia. Qed.

Lemma decodev_add_len : forall fuel d vec off n i bs vec' bs' ok,
  decodev_add fuel d vec off n i bs = (vec', bs', ok) -> length vec' = length vec.
Proof.
  induction fuel as [|f IH]; intros d vec off n i bs vec' bs' ok H; cbn [decodev_add] in H; [inversion H; reflexivity|].
  destruct (i >=? n); [inversion H; reflexivity|].
  destruct (bdec d bs) as [[e|] r]; [|inversion H; reflexivity].
  destruct (length (firstn (Z.to_nat (n - i)) (book_vector d e)) =? 0)%nat; [inversion H; reflexivity|].
  apply IH in H. rewrite H. apply add_at_length.
Qed.
Lemma fold_add_at_len {A} (f : A -> nat) (g : A -> list f32) : forall (l : list A) vec,
  length (fold_left (fun v i => add_at (f i) (g i) v) l vec) = length vec.
Proof. induction l as [|x r IH]; intros vec; cbn; [reflexivity|]. rewrite IH. apply add_at_length. Qed.
Lemma decodevs_add_len d vec off n bs vec' bs' ok :
  decodevs_add d vec off n bs = (vec', bs', ok) -> length vec' = length vec.
Proof.
  unfold decodevs_add. destruct (decode_n _ d bs) as [[es|] r]; intros H; inversion H; subst; [|reflexivity].
  apply fold_add_at_len.
Qed.

Lemma vv_scatter_VL n : forall t vecs ch i chptr m vecs' i' c',
  VL n vecs -> vv_scatter vecs ch t i chptr m = (vecs', i', c') -> VL n vecs' /\ length vecs' = length vecs.
Proof.
  induction t as [|x r IH]; intros vecs ch i chptr m vecs' i' c' Hv H; cbn [vv_scatter] in H; [inversion H; subst; auto|].
  destruct (i >=? m); [inversion H; subst; auto|].
  set (v := nth (Z.to_nat chptr) vecs []) in *.
  assert (VL n (lset vecs (Z.to_nat chptr) (add_at (Z.to_nat i) [x] v)) /\
          length (lset vecs (Z.to_nat chptr) (add_at (Z.to_nat i) [x] v)) = length vecs) as [Hv1 Hl1].
  { split; [|apply lset_length].
    destruct (Nat.ltb (Z.to_nat chptr) (length vecs)) eqn:El.
    - apply Nat.ltb_lt in El. apply lset_VL; [exact Hv|]. rewrite add_at_length. apply nth_VL; assumption.
    - apply Nat.ltb_ge in El. rewrite lset_oob by exact El. exact Hv. }
  destruct (chptr + 1 =? ch); apply IH in H; try exact Hv1; destruct H as [A B]; split; try exact A; lia.
Qed.
Lemma decodevv_add_VL n : forall fuel d vecs ch i chptr m bs vecs' bs' ok,
  VL n vecs -> decodevv_add fuel d vecs ch i chptr m bs = (vecs', bs', ok) -> VL n vecs' /\ length vecs' = length vecs.
Proof.
  induction fuel as [|f IH]; intros d vecs ch i chptr m bs vecs' bs' ok Hv H; cbn [decodevv_add] in H; [inversion H; subst; auto|].
  destruct (i >=? m); [inversion H; subst; auto|].
  destruct (bdec d bs) as [[e|] r]; [|inversion H; subst; auto].
  destruct (length (book_vector d e) =? 0)%nat; [inversion H; subst; auto|].
  destruct (vv_scatter vecs ch (book_vector d e) i chptr m) as [[v1 i1] c1] eqn:Es.
  apply (vv_scatter_VL n) in Es; [|exact Hv]. destruct Es as [A B].
  apply IH in H; [|exact A]. destruct H as [C D]. split; [exact C|lia].
Qed.

(* the residue state invariant *)
Definition RInv (n k : nat) (st : rstate) : Prop := VL n (rs_vecs st) /\ length (rs_vecs st) = k.

Lemma r01_chan_inv n k ds r s dim i l kk : forall nch j st, RInv n k st -> RInv n k (r01_chan ds r s dim i l kk j nch st).
Proof.
  induction nch as [|c IH]; intros j st H; cbn [r01_chan]; [exact H|].
  destruct (negb (rs_go st)); [exact H|]. apply IH.
  destruct (Z.testbit _ s); [|exact H].
  destruct (stage_index _ _ s 0) as [bi|]; [|exact H].
  destruct (d_used _ =? 0); [exact H|].
  destruct H as [Hv Hk].
  set (vec := nth j (rs_vecs st) []).
  assert (exists vec' bs' ok, (if r_type r =? 0 then decodevs_add (dbk ds (zn (r_booklist r) bi)) vec (r_begin r + i * r_grouping r) (r_grouping r) (rs_bits st)
            else decodev_add (Z.to_nat (r_grouping r) + 1) (dbk ds (zn (r_booklist r) bi)) vec (r_begin r + i * r_grouping r) (r_grouping r) 0 (rs_bits st)) = (vec', bs', ok)
            /\ length vec' = length vec) as (vec' & bs' & ok & Ed & Hl).
  { destruct (r_type r =? 0).
    - destruct (decodevs_add _ vec _ _ _) as [[v1 b1] o1] eqn:E. exists v1, b1, o1. split; [reflexivity|eapply decodevs_add_len; exact E].
    - destruct (decodev_add _ _ vec _ _ _ _) as [[v1 b1] o1] eqn:E. exists v1, b1, o1. split; [reflexivity|eapply decodev_add_len; exact E]. }
  fold vec. rewrite Ed.
  unfold RInv. cbn [rs_vecs]. rewrite lset_length. split; [|exact Hk].
  destruct (Nat.ltb j (length (rs_vecs st))) eqn:El.
  - apply Nat.ltb_lt in El. apply lset_VL; [exact Hv|]. rewrite Hl. apply nth_VL; assumption.
  - apply Nat.ltb_ge in El. rewrite lset_oob by exact El. exact Hv.
Qed.
Lemma r01_k_inv n k ds r s dim partvals nch : forall cnt i l kk st st' i',
  RInv n k st -> r01_k ds r s dim partvals nch i l kk cnt st = (st', i') -> RInv n k st'.
Proof.
  induction cnt as [|c IH]; intros i l kk st st' i' H E; cbn [r01_k] in E; [inversion E; subst; exact H|].
  destruct (negb (rs_go st) || (i >=? partvals)); [inversion E; subst; exact H|].
  eapply IH; [|exact E]. apply r01_chan_inv. exact H.
Qed.
Lemma r01_fetch_inv n k ds r : forall nch j st, RInv n k st -> RInv n k (r01_fetch ds r nch j st).
Proof.
  induction nch as [|c IH]; intros j st H; cbn [r01_fetch]; [exact H|].
  destruct (negb (rs_go st)); [exact H|].
  destruct (bdec _ (rs_bits st)) as [[temp|] b]; [|exact H].
  destruct (temp >=? r_partvals r); [exact H|]. apply IH. exact H.
Qed.
Lemma r01_parts_inv n k ds r s dim partvals nch : forall fuel i l st,
  RInv n k st -> RInv n k (r01_parts fuel ds r s dim partvals nch i l st).
Proof.
  induction fuel as [|f IH]; intros i l st H; cbn [r01_parts]; [exact H|].
  destruct (negb (rs_go st) || (i >=? partvals)); [exact H|].
  set (st1 := if s =? 0 then r01_fetch ds r nch 0 st else st).
  assert (RInv n k st1) as H1 by (unfold st1; destruct (s =? 0); [apply r01_fetch_inv; exact H|exact H]).
  destruct (negb (rs_go st1)); [exact H1|].
  destruct (r01_k ds r s dim partvals nch i l 0 (Z.to_nat dim) st1) as [st2 i'] eqn:Ek.
  apply IH. eapply r01_k_inv; [exact H1|exact Ek].
Qed.
Lemma r01_stages_inv n k ds r dim partvals nch : forall cnt s st,
  RInv n k st -> RInv n k (r01_stages ds r dim partvals nch s cnt st).
Proof.
  induction cnt as [|c IH]; intros s st H; cbn [r01_stages]; [exact H|].
  destruct (negb (rs_go st)); [exact H|]. apply IH. apply r01_parts_inv. exact H.
Qed.
Lemma res01_inverse_VL n ds r halfn vecs bs vecs' bs' :
  VL n vecs -> res01_inverse ds r halfn vecs bs = (vecs', bs') -> VL n vecs' /\ length vecs' = length vecs.
Proof.
  unfold res01_inverse. intros Hv H.
  destruct ((_ >? 0) && negb (length vecs =? 0)%nat); [|inversion H; subst; auto].
  inversion H; subst. clear H.
  pose proof (r01_stages_inv n (length vecs) ds r (b_dim (d_src (dbk ds (r_groupbook r)))) 
                (Z.quot ((if r_end r <? halfn then r_end r else halfn) - r_begin r) (r_grouping r)) (length vecs)
                (Z.to_nat (res_stages r)) 0
                {| rs_vecs := vecs; rs_bits := bs; rs_pw := repeat [] (length vecs); rs_go := true |}) as G.
  destruct G as [A B]; [split; [exact Hv|reflexivity]|]. split; assumption.
Qed.

Lemma r2_k_inv n k ds r s dim partvals ch : forall cnt i l kk st st' i',
  RInv n k st -> r2_k ds r s dim partvals ch i l kk cnt st = (st', i') -> RInv n k st'.
Proof.
  induction cnt as [|c IH]; intros i l kk st st' i' H E; cbn [r2_k] in E; [inversion E; subst; exact H|].
  destruct (negb (rs_go st) || (i >=? partvals)); [inversion E; subst; exact H|].
  eapply IH; [|exact E].
  destruct (Z.testbit _ s); [|exact H].
  destruct (stage_index _ _ s 0) as [bi|]; [|exact H].
  destruct (d_used _ =? 0); [exact H|].
  match goal with |- context [decodevv_add ?a ?b ?c ?d ?e ?f ?g ?h] => destruct (decodevv_add a b c d e f g h) as [[vecs' bs'] ok] eqn:Ed end.
  destruct H as [Hv Hk]. apply (decodevv_add_VL n) in Ed; [|exact Hv]. destruct Ed as [A B].
  unfold RInv. cbn [rs_vecs]. split; [exact A|lia].
Qed.
Lemma r2_parts_inv n k ds r s dim partvals ch : forall fuel i l st,
  RInv n k st -> RInv n k (r2_parts fuel ds r s dim partvals ch i l st).
Proof.
  induction fuel as [|f IH]; intros i l st H; cbn [r2_parts]; [exact H|].
  destruct (negb (rs_go st) || (i >=? partvals)); [exact H|].
  set (st1 := if s =? 0 then r01_fetch ds r 1 0 st else st).
  assert (RInv n k st1) as H1 by (unfold st1; destruct (s =? 0); [apply r01_fetch_inv; exact H|exact H]).
  destruct (negb (rs_go st1)); [exact H1|].
  destruct (r2_k ds r s dim partvals ch i l 0 (Z.to_nat dim) st1) as [st2 i'] eqn:Ek.
  apply IH. eapply r2_k_inv; [exact H1|exact Ek].
Qed.
Lemma r2_stages_inv n k ds r dim partvals ch : forall cnt s st,
  RInv n k st -> RInv n k (r2_stages ds r dim partvals ch s cnt st).
Proof.
  induction cnt as [|c IH]; intros s st H; cbn [r2_stages]; [exact H|].
  destruct (negb (rs_go st)); [exact H|]. apply IH. apply r2_parts_inv. exact H.
Qed.
Lemma res2_inverse_VL n ds r halfn vecs nz bs vecs' bs' :
  VL n vecs -> res2_inverse ds r halfn vecs nz bs = (vecs', bs') -> VL n vecs' /\ length vecs' = length vecs.
Proof.
  unfold res2_inverse. intros Hv H.
  destruct ((_ >? 0) && existsb (fun b => b) nz); [|inversion H; subst; auto].
  inversion H; subst. clear H.
  match goal with |- context [r2_stages ds r ?dim ?pv ?ch 0 ?cnt ?st0] =>
    pose proof (r2_stages_inv n (length vecs) ds r dim pv ch cnt 0 st0) as G end.
  destruct G as [A B]; [split; [exact Hv|reflexivity]|]. split; assumption.
Qed.

Lemma put_back_VL n : forall idx vals all, VL n all -> VL n vals -> VL n (put_back idx vals all).
Proof.
  induction idx as [|i rest IH]; intros vals all Ha Hv; [exact Ha|].
  destruct vals as [|v vr]; [exact Ha|]. cbn [put_back]. inversion Hv as [|v0 vr0 Hlen Hrest].
  apply IH; [|exact Hrest].
  destruct (Nat.ltb i (length all)) eqn:El.
  - apply lset_VL; [exact Ha|exact Hlen].
  - apply Nat.ltb_ge in El. rewrite lset_oob by exact El. exact Ha.
Qed.
Lemma put_back_len {A} : forall (idx : list nat) (vals all : list A), length (put_back idx vals all) = length all.
Proof.
  induction idx as [|i rest IH]; intros vals all; [reflexivity|]. destruct vals as [|v vr]; [reflexivity|].
  cbn [put_back]. rewrite IH. apply lset_length.
Qed.
Lemma map_nth_VL n (pcm : list (list f32)) (idx : list nat) :
  VL n pcm -> (forall j, In j idx -> (j < length pcm)%nat) -> VL n (map (fun j => nth j pcm []) idx).
Proof.
  intros Hv Hin. unfold VL. apply Forall_forall. intros v Hm. apply in_map_iff in Hm. destruct Hm as [j [<- Hj]].
  apply nth_VL; [exact Hv|apply Hin; exact Hj].
Qed.
Lemma chans_of_lt mux sub j : In j (chans_of mux sub) -> (j < length mux)%nat.
Proof. unfold chans_of. intros H. apply filter_In in H. destruct H as [H _]. apply in_seq in H. lia. Qed.

Lemma residues_in_VL n ds m halfn nz : forall cnt sub pcm bs pcm' bs',
  VL n pcm -> length pcm = length (m_mux m) ->
  residues_in ds m halfn nz sub cnt pcm bs = (pcm', bs') -> VL n pcm' /\ length pcm' = length pcm.
Proof.
  induction cnt as [|c IH]; intros sub pcm bs pcm' bs' Hv Hl H; cbn [residues_in] in H; [inversion H; subst; auto|].
  match type of H with context [if r_type ?r =? 2 then _ else _] => set (rr := r) in * end.
  set (idx := chans_of (m_mux m) sub) in *.
  assert (forall j, In j idx -> (j < length pcm)%nat) as Hidx by (intros j Hj; rewrite Hl; eapply chans_of_lt; exact Hj).
  destruct (r_type rr =? 2).
  - destruct (res2_inverse ds rr halfn (map (fun j => nth j pcm []) idx) (map (fun j => nth j nz false) idx) bs) as [vs b] eqn:E.
    apply (res2_inverse_VL n) in E; [|apply map_nth_VL; assumption]. destruct E as [A _].
    apply IH in H; [|apply put_back_VL; assumption|rewrite put_back_len; exact Hl].
    destruct H as [C D]. split; [exact C|rewrite D, put_back_len; reflexivity].
  - set (used := filter (fun j => nth j nz false) idx) in *.
    assert (forall j, In j used -> (j < length pcm)%nat) as Hused by (intros j Hj; apply Hidx; unfold used in Hj; apply filter_In in Hj; tauto).
    destruct (res01_inverse ds rr halfn (map (fun j => nth j pcm []) used) bs) as [vs b] eqn:E.
    apply (res01_inverse_VL n) in E; [|apply map_nth_VL; assumption]. destruct E as [A _].
    apply IH in H; [|apply put_back_VL; assumption|rewrite put_back_len; exact Hl].
    destruct H as [C D]. split; [exact C|rewrite D, put_back_len; reflexivity].
Qed.

Lemma uncouple_VL n : forall coupling pcm,
  Forall (fun p => 0 <= fst p < Z.of_nat (length pcm) /\ 0 <= snd p < Z.of_nat (length pcm)) coupling ->
  VL n pcm -> VL n (uncouple coupling pcm) /\ length (uncouple coupling pcm) = length pcm.
Proof.
  intros coupling pcm Hc. unfold uncouple.
  assert (Forall (fun p => 0 <= fst p < Z.of_nat (length pcm) /\ 0 <= snd p < Z.of_nat (length pcm)) (rev coupling)) as Hr
    by (apply Forall_forall; intros p Hp; rewrite Forall_forall in Hc; apply Hc; apply in_rev; exact Hp).
  clear Hc. revert pcm Hr.
  induction (rev coupling) as [|[mg an] rest IH]; intros pcm Hr Hv; cbn [fold_left]; [auto|].
  inversion Hr as [|? ? Hp Hrest]; subst. cbn [fst snd] in Hp.
  set (M := nth (Z.to_nat mg) pcm []). set (A := nth (Z.to_nat an) pcm []).
  set (prs := map (fun q => couple_one (fst q) (snd q)) (combine M A)).
  assert (length M = n /\ length A = n) as [LM LA] by (unfold M, A; split; apply nth_VL; try exact Hv; lia).
  assert (length prs = n) as Lp by (unfold prs; rewrite map_length, combine_length; lia).
  set (pcm1 := lset (lset pcm (Z.to_nat mg) (map fst prs)) (Z.to_nat an) (map snd prs)).
  assert (VL n pcm1) as H1 by (unfold pcm1; apply lset_VL; [apply lset_VL; [exact Hv|rewrite map_length; exact Lp]|rewrite map_length; exact Lp]).
  assert (length pcm1 = length pcm) as H2 by (unfold pcm1; rewrite !lset_length; reflexivity).
  specialize (IH pcm1). rewrite H2 in IH. specialize (IH Hrest H1). destruct IH as [C D]. split; [exact C|lia].
Qed.

(* the channel outputs of a decoded packet *)
Definition chan_len (c : chan_out) : nat :=
  match c with CSpectrum v => length v | CFloor0 _ _ v => length v end.

Lemma apply_floor_len ds m halfn j mm vec : 0 <= halfn -> length vec = Z.to_nat halfn ->
  chan_len (apply_floor ds m halfn j mm vec) = Z.to_nat halfn.
Proof.
  intros Hh Hl. unfold apply_floor. destruct mm as [|fit|a l]; cbn [chan_len].
  - apply repeat_length.
  - destruct (nth _ (s_floors (ds_setup ds)) _) as [o r b ab ad bl|pc cl mu rb po]; cbn [chan_len]; [exact Hl|].
    rewrite map_length, combine_length, floor1_curve_length by exact Hh. lia.
  - exact Hl.
Qed.

Lemma floors_in_length ds m : forall mux bs, length (fst (floors_in ds m mux bs)) = length mux.
Proof.
  induction mux as [|sub rest IH]; intros bs; cbn [floors_in]; [reflexivity|].
  destruct (floor_inverse1 ds _ bs) as [mm r]. specialize (IH r).
  destruct (floors_in ds m rest r) as [l r2]. cbn in *. f_equal. exact IH.
Qed.

(* SHAPE of a decoded packet, for ANY packet bytes under ANY accepted set-up:
   one output per channel, each with exactly blocksize/2 spectral lines *)
Theorem synthesis_shapes ds pkt :
  setup_wf (i_channels (ds_ident ds)) (ds_setup ds) -> 0 <= i_channels (ds_ident ds) ->
  0 <= i_bs0 (ds_ident ds) -> 0 <= i_bs1 (ds_ident ds) ->
  let o := synthesis ds pkt in
  po_verdict o = POk ->
  let n := if po_W o =? 1 then i_bs1 (ds_ident ds) else i_bs0 (ds_ident ds) in
  length (po_chans o) = Z.to_nat (i_channels (ds_ident ds)) /\
  Forall (fun c => chan_len c = Z.to_nat (n / 2)) (po_chans o).
Proof.
  intros Hwf Hch Hb0 Hb1. unfold synthesis.
  destruct (rdm 1 _) as [t r0]. destruct (negb (t =? 0)); [cbn; discriminate|].
  destruct (rdm _ r0) as [mode r1].
  destruct ((mode <? 0) || (mode >=? Z.of_nat (length (s_modes (ds_setup ds))))) eqn:Em; [cbn; discriminate|].
  set (md := nth (Z.to_nat mode) (s_modes (ds_setup ds)) {| md_blockflag := 0; md_mapping := 0 |}).
  destruct (if md_blockflag md =? 1 then rdm 1 r1 else (0, r1)) as [lW r2].
  destruct (if md_blockflag md =? 1 then rdm 1 r2 else (0, r2)) as [nW r3].
  destruct (nW <? 0); [cbn; discriminate|].
  set (m := nth (Z.to_nat (md_mapping md)) (s_maps (ds_setup ds)) _).
  set (nn := if md_blockflag md =? 1 then i_bs1 (ds_ident ds) else i_bs0 (ds_ident ds)).
  destruct (floors_in ds m (m_mux m) r3) as [memos r4] eqn:Ef.
  set (halfn := nn / 2).
  destruct (residues_in ds m halfn _ 0 _ _ r4) as [pcm1 r5] eqn:Er.
  cbn [po_verdict po_W po_chans]. intros _.
  (* the selected mode and mapping are those of the well-formed set-up *)
  destruct Hwf as (_ & _ & _ & _ & _ & Hml & Hmaps & Hmol & Hmodes).
  assert (In md (s_modes (ds_setup ds))) as Hmd by (unfold md; apply nth_In; lia).
  rewrite Forall_forall in Hmodes. specialize (Hmodes md Hmd). destruct Hmodes as [Hmi _].
  assert (In m (s_maps (ds_setup ds))) as Hm by (unfold m; apply nth_In; lia).
  rewrite Forall_forall in Hmaps. specialize (Hmaps m Hm).
  destruct Hmaps as (_ & Lmux & _ & Hcoup & _).
  assert (0 <= halfn) as Hh by (unfold halfn, nn; destruct (md_blockflag md =? 1); apply Z.div_pos; lia).
  assert (length memos = length (m_mux m)) as Lmem by (pose proof (floors_in_length ds m (m_mux m) r3) as G; rewrite Ef in G; exact G).
  set (pcm0 := map (fun _ : memo => repeat fzero (Z.to_nat halfn)) memos) in *.
  assert (VL (Z.to_nat halfn) pcm0) as V0 by (unfold VL, pcm0; apply Forall_forall; intros v Hv; apply in_map_iff in Hv; destruct Hv as [? [<- _]]; apply repeat_length).
  assert (length pcm0 = length (m_mux m)) as L0 by (unfold pcm0; rewrite map_length; exact Lmem).
  apply (residues_in_VL (Z.to_nat halfn)) in Er; [|exact V0|exact L0]. destruct Er as [V1 L1].
  assert (Forall (fun p => 0 <= fst p < Z.of_nat (length pcm1) /\ 0 <= snd p < Z.of_nat (length pcm1)) (m_coupling m)) as Hc2.
  { apply Forall_forall. intros p Hp. rewrite Forall_forall in Hcoup. specialize (Hcoup p Hp). rewrite L1, L0, Lmux. lia. }
  destruct (uncouple_VL (Z.to_nat halfn) (m_coupling m) pcm1 Hc2 V1) as [V2 L2].
  set (pcm2 := uncouple (m_coupling m) pcm1) in *.
  assert (nn = (if md_blockflag md =? 1 then i_bs1 (ds_ident ds) else i_bs0 (ds_ident ds))) as En by reflexivity.
  split.
  - rewrite map_length, !combine_length, seq_length. lia.
  - apply Forall_forall. intros c Hc. apply in_map_iff in Hc. destruct Hc as [[[j mm] v] [<- Hin]].
    fold halfn. apply apply_floor_len; [exact Hh|].
    apply in_combine_r in Hin. unfold VL in V2. rewrite Forall_forall in V2. apply V2. exact Hin.
Qed.
