(* Lemmas about the decoder models (Setup.v, Codebook.v, PacketDec.v, Blocking.v). *)
From VV Require Import SrcFacts Bits Pcm Fl Setup Codebook PacketDec Blocking.
From Coq Require Import ZArith List Bool Lia ZifyBool.
Import ListNotations.
Local Open Scope Z_scope.
Ltac Zify.zify_post_hook ::= Z.div_mod_to_equations.

(* ------------------------------------------------------------------ *)
(* Huffman tree walk                                                   *)
(* ------------------------------------------------------------------ *)
Lemma hwalk_suffix : forall bs t e r, hwalk t bs = Some (e, r) -> exists p, bs = p ++ r.
Proof.
  induction bs as [|b bs IH]; intros t e r H; destruct t as [|e0|z o]; cbn in H; try discriminate.
  - inversion H; subst. exists []. reflexivity.
  - inversion H; subst. exists []. reflexivity.
  - apply IH in H. destruct H as [p Hp]. exists (b :: p). cbn. f_equal. exact Hp.
Qed.

(* every successful look-up through an inner node consumes at least one bit:
   the measure that bounds every decode loop by the packet length *)
Lemma hwalk_progress : forall bs z o e r, hwalk (HNode z o) bs = Some (e, r) -> (length r < length bs)%nat.
Proof.
  intros bs z o e r H. destruct bs as [|b bs]; cbn in H; [discriminate|].
  apply hwalk_suffix in H. destruct H as [p Hp]. rewrite Hp. cbn. rewrite app_length. lia.
Qed.

Lemma book_decode_no_growth d bs e r : book_decode d bs = (Some e, r) -> (length r <= length bs)%nat.
Proof.
  unfold book_decode. destruct (d_used d =? 0); [discriminate|].
  destruct (d_single d).
  - destruct bs as [|b bs]; intros H; inversion H; subst. cbn. lia.
  - destruct (hwalk (d_tree d) bs) as [[e' r']|] eqn:E; intros H; inversion H; subst.
    apply hwalk_suffix in E. destruct E as [p Hp]. rewrite Hp, app_length. lia.
Qed.

(* prefix relation on codewords *)
Fixpoint is_prefix (a b : list bool) : bool :=
  match a, b with
  | [], _ => true
  | x :: a', y :: b' => Bool.eqb x y && is_prefix a' b'
  | _ :: _, [] => false
  end.
Definition unrelated (a b : list bool) : Prop := is_prefix a b = false /\ is_prefix b a = false.

(* [decodes t w e]: walking t along w (followed by anything) ends in leaf e having consumed exactly w *)
Definition decodes (t : htree) (w : list bool) (e : Z) : Prop := forall rest, hwalk t (w ++ rest) = Some (e, rest).

Lemma hinsert_decodes_new : forall w t e, w <> [] ->
  (forall p e', p <> w -> is_prefix p w = true -> ~ decodes t p e') ->
  decodes (hinsert t w e) w e.
Proof.
  induction w as [|b w IH]; intros t e Hne Hfree rest; [congruence|].
  destruct w as [|b2 w2].
  - (* last bit: the child becomes the leaf *)
    cbn [hinsert app]. destruct t as [|e0|z o]; destruct b; cbn; reflexivity.
  - assert (forall t', (forall p e', p <> b2 :: w2 -> is_prefix p (b2 :: w2) = true -> ~ decodes t' p e') ->
                      decodes (hinsert t' (b2 :: w2) e) (b2 :: w2) e) as IH' by (intros t' H; apply IH; [discriminate|exact H]).
    cbn [hinsert]. destruct t as [|e0|z o].
    + destruct b; cbn [app hwalk]; apply IH'; intros p e' _ _ Hd; specialize (Hd []); destruct p; cbn in Hd; discriminate.
    + (* a leaf at the root would decode the empty word, a proper prefix of w *)
      exfalso. apply (Hfree [] e0); [discriminate|reflexivity|]. intros r. destruct r; reflexivity.
    + destruct b; cbn [app hwalk].
      * apply IH'. intros p e' Hp1 Hp2 Hd. apply (Hfree (true :: p) e'); [congruence|cbn; rewrite Hp2; reflexivity|].
        intros r. cbn. apply Hd.
      * apply IH'. intros p e' Hp1 Hp2 Hd. apply (Hfree (false :: p) e'); [congruence|cbn; rewrite Hp2; reflexivity|].
        intros r. cbn. apply Hd.
Qed.

Lemma hinsert_preserves : forall w t e v e', w <> [] -> unrelated v w -> decodes t v e' -> decodes (hinsert t w e) v e'.
Proof.
  induction w as [|b w IH]; intros t e v e' Hne [U1 U2] Hd rest; [congruence|].
  destruct v as [|c v]; [cbn in U1; discriminate|].
  specialize (Hd rest) as Hd0. cbn [app] in Hd0.
  destruct t as [|e0|z o].
  - cbn in Hd0. discriminate.
  - (* a leaf at the root decodes only the empty word *)
    cbn in Hd0. inversion Hd0 as [[E1 E2]]. exfalso. clear -E2.
    assert (length (c :: v ++ rest) = length rest) as Hl by (rewrite E2; reflexivity). cbn in Hl. rewrite app_length in Hl. lia.
  - cbn [is_prefix] in U1, U2.
    destruct w as [|b2 w2].
    + (* w = [b]: v starts with the other bit *)
      cbn [hinsert]. destruct b, c; cbn in U1, U2; try discriminate; cbn [app hwalk]; cbn in Hd0; exact Hd0.
    + cbn [hinsert]. destruct b, c; cbn [app hwalk]; cbn in Hd0; cbn [Bool.eqb andb] in U1, U2; try exact Hd0.
      * apply (IH o e v e'); [discriminate|split; assumption|]. intros r. specialize (Hd r). cbn in Hd. exact Hd.
      * apply (IH z e v e'); [discriminate|split; assumption|]. intros r. specialize (Hd r). cbn in Hd. exact Hd.
Qed.
