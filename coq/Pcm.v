(* M13: integer PCM packing of ov_read_filter (lib/vorbisfile.c) and
   vorbis_ftoi on x86-64 (lib/os.h), on exact dyadic values (definitions only). *)
From Coq Require Export List ZArith Bool Lia.
Export ListNotations.
Local Open Scope Z_scope.

(* an IEEE binary32 value, decoded exactly: Finite m e = m * 2^e *)
Inductive f32 := Finite (m e : Z) | PInf | NInf | NaN.

Definition decode_b32 (bits : Z) : f32 :=
  let sign := (bits / 2147483648) mod 2 in
  let ex := (bits / 8388608) mod 256 in
  let frac := bits mod 8388608 in
  if ex =? 255 then (if frac =? 0 then (if sign =? 1 then NInf else PInf) else NaN)
  else
    let m := if ex =? 0 then frac else 8388608 + frac in
    let e := if ex =? 0 then -149 else ex - 150 in
    Finite (if sign =? 1 then - m else m) e.

(* round to nearest, ties to even, of m * 2^e *)
Definition rne (m e : Z) : Z :=
  if 0 <=? e then m * 2 ^ e
  else
    let d := 2 ^ (- e) in
    let q := m / d in
    let r := m mod d in
    if 2 * r <? d then q
    else if 2 * r >? d then q + 1
    else if Z.even q then q else q + 1.

(* m * 2^e >= k  (k an integer) *)
Definition dy_ge (m e k : Z) : bool :=
  if 0 <=? e then m * 2 ^ e >=? k else m >=? k * 2 ^ (- e).

Definition INT_MIN : Z := -2147483648.
Definition INT_MAX : Z := 2147483647.

(* vorbis_ftoi(x * 2^sl) as compiled here: the float product is exact (or
   overflows to an infinity, which saturates the same way); cvtsd2si rounds to
   nearest even and yields INT_MIN when out of range or NaN; values >= INT_MAX
   are saturated first (the guard in lib/os.h) *)
Definition ftoi (sl : Z) (x : f32) : Z :=
  match x with
  | NaN => INT_MIN
  | PInf => INT_MAX
  | NInf => INT_MIN
  | Finite m e =>
      if dy_ge m (e + sl) INT_MAX then INT_MAX
      else let v := rne m (e + sl) in
           if v <? INT_MIN then INT_MIN else v
  end.

Definition clip (lo hi v : Z) : Z := if v >? hi then hi else if v <? lo then lo else v.

(* one sample -> bytes, for word = 1 | 2, signedness and byte order *)
Definition pack_sample (word : Z) (sgned bigendian : bool) (x : f32) : list Z :=
  if word =? 1 then
    let v := clip (-128) 127 (ftoi 7 x) in
    [(v + (if sgned then 0 else 128)) mod 256]
  else
    let v := clip (-32768) 32767 (ftoi 15 x) in
    let u := (v + (if sgned then 0 else 32768)) mod 65536 in
    if bigendian then [u / 256; u mod 256] else [u mod 256; u / 256].

(* what an application reads back from those bytes *)
Definition unpack_sample (word : Z) (sgned bigendian : bool) (bs : list Z) : option Z :=
  match word, bs with
  | 1, [b] => Some (if sgned then (if b >=? 128 then b - 256 else b) else b - 128)
  | 2, [b0; b1] =>
      let u := if bigendian then b0 * 256 + b1 else b1 * 256 + b0 in
      Some (if sgned then (if u >=? 32768 then u - 65536 else u) else u - 32768)
  | _, _ => None
  end.

(* frames: [chans] = list of channels, each a list of samples *)
Fixpoint frame_at (chans : list (list f32)) (j : nat) : list f32 :=
  match chans with
  | [] => []
  | c :: r => nth j c NaN :: frame_at r j
  end.

Definition pack_frames (word : Z) (sgned bigendian : bool) (chans : list (list f32)) (samples : nat) : list Z :=
  flat_map (fun j => flat_map (pack_sample word sgned bigendian) (frame_at chans j)) (seq 0 samples).

(* C division of ints (truncates toward zero) *)
Definition cdiv (a b : Z) : Z := Z.quot a b.

(* ov_read_filter once [avail] > 0 samples are pending: returns
   (return value, samples consumed).  OV_EINVAL = -131. *)
Definition read_frames (avail length word channels : Z) : Z * Z :=
  if word <=? 0 then (-131, 0)
  else if (channels <? 1) || (channels >? 255) then (-131, 0)
  else
    let bps := word * channels in
    let samples := if avail >? cdiv length bps then cdiv length bps else avail in
    if samples <=? 0 then (-131, 0) else (samples * bps, samples).
