(* ov_read_float: what the application asks for per call does not matter (lemmas for C10).
   A read is "fetch until something is pending" (independent of the requested length) followed by
   "hand out min(pending, length)"; consuming T samples in the canonical way is additive in T, and
   every history of successful reads is the canonical consumption of what it delivered. *)
From VV Require Import Blocking VFile VFile_lemmas Term_lemmas.
From Coq Require Import ZArith List Bool Lia.
Import ListNotations.
Local Open Scope Z_scope.

(* ov_read_float = "fetch until something is pending" (independent of the requested length) + "hand out
   min(pending, length)" *)
Definition pending (s : vfs) : Z := if v_rs s =? INITSET then dec_pcmout (v_dec s) else 0.
Definition take (s : vfs) (n : Z) : vfs :=
  set_pcm (set_dec s (snd (dec_read (v_dec s) n))) (v_pcm s + Z.shiftl n (v_hs s)).
Inductive primed := PReady (s : vfs) | PDone (rc : Z) (s : vfs) | PFuel (s : vfs).
Fixpoint prime (fuel : nat) (s : vfs) : primed :=
  match fuel with
  | O => PFuel s
  | S f =>
      if negb (pending s =? 0) then PReady s
      else match fetch (fetch_fuel s) s with
           | (rc, s1) => if rc =? OV_EOF_ then PDone 0 s1 else if rc <=? 0 then PDone rc s1 else prime f s1
           end
  end.
Definition hand (sp : vfs) (len : Z) : Z * Z * vfs :=
  let n := if pending sp >? len then len else pending sp in (n, v_link sp, take sp n).

Lemma read_prime : forall fuel s len,
  read_float fuel s len = match prime fuel s with
                          | PReady sp => hand sp len
                          | PDone rc s1 => (rc, -1, s1)
                          | PFuel s' => (OUT_OF_FUEL, -1, s')
                          end.
Proof.
  induction fuel as [|f IH]; intros s len; [reflexivity|].
  cbn [read_float prime]. unfold pending.
  destruct (negb ((if v_rs s =? INITSET then dec_pcmout (v_dec s) else 0) =? 0)) eqn:E.
  - unfold hand, take, pending. destruct (dec_read _ _) as [x d] eqn:Ed.
    replace d with (snd (dec_read (v_dec s) (if (if v_rs s =? INITSET then dec_pcmout (v_dec s) else 0) >? len then len else if v_rs s =? INITSET then dec_pcmout (v_dec s) else 0))) by (rewrite Ed; reflexivity).
    reflexivity.
  - destruct (fetch (fetch_fuel s) s) as [rc s1].
    destruct (rc =? OV_EOF_); [reflexivity|]. destruct (rc <=? 0); [reflexivity|]. apply IH.
Qed.

Lemma pending_nonneg s : 0 <= pending s.
Proof. unfold pending. destruct (v_rs s =? INITSET); [|lia]. unfold dec_pcmout. destruct ((d_ret (v_dec s) >? -1) && (d_ret (v_dec s) <? d_cur (v_dec s))) eqn:E; lia. Qed.

(* taking a then b of what is pending = taking a + b *)
Lemma take_take s a b : 0 <= v_hs s -> 0 <= a -> 0 <= b -> a + b <= pending s -> 0 < pending s ->
  take (take s a) b = take s (a + b).
Proof.
  intros Hh Ha Hb Hab Hp. unfold take. cbn [v_dec v_pcm v_hs set_pcm set_dec].
  unfold pending in *. destruct (v_rs s =? INITSET); [|lia].
  rewrite dec_read_add by lia. rewrite !Z.shiftl_mul_pow2 by lia.
  replace (v_pcm s + a * 2 ^ v_hs s + b * 2 ^ v_hs s) with (v_pcm s + (a + b) * 2 ^ v_hs s) by lia. reflexivity.
Qed.
Lemma pending_take s a : 0 <= a <= pending s -> 0 < pending s -> pending (take s a) = pending s - a.
Proof.
  intros Ha Hp. unfold pending in *. unfold take. cbn [v_rs v_dec set_pcm set_dec].
  destruct (v_rs s =? INITSET); [|lia]. apply dec_read_pcmout; lia.
Qed.


(* the canonical way to consume T samples: keep asking for all that is still wanted *)
Fixpoint canon (fuel : nat) (s : vfs) (T : Z) : option vfs :=
  if T <=? 0 then Some s else
  match fuel with
  | O => None
  | S f => match read_float (read_fuel s) s T with
           | (n, _, s') => if n <=? 0 then None else canon f s' (T - n)
           end
  end.

Lemma canon_zero f s T : T <= 0 -> canon f s T = Some s.
Proof. intros H. destruct f; cbn [canon]; assert ((T <=? 0) = true) as -> by lia; reflexivity. Qed.

Lemma canon_S f s T : 0 < T -> canon (S f) s T =
  match read_float (read_fuel s) s T with (n, _, s') => if n <=? 0 then None else canon f s' (T - n) end.
Proof. intros H. cbn [canon]. assert ((T <=? 0) = false) as -> by lia. reflexivity. Qed.

Lemma prime_done_rc : forall fuel s rc s1, prime fuel s = PDone rc s1 -> rc <= 0.
Proof.
  induction fuel as [|f IH]; intros s rc s1 Ep; cbn [prime] in Ep; [discriminate|].
  destruct (negb (pending s =? 0)); [discriminate|]. destruct (fetch (fetch_fuel s) s) as [rc2 s2].
  destruct (rc2 =? OV_EOF_); [inversion Ep; lia|]. destruct (rc2 <=? 0) eqn:E; [inversion Ep; lia|]. eapply IH. exact Ep.
Qed.

Lemma read_positive s len n lk s' :
  read_float (read_fuel s) s len = (n, lk, s') -> 0 < n ->
  exists sp, prime (read_fuel s) s = PReady sp /\ 0 < pending sp /\
             n = (if pending sp >? len then len else pending sp) /\ s' = take sp n /\ lk = v_link sp.
Proof.
  rewrite read_prime. destruct (prime (read_fuel s) s) as [sp|rc s1|s1] eqn:Ep.
  - unfold hand. intros H Hn. inversion H; subst. exists sp. split; [reflexivity|]. split; [|repeat split; reflexivity].
    pose proof (pending_nonneg sp). destruct (pending sp >? len) eqn:E; lia.
  - intros H Hn. inversion H; subst. exfalso.
    (* a Done result carries rc <= 0 *)
    clear - Ep Hn. revert Ep. generalize (read_fuel s). intros fuel. revert s.
    induction fuel as [|f IH]; intros s Ep; cbn [prime] in Ep; [discriminate|].
    destruct (negb (pending s =? 0)); [discriminate|]. destruct (fetch (fetch_fuel s) s) as [rc s2].
    destruct (rc =? OV_EOF_); [inversion Ep; lia|]. destruct (rc <=? 0) eqn:E; [inversion Ep; lia|]. eapply IH. exact Ep.
  - intros H Hn. inversion H; subst. unfold OUT_OF_FUEL in Hn. lia.
Qed.

Lemma prime_ready_self f s : 0 < pending s -> prime (S f) s = PReady s.
Proof. intros H. cbn [prime]. assert (negb (pending s =? 0) = true) as -> by lia. reflexivity. Qed.
Lemma read_fuel_pos s : exists f, read_fuel s = S f.
Proof. unfold read_fuel. exists (pkt_count (v_rem s) + length (v_q s) + 2)%nat. lia. Qed.


Lemma canon_fuel : forall f g s T, (Z.to_nat T <= f)%nat -> (Z.to_nat T <= g)%nat -> canon f s T = canon g s T.
Proof.
  induction f as [|f IH]; intros g s T Hf Hg.
  - assert (T <= 0) by lia. rewrite !canon_zero by assumption. reflexivity.
  - destruct (Z_le_gt_dec T 0) as [H0|H0]; [rewrite !canon_zero by assumption; reflexivity|].
    destruct g as [|g]; [lia|]. cbn [canon]. assert ((T <=? 0) = false) as -> by lia.
    destruct (read_float (read_fuel s) s T) as [[n lk] s']. destruct (n <=? 0) eqn:En; [reflexivity|].
    apply IH; lia.
Qed.

Lemma take_hs s n : v_hs (take s n) = v_hs s. Proof. reflexivity. Qed.

(* consuming a + b = consuming a, then b *)
Lemma canon_add : forall f s a b,
  0 <= v_hs s -> 0 <= a -> 0 <= b -> (Z.to_nat (a + b) <= f)%nat ->
  canon f s (a + b) = match canon f s a with Some s' => canon f s' b | None => None end.
Proof.
  induction f as [|f IH]; intros s a b Hh Ha Hb Hf.
  - assert (a = 0 /\ b = 0) as [-> ->] by lia. cbn. reflexivity.
  - destruct (Z.eq_dec a 0) as [->|Hna].
    { rewrite (canon_zero (S f) s 0) by lia. reflexivity. }
    destruct (Z.eq_dec b 0) as [->|Hnb].
    { rewrite Z.add_0_r. destruct (canon (S f) s a) as [s'|]; [rewrite canon_zero by lia; reflexivity|reflexivity]. }
    rewrite (canon_S f s (a + b)), (canon_S f s a) by lia.
    destruct (read_float (read_fuel s) s (a + b)) as [[n1 lk1] s1] eqn:E1.
    destruct (read_float (read_fuel s) s a) as [[n2 lk2] s2] eqn:E2.
    rewrite read_prime in E1, E2.
    destruct (prime (read_fuel s) s) as [sp|rc sx|sx] eqn:Ep.
    + unfold hand in E1, E2. inversion E1; subst n1 lk1 s1. inversion E2; subst n2 lk2 s2. clear E1 E2.
      pose proof (pending_nonneg sp) as Hp0.
      destruct (Z.eq_dec (pending sp) 0) as [Hz|Hnz].
      { rewrite Hz. assert ((0 >? a + b) = false) as -> by lia. assert ((0 >? a) = false) as -> by lia. reflexivity. }
      set (p := pending sp) in *.
      assert (v_hs sp = v_hs s) as Hhsp.
      { (* priming keeps the half-rate flag *)
        clear - Ep. revert Ep. generalize (read_fuel s). intros fuel. revert s.
        induction fuel as [|g IHg]; intros s Ep; cbn [prime] in Ep; [discriminate|].
        destruct (negb (pending s =? 0)); [inversion Ep; reflexivity|].
        pose proof (fetch_hs (fetch_fuel s) s) as Hfh.
        destruct (fetch (fetch_fuel s) s) as [rc s2]. cbn [snd] in Hfh.
        destruct (rc =? OV_EOF_); [discriminate|]. destruct (rc <=? 0); [discriminate|]. rewrite (IHg s2 Ep). exact Hfh. }
      destruct (Z_le_gt_dec p a) as [Hpa|Hpa].
      * (* everything pending goes either way *)
        assert ((p >? a + b) = false) as -> by lia. assert ((p >? a) = false) as -> by lia.
        assert ((p <=? 0) = false) as -> by lia.
        replace (a + b - p) with ((a - p) + b) by lia.
        rewrite (IH (take sp p) (a - p) b); try lia; [|rewrite take_hs, Hhsp; exact Hh].
        destruct (canon f (take sp p) (a - p)) as [s'|]; [|reflexivity].
        apply canon_fuel; lia.
      * assert ((p >? a) = true) as -> by lia. assert ((a <=? 0) = false) as -> by lia.
        rewrite Z.sub_diag. rewrite (canon_zero f (take sp a) 0) by lia.
        (* the second part starts with what is still pending *)
        rewrite (canon_S f (take sp a) b) by lia.
        assert (pending (take sp a) = p - a) as Hpt by (apply pending_take; fold p; lia).
        destruct (read_fuel_pos (take sp a)) as [g Hg]. rewrite read_prime, Hg, prime_ready_self by (rewrite Hpt; lia).
        unfold hand. rewrite Hpt.
        set (n3 := if p - a >? b then b else p - a).
        assert ((if p >? a + b then a + b else p) = a + n3) as -> by (unfold n3; destruct (p >? a + b) eqn:Ea; destruct (p - a >? b) eqn:Eb; lia).
        assert (0 < n3 <= p - a) as Hn3 by (unfold n3; destruct (p - a >? b) eqn:Eb; lia).
        assert ((a + n3 <=? 0) = false) as -> by lia. assert ((n3 <=? 0) = false) as -> by lia.
        rewrite take_take by (fold p; try lia; rewrite Hhsp; exact Hh).
        replace (a + b - (a + n3)) with (b - n3) by lia. reflexivity.
    + inversion E1; subst. inversion E2; subst. pose proof (prime_done_rc _ _ _ _ Ep). assert ((n2 <=? 0) = true) as -> by lia. reflexivity.
    + inversion E1; subst. inversion E2; subst. reflexivity.
Qed.


Lemma prime_hs : forall fuel s sp, prime fuel s = PReady sp -> v_hs sp = v_hs s.
Proof.
  induction fuel as [|g IHg]; intros s sp Ep; cbn [prime] in Ep; [discriminate|].
  destruct (negb (pending s =? 0)); [inversion Ep; reflexivity|].
  pose proof (fetch_hs (fetch_fuel s) s) as Hfh.
  destruct (fetch (fetch_fuel s) s) as [rc s2]. cbn [snd] in Hfh.
  destruct (rc =? OV_EOF_); [discriminate|]. destruct (rc <=? 0); [discriminate|]. rewrite (IHg s2 sp Ep). exact Hfh.
Qed.

(* one successful read is the canonical consumption of what it returned *)
Lemma read_is_canon f s len n lk s' :
  read_float (read_fuel s) s len = (n, lk, s') -> 0 < n -> canon (S f) s n = Some s' /\ v_hs s' = v_hs s.
Proof.
  intros H Hn. destruct (read_positive s len n lk s' H Hn) as (sp & Ep & Hp & Hmin & Hs' & _).
  rewrite canon_S by lia. rewrite read_prime, Ep. unfold hand.
  assert (n <= pending sp) by (rewrite Hmin; destruct (pending sp >? len) eqn:E; lia).
  assert ((if pending sp >? n then n else pending sp) = n) as -> by (destruct (pending sp >? n) eqn:E; lia).
  assert ((n <=? 0) = false) as -> by lia. rewrite Z.sub_diag, canon_zero by lia. rewrite Hs'.
  split; [reflexivity|]. rewrite take_hs. eapply prime_hs. exact Ep.
Qed.

(* a history of reads with arbitrary requested lengths *)
Fixpoint reads (s : vfs) (reqs : list Z) : option (Z * vfs) :=
  match reqs with
  | [] => Some (0, s)
  | r :: rest =>
      match read_float (read_fuel s) s r with
      | (n, _, s') => if n <=? 0 then None
                      else match reads s' rest with Some (t, s'') => Some (n + t, s'') | None => None end
      end
  end.

Theorem reads_canon : forall reqs s t s',
  0 <= v_hs s -> reads s reqs = Some (t, s') -> 0 <= t /\ canon (Z.to_nat t) s t = Some s'.
Proof.
  induction reqs as [|r rest IH]; intros s t s' Hh H; cbn [reads] in H.
  - inversion H; subst. split; [lia|]. apply canon_zero. lia.
  - destruct (read_float (read_fuel s) s r) as [[n lk] s1] eqn:Er. destruct (n <=? 0) eqn:En; [discriminate|].
    destruct (reads s1 rest) as [[t1 s2]|] eqn:Erest; [|discriminate]. inversion H; subst t s'. clear H.
    destruct (read_is_canon (Z.to_nat (n + t1)) s r n lk s1 Er ltac:(lia)) as [Hc Hh1].
    destruct (IH s1 t1 s2 ltac:(rewrite Hh1; exact Hh) Erest) as [Ht1 Hc1].
    split; [lia|].
    assert (0 < n) as Hn by lia.
    rewrite (canon_fuel (Z.to_nat (n + t1)) (S (Z.to_nat (n + t1))) s (n + t1)); [|lia|lia].
    rewrite canon_add; [|exact Hh|lia|exact Ht1|lia]. rewrite Hc.
    rewrite (canon_fuel (S (Z.to_nat (n + t1))) (Z.to_nat t1) s1 t1); [exact Hc1|lia|lia].
Qed.

(* what the application asks for per call does not matter: two histories of successful reads that delivered the
   same number of samples leave the handle in the same state (position, decoder, queue, file cursor) *)
Theorem request_lengths_do_not_matter : forall s reqs1 reqs2 t s1 s2,
  0 <= v_hs s -> reads s reqs1 = Some (t, s1) -> reads s reqs2 = Some (t, s2) -> s1 = s2.
Proof.
  intros s reqs1 reqs2 t s1 s2 Hh H1 H2.
  destruct (reads_canon reqs1 s t s1 Hh H1) as [_ C1]. destruct (reads_canon reqs2 s t s2 Hh H2) as [_ C2].
  rewrite C1 in C2. inversion C2. reflexivity.
Qed.
