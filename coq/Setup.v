(* M2: the three Vorbis headers as lib/info.c, lib/codebook.c, lib/floor0.c,
   lib/floor1.c, lib/res0.c and lib/mapping0.c unpack them: every field, every
   range check, the verdict of vorbis_synthesis_headerin for arbitrary packet
   bytes in arbitrary order.  Definitions only.
   Reading is strict: libogg's reader is sticky after the first read past the
   end and every header ends in a checked read, so "some read failed" and
   "rejected" coincide (the correspondence run checks exactly this on
   truncated and mutated headers). *)
From VV Require Import SrcFacts Bits Comment.
From Coq Require Import ZArith List Bool.
Import ListNotations.
Local Open Scope Z_scope.

(* ------------------------------------------------------------------ *)
(* option monad over a bit reader                                      *)
(* ------------------------------------------------------------------ *)
(* the next w bits as a number (LSb first) and the rest; None past the end.
   Written without [length] so that a read costs O(w). *)
Fixpoint rd_acc (w : nat) (bs : bits) (k : Z) (acc : Z) : option (Z * bits) :=
  match w with
  | O => Some (acc, bs)
  | S w' => match bs with
            | [] => None
            | b :: r => rd_acc w' r (2 * k) (if b then acc + k else acc)
            end
  end.
Definition rd (w : nat) (bs : bits) : option (Z * bits) := rd_acc w bs 1 0.

Notation "'let?' ( x , r ) ':=' e 'in' k" :=
  (match e with Some (x, r) => k | None => None end) (at level 200, x name, r name, e at level 100, k at level 200).

Fixpoint ilog_fuel (fuel : nat) (v : Z) : Z :=
  match fuel with O => 0 | S f => if v <=? 0 then 0 else 1 + ilog_fuel f (v / 2) end.
(* ov_ilog on a 32-bit unsigned argument; a negative int converts to >= 2^31 *)
Definition ilog (v : Z) : Z := if v <? 0 then 32 else ilog_fuel 40 v.
Definition ilogn (v : Z) : nat := Z.to_nat (ilog v).

(* bytes left: opb->storage - oggpack_bytes(opb) *)
Definition bytes_left (bs : bits) : Z := Z.of_nat (length bs) / 8.

(* ------------------------------------------------------------------ *)
(* codebooks                                                           *)
(* ------------------------------------------------------------------ *)
Record book := {
  b_dim : Z; b_entries : Z; b_lengths : list Z;   (* 0 = unused entry *)
  b_maptype : Z; b_qmin : Z; b_qdelta : Z; b_qquant : Z; b_qseq : Z; b_quantlist : list Z }.

(* b^d <= cap for cap < 2^25 *)
Definition pow_le (b d cap : Z) : bool :=
  if b <=? 1 then true else if d >? 25 then false else b ^ d <=? cap.
Fixpoint iroot_fuel (fuel : nat) (lo hi d cap : Z) : Z :=
  match fuel with
  | O => lo
  | S f => if hi - lo <=? 1 then lo
           else let mid := (lo + hi) / 2 in
                if pow_le mid d cap then iroot_fuel f mid hi d cap else iroot_fuel f lo mid d cap
  end.
(* _book_maptype1_quantvals: the greatest vals with vals^dim <= entries;
   0 when entries < 1 or dim < 1 *)
Definition quantvals1 (entries dim : Z) : Z :=
  if (entries <? 1) || (dim <? 1) then 0 else iroot_fuel 40 1 (entries + 1) dim entries.

Fixpoint rd_list (n : nat) (w : nat) (bs : bits) : option (list Z * bits) :=
  match n with
  | O => Some ([], bs)
  | S k => let? (v, r) := rd w bs in let? (l, r2) := rd_list k w r in Some (v :: l, r2)
  end.

Fixpoint rd_lengths_sparse (n : nat) (bs : bits) : option (list Z * bits) :=
  match n with
  | O => Some ([], bs)
  | S k => let? (f, r) := rd 1 bs in
           if f =? 1 then let? (v, r1) := rd 5 r in let? (l, r2) := rd_lengths_sparse k r1 in Some (v + 1 :: l, r2)
           else let? (l, r2) := rd_lengths_sparse k r in Some (0 :: l, r2)
  end.

(* the ordered-length loop: for(i=0;i<entries;){ num=read(ilog(entries-i)); checks; fill; length++ } *)
Fixpoint rd_ordered (fuel : nat) (entries i length : Z) (bs : bits) : option (list Z * bits) :=
  match fuel with
  | O => None
  | S f =>
      if i >=? entries then Some ([], bs)
      else let? (num, r) := rd (ilogn (entries - i)) bs in
           if (length >? 32) || (num >? entries - i) || ((num >? 0) && (Z.shiftr (num - 1) (length - 1) >? 1)) then None
           else let? (l, r2) := rd_ordered f entries (i + num) (length + 1) r in
                Some (repeat length (Z.to_nat num) ++ l, r2)
  end.

Definition unpack_book (bs : bits) : option (book * bits) :=
  let? (sync, r0) := rd 24 bs in
  if negb (sync =? 5653314) then None else     (* 0x564342 *)
  let? (dim, r1) := rd 16 r0 in
  let? (entries, r2) := rd 24 r1 in
  if ilog dim + ilog entries >? 24 then None else
  let? (ordered, r3) := rd 1 r2 in
  let? (lens, r4) :=
    (if ordered =? 0 then
       let? (unused, r) := rd 1 r3 in
       if (entries * (if unused =? 1 then 1 else 5) + 7) / 8 >? bytes_left r then None
       else if unused =? 1 then rd_lengths_sparse (Z.to_nat entries) r
       else let? (l, r') := rd_list (Z.to_nat entries) 5 r in Some (map (fun x => x + 1) l, r')
     else
       let? (l0, r) := rd 5 r3 in
       rd_ordered 40 entries 0 (l0 + 1) r) in
  let? (maptype, r5) := rd 4 r4 in
  if maptype =? 0 then
    Some ({| b_dim := dim; b_entries := entries; b_lengths := lens; b_maptype := 0;
             b_qmin := 0; b_qdelta := 0; b_qquant := 0; b_qseq := 0; b_quantlist := [] |}, r5)
  else if (maptype =? 1) || (maptype =? 2) then
    let? (qmin, r6) := rd 32 r5 in
    let? (qdelta, r7) := rd 32 r6 in
    let? (qq, r8) := rd 4 r7 in
    let? (qseq, r9) := rd 1 r8 in
    let quantvals := if maptype =? 1 then (if dim =? 0 then 0 else quantvals1 entries dim) else entries * dim in
    if (quantvals * (qq + 1) + 7) / 8 >? bytes_left r9 then None else
    let? (ql, r10) := rd_list (Z.to_nat quantvals) (Z.to_nat (qq + 1)) r9 in
    Some ({| b_dim := dim; b_entries := entries; b_lengths := lens; b_maptype := maptype;
             b_qmin := qmin; b_qdelta := qdelta; b_qquant := qq + 1; b_qseq := qseq; b_quantlist := ql |}, r10)
  else None.

(* ------------------------------------------------------------------ *)
(* floors                                                              *)
(* ------------------------------------------------------------------ *)
Record fclass := { c_dim : Z; c_subs : Z; c_book : Z; c_subbook : list Z }.   (* subbook: -1 = none *)
Inductive floor :=
| Floor0 (order rate barkmap ampbits ampdB : Z) (books : list Z)
| Floor1 (partclass : list Z) (classes : list fclass) (mult rangebits : Z) (posts : list Z).  (* posts: postlist[2..] *)

Definition bk (books : list book) (i : Z) : book :=
  nth (Z.to_nat i) books {| b_dim := 0; b_entries := 0; b_lengths := []; b_maptype := 0; b_qmin := 0; b_qdelta := 0; b_qquant := 0; b_qseq := 0; b_quantlist := [] |}.
Definition nbooks (books : list book) : Z := Z.of_nat (length books).

Fixpoint rd_floor0_books (n : nat) (books : list book) (bs : bits) : option (list Z * bits) :=
  match n with
  | O => Some ([], bs)
  | S k => let? (b, r) := rd 8 bs in
           if (b >=? nbooks books) || (b_maptype (bk books b) =? 0) || (b_dim (bk books b) <? 1) then None
           else let? (l, r2) := rd_floor0_books k books r in Some (b :: l, r2)
  end.

Definition unpack_floor0 (books : list book) (bs : bits) : option (floor * bits) :=
  let? (order, r1) := rd 8 bs in
  let? (rate, r2) := rd 16 r1 in
  let? (barkmap, r3) := rd 16 r2 in
  let? (ampbits, r4) := rd 6 r3 in
  let? (ampdB, r5) := rd 8 r4 in
  let? (nb, r6) := rd 4 r5 in
  if (order <? 1) || (rate <? 1) || (barkmap <? 1) then None else
  let? (bl, r7) := rd_floor0_books (Z.to_nat (nb + 1)) books r6 in
  Some (Floor0 order rate barkmap ampbits ampdB bl, r7).

Fixpoint rd_subbooks (n : nat) (nb : Z) (bs : bits) : option (list Z * bits) :=
  match n with
  | O => Some ([], bs)
  | S k => let? (v, r) := rd 8 bs in
           if v - 1 >=? nb then None
           else let? (l, r2) := rd_subbooks k nb r in Some (v - 1 :: l, r2)
  end.

Fixpoint rd_classes (n : nat) (nb : Z) (bs : bits) : option (list fclass * bits) :=
  match n with
  | O => Some ([], bs)
  | S k =>
      let? (d, r1) := rd 3 bs in
      let? (subs, r2) := rd 2 r1 in
      let? (cb, r3) := (if subs =? 0 then Some (0, r2) else rd 8 r2) in
      if cb >=? nb then None else
      let? (sb, r4) := rd_subbooks (Z.to_nat (2 ^ subs)) nb r3 in
      let? (l, r5) := rd_classes k nb r4 in
      Some ({| c_dim := d + 1; c_subs := subs; c_book := cb; c_subbook := sb |} :: l, r5)
  end.

Definition cls (classes : list fclass) (i : Z) : fclass :=
  nth (Z.to_nat i) classes {| c_dim := 0; c_subs := 0; c_book := 0; c_subbook := [] |}.

(* the post list, partition by partition: count must not exceed VIF_POSIT *)
Fixpoint rd_posts (pc : list Z) (classes : list fclass) (rangebits : nat) (count : Z) (bs : bits) : option (list Z * bits) :=
  match pc with
  | [] => Some ([], bs)
  | c :: rest =>
      let count' := count + c_dim (cls classes c) in
      if count' >? VIF_POSIT then None
      else let? (l, r) := rd_list (Z.to_nat (c_dim (cls classes c))) rangebits bs in
           let? (l2, r2) := rd_posts rest classes rangebits count' r in Some (l ++ l2, r2)
  end.

Fixpoint zmax_list (l : list Z) (acc : Z) : Z :=
  match l with [] => acc | x :: r => zmax_list r (Z.max acc x) end.
Fixpoint zmem (x : Z) (l : list Z) : bool :=
  match l with [] => false | y :: r => (x =? y) || zmem x r end.
Fixpoint nodupb (l : list Z) : bool :=
  match l with [] => true | x :: r => negb (zmem x r) && nodupb r end.

Definition unpack_floor1 (books : list book) (bs : bits) : option (floor * bits) :=
  let? (parts, r1) := rd 5 bs in
  let? (pc, r2) := rd_list (Z.to_nat parts) 4 r1 in
  let maxclass := zmax_list pc (-1) in
  let? (classes, r3) := rd_classes (Z.to_nat (maxclass + 1)) (nbooks books) r2 in
  let? (mult, r4) := rd 2 r3 in
  let? (rangebits, r5) := rd 4 r4 in
  let? (posts, r6) := rd_posts pc classes (Z.to_nat rangebits) 0 r5 in
  if nodupb (0 :: 2 ^ rangebits :: posts) then Some (Floor1 pc classes (mult + 1) rangebits posts, r6) else None.

(* ------------------------------------------------------------------ *)
(* residues                                                            *)
(* ------------------------------------------------------------------ *)
Record residue := {
  r_type : Z; r_begin : Z; r_end : Z; r_grouping : Z; r_partitions : Z; r_groupbook : Z;
  r_secondstages : list Z; r_booklist : list Z; r_partvals : Z }.

Fixpoint icount_fuel (fuel : nat) (v : Z) : Z :=
  match fuel with O => 0 | S f => if v <=? 0 then 0 else v mod 2 + icount_fuel f (v / 2) end.
Definition icount (v : Z) : Z := icount_fuel 16 v.

Fixpoint rd_cascade (n : nat) (bs : bits) : option (list Z * bits) :=
  match n with
  | O => Some ([], bs)
  | S k => let? (c, r1) := rd 3 bs in
           let? (f, r2) := rd 1 r1 in
           let? (cc, r3) := (if f =? 1 then (let? (c5, r) := rd 5 r2 in Some (c + c5 * 8, r)) else Some (c, r2)) in
           let? (l, r4) := rd_cascade k r3 in Some (cc :: l, r4)
  end.

(* partvals = partitions^dim, refusing as soon as it exceeds the phrasebook's entries *)
Fixpoint partvals_fuel (fuel : nat) (dim partitions entries acc : Z) : option Z :=
  match fuel with
  | O => None
  | S f => if dim <=? 0 then Some acc
           else let acc' := acc * partitions in
                if acc' >? entries then None else partvals_fuel f (dim - 1) partitions entries acc'
  end.

Definition unpack_residue (rtype : Z) (books : list book) (bs : bits) : option (residue * bits) :=
  let? (begin, r1) := rd 24 bs in
  let? (end_, r2) := rd 24 r1 in
  let? (grouping, r3) := rd 24 r2 in
  let? (parts, r4) := rd 6 r3 in
  let? (groupbook, r5) := rd 8 r4 in
  let? (casc, r6) := rd_cascade (Z.to_nat (parts + 1)) r5 in
  let acc := fold_left (fun a c => a + icount c) casc 0 in
  let? (bl, r7) := rd_list (Z.to_nat acc) 8 r6 in
  if groupbook >=? nbooks books then None else
  if existsb (fun b => (b >=? nbooks books) || (b_maptype (bk books b) =? 0) || (b_dim (bk books b) <? 1)) bl then None else
  let gb := bk books groupbook in
  if b_dim gb <? 1 then None else
  (* dim <= 65535 but the product exceeds entries (< 2^24) after at most 24
     steps unless partitions = 1 *)
  match (if parts + 1 =? 1 then Some 1 else partvals_fuel 30 (b_dim gb) (parts + 1) (b_entries gb) 1) with
  | None => None
  | Some pv =>
      if (parts + 1 =? 1) && (1 >? b_entries gb) then None else
      Some ({| r_type := rtype; r_begin := begin; r_end := end_; r_grouping := grouping + 1; r_partitions := parts + 1;
               r_groupbook := groupbook; r_secondstages := casc; r_booklist := bl; r_partvals := pv |}, r7)
  end.

(* ------------------------------------------------------------------ *)
(* mappings and modes                                                  *)
(* ------------------------------------------------------------------ *)
Record mapping := {
  m_submaps : Z; m_coupling : list (Z * Z); m_mux : list Z; m_floor : list Z; m_residue : list Z }.
Record mode := { md_blockflag : Z; md_mapping : Z }.

Fixpoint rd_coupling (n : nat) (channels : Z) (bs : bits) : option (list (Z * Z) * bits) :=
  match n with
  | O => Some ([], bs)
  | S k => let? (m, r1) := rd (ilogn (channels - 1)) bs in
           let? (a, r2) := rd (ilogn (channels - 1)) r1 in
           if (m =? a) || (m >=? channels) || (a >=? channels) then None
           else let? (l, r3) := rd_coupling k channels r2 in Some ((m, a) :: l, r3)
  end.
Fixpoint rd_mux (n : nat) (submaps : Z) (bs : bits) : option (list Z * bits) :=
  match n with
  | O => Some ([], bs)
  | S k => let? (v, r) := rd 4 bs in
           if v >=? submaps then None else let? (l, r2) := rd_mux k submaps r in Some (v :: l, r2)
  end.
Fixpoint rd_submaps (n : nat) (floors residues : Z) (bs : bits) : option (list (Z * Z) * bits) :=
  match n with
  | O => Some ([], bs)
  | S k => let? (t, r0) := rd 8 bs in
           let? (f, r1) := rd 8 r0 in
           if f >=? floors then None else
           let? (rs, r2) := rd 8 r1 in
           if rs >=? residues then None else
           let? (l, r3) := rd_submaps k floors residues r2 in Some ((f, rs) :: l, r3)
  end.

Definition unpack_mapping (channels floors residues : Z) (bs : bits) : option (mapping * bits) :=
  if channels <=? 0 then None else
  let? (b1, r1) := rd 1 bs in
  let? (submaps, r2) := (if b1 =? 1 then (let? (s, r) := rd 4 r1 in Some (s + 1, r)) else Some (1, r1)) in
  let? (b2, r3) := rd 1 r2 in
  let? (coupling, r4) := (if b2 =? 1 then (let? (s, r) := rd 8 r3 in rd_coupling (Z.to_nat (s + 1)) channels r) else Some ([], r3)) in
  let? (reserved, r5) := rd 2 r4 in
  if negb (reserved =? 0) then None else
  let? (mux, r6) := (if submaps >? 1 then rd_mux (Z.to_nat channels) submaps r5 else Some (repeat 0 (Z.to_nat channels), r5)) in
  let? (subs, r7) := rd_submaps (Z.to_nat submaps) floors residues r6 in
  Some ({| m_submaps := submaps; m_coupling := coupling; m_mux := mux; m_floor := map fst subs; m_residue := map snd subs |}, r7).

(* ------------------------------------------------------------------ *)
(* the setup header (after the 7-byte packet head)                      *)
(* ------------------------------------------------------------------ *)
Record setup := {
  s_books : list book; s_floors : list floor; s_residues : list residue; s_maps : list mapping; s_modes : list mode }.

Fixpoint rd_books (n : nat) (bs : bits) : option (list book * bits) :=
  match n with
  | O => Some ([], bs)
  | S k => let? (b, r) := unpack_book bs in let? (l, r2) := rd_books k r in Some (b :: l, r2)
  end.
Fixpoint rd_times (n : nat) (bs : bits) : option (unit * bits) :=
  match n with
  | O => Some (tt, bs)
  | S k => let? (t, r) := rd 16 bs in if t >=? VI_TIMEB then None else rd_times k r
  end.
Fixpoint rd_floors (n : nat) (books : list book) (bs : bits) : option (list floor * bits) :=
  match n with
  | O => Some ([], bs)
  | S k => let? (t, r) := rd 16 bs in
           if t >=? VI_FLOORB then None else
           let? (f, r1) := (if t =? 0 then unpack_floor0 books r else unpack_floor1 books r) in
           let? (l, r2) := rd_floors k books r1 in Some (f :: l, r2)
  end.
Fixpoint rd_residues (n : nat) (books : list book) (bs : bits) : option (list residue * bits) :=
  match n with
  | O => Some ([], bs)
  | S k => let? (t, r) := rd 16 bs in
           if t >=? VI_RESB then None else
           let? (x, r1) := unpack_residue t books r in
           let? (l, r2) := rd_residues k books r1 in Some (x :: l, r2)
  end.
Fixpoint rd_maps (n : nat) (channels floors residues : Z) (bs : bits) : option (list mapping * bits) :=
  match n with
  | O => Some ([], bs)
  | S k => let? (t, r) := rd 16 bs in
           if t >=? VI_MAPB then None else
           let? (x, r1) := unpack_mapping channels floors residues r in
           let? (l, r2) := rd_maps k channels floors residues r1 in Some (x :: l, r2)
  end.
Fixpoint rd_modes (n : nat) (maps : Z) (bs : bits) : option (list mode * bits) :=
  match n with
  | O => Some ([], bs)
  | S k => let? (bf, r1) := rd 1 bs in
           let? (wt, r2) := rd 16 r1 in
           let? (tt_, r3) := rd 16 r2 in
           let? (mp, r4) := rd 8 r3 in
           if (wt >=? 1) || (tt_ >=? 1) || (mp >=? maps) then None else
           let? (l, r5) := rd_modes k maps r4 in Some ({| md_blockflag := bf; md_mapping := mp |} :: l, r5)
  end.

Definition unpack_setup (channels : Z) (bs : bits) : option setup :=
  let? (nb, r1) := rd 8 bs in
  let? (books, r2) := rd_books (Z.to_nat (nb + 1)) r1 in
  let? (nt, r3) := rd 6 r2 in
  let? (u, r4) := rd_times (Z.to_nat (nt + 1)) r3 in
  let? (nf, r5) := rd 6 r4 in
  let? (floors, r6) := rd_floors (Z.to_nat (nf + 1)) books r5 in
  let? (nr, r7) := rd 6 r6 in
  let? (residues, r8) := rd_residues (Z.to_nat (nr + 1)) books r7 in
  let? (nm, r9) := rd 6 r8 in
  let? (maps, r10) := rd_maps (Z.to_nat (nm + 1)) channels (Z.of_nat (length floors)) (Z.of_nat (length residues)) r9 in
  let? (nmo, r11) := rd 6 r10 in
  let? (modes, r12) := rd_modes (Z.to_nat (nmo + 1)) (Z.of_nat (length maps)) r11 in
  let? (fr, r13) := rd 1 r12 in
  if fr =? 1 then Some {| s_books := books; s_floors := floors; s_residues := residues; s_maps := maps; s_modes := modes |}
  else None.

(* ------------------------------------------------------------------ *)
(* identification header                                               *)
(* ------------------------------------------------------------------ *)
Record ident := { i_channels : Z; i_rate : Z; i_upper : Z; i_nominal : Z; i_lower : Z; i_bs0 : Z; i_bs1 : Z }.
Definition s32 (v : Z) : Z := if v <? 2147483648 then v else v - 4294967296.

Inductive hverdict := HOk | HNotVorbis | HBadHeader | HVersion | HFault.

(* _vorbis_unpack_info: a failed version read yields -1, i.e. OV_EVERSION *)
Definition unpack_ident (bs : bits) : hverdict * option ident :=
  match rd 32 bs with
  | None => (HVersion, None)
  | Some (ver, r0) =>
      if negb (ver =? 0) then (HVersion, None) else
      match (let? (ch, r1) := rd 8 r0 in
             let? (rate, r2) := rd 32 r1 in
             let? (up, r3) := rd 32 r2 in
             let? (nom, r4) := rd 32 r3 in
             let? (lo, r5) := rd 32 r4 in
             let? (b0, r6) := rd 4 r5 in
             let? (b1, r7) := rd 4 r6 in
             let? (fr, r8) := rd 1 r7 in
             if (rate <? 1) || (ch <? 1) || (2 ^ b0 <? 64) || (2 ^ b1 <? 2 ^ b0) || (2 ^ b1 >? 8192) || negb (fr =? 1) then None
             else Some ({| i_channels := ch; i_rate := rate; i_upper := s32 up; i_nominal := s32 nom; i_lower := s32 lo;
                           i_bs0 := 2 ^ b0; i_bs1 := 2 ^ b1 |}, r8)) with
      | Some (i, _) => (HOk, Some i)
      | None => (HBadHeader, None)
      end
  end.

(* ------------------------------------------------------------------ *)
(* vorbis_synthesis_headerin as a state machine over packets            *)
(* ------------------------------------------------------------------ *)
Record hstate := {
  h_cleared : bool;               (* vorbis_info_clear has run: codec_setup == NULL *)
  h_ident : option ident;         (* vi->rate != 0 *)
  h_comment : bool;               (* vc->vendor != NULL *)
  h_setup : option setup }.       (* ci->books > 0 *)
Definition h_init : hstate := {| h_cleared := false; h_ident := None; h_comment := false; h_setup := None |}.

Definition vorbis_str : list N := [118; 111; 114; 98; 105; 115]%N.

Definition headerin (s : hstate) (bos : bool) (pkt : list N) : hverdict * hstate :=
  let bs := bits_of_bytes pkt in
  match rd 8 bs with
  | None => (HNotVorbis, s)
  | Some (ptype, r0) =>
      if negb (Nat.leb 48 (length r0) && list_eqb (firstn 6 (skipn 1 pkt)) vorbis_str) then (HNotVorbis, s)
      else
        let body := skipn 48 r0 in
        if ptype =? 1 then
          if negb bos then (HBadHeader, s)
          else match h_ident s with
               | Some _ => (HBadHeader, s)
               | None =>
                   if h_cleared s then (HFault, s)
                   else match unpack_ident body with
                        | (HOk, Some i) => (HOk, {| h_cleared := false; h_ident := Some i; h_comment := h_comment s; h_setup := h_setup s |})
                        | (HVersion, _) => (HVersion, s)
                        | (v, _) => (v, {| h_cleared := true; h_ident := None; h_comment := h_comment s; h_setup := None |})
                        end
               end
        else if ptype =? 3 then
          match h_ident s with
          | None => (HBadHeader, s)
          | Some _ =>
              if h_comment s then (HBadHeader, s)
              else match headerin_comment pkt with
                   | inr _ => (HOk, {| h_cleared := h_cleared s; h_ident := h_ident s; h_comment := true; h_setup := h_setup s |})
                   | inl _ => (HBadHeader, s)
                   end
          end
        else if ptype =? 5 then
          match h_ident s with
          | None => (HBadHeader, s)
          | Some i =>
              if negb (h_comment s) then (HBadHeader, s)
              else if h_cleared s then (HFault, s)
              else match h_setup s with
                   | Some _ => (HBadHeader, s)
                   | None =>
                       match unpack_setup (i_channels i) body with
                       | Some st => (HOk, {| h_cleared := false; h_ident := h_ident s; h_comment := true; h_setup := Some st |})
                       | None => (HBadHeader, {| h_cleared := true; h_ident := None; h_comment := h_comment s; h_setup := None |})
                       end
                   end
          end
        else (HBadHeader, s)
  end.
