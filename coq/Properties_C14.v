(* C14  Hard bitrate limits hold to within the configured reservoir.
   Model: Bitrate.v (the min/max part of vorbis_bitrate_addblock).  For ALL
   sequences of candidate packet sizes, block flags and floater choices: *)
From VV Require Import Bitrate Bitrate_lemmas.
Local Open Scope Z_scope.

(* the reservoir stays within [0, reservoir_bits]; a block moves it by at least
   (bits - max target) and at most (bits - min target) *)
Theorem C14_reservoir_invariant :
  forall p r sizes w c0, WFp p -> sizes_ok sizes -> 0 <= r <= p_res p -> 0 <= c0 < nblobs ->
    let '(c, this, r') := addblock p r sizes w c0 in
    let mint := if w then p_min p * p_spl p else p_min p in
    let maxt := if w then p_max p * p_spl p else p_max p in
    0 <= r' <= p_res p /\ 0 <= c < nblobs /\ 0 <= this /\
    (0 < p_max p -> r + (this - maxt) <= r') /\ (0 < p_min p -> r' <= r + (this - mint)).
Proof. exact addblock_inv. Qed.
Print Assumptions C14_reservoir_invariant.

(* over every contiguous run of packets of an encode: bits emitted exceed the
   sum of the per-block maximum targets by at most the reservoir size; with a
   hard minimum they fall short of the per-block minimum targets by at most it *)
Theorem C14_every_window_bounded :
  forall p pre win post, WFp p -> Forall block_ok (pre ++ win ++ post) ->
    let r1 := fst (run p (p_fill p) pre) in
    let out := snd (run p r1 win) in
    (0 < p_max p -> sum_bits out <= sum_max out + p_res p) /\
    (0 < p_min p -> sum_min out <= sum_bits out + p_res p).
Proof. exact every_window. Qed.
Print Assumptions C14_every_window_bounded.

(* The property's literal form (max rate x duration instead of the sum of the
   integer per-block targets) is NOT implied: the target per short half-block is
   rint(max_rate*halfsamples/rate); at 44100 Hz, 64000 bit/s, 256-sample blocks
   that is 186 instead of 185.76, and a run that always emits its target exceeds
   max_rate x duration by more than a 2000-bit reservoir after 9000 blocks.
   (KNOWN_FINDINGS.txt: rint-drift.)  Exact arithmetic, scaled by the rate. *)
Definition drift_params : bparams := {| p_min := 0; p_max := 186; p_spl := 8; p_res := 2000; p_fill := 200 |}.
Definition drift_blocks : list (list Z * bool * Z) := repeat (repeat 24 15, false, 7) (Z.to_nat 9000).
Theorem C14_literal_bound_refuted :
  WFp drift_params /\ Forall block_ok drift_blocks /\
  let out := snd (run drift_params (p_fill drift_params) drift_blocks) in
  sum_bits out * 44100 > 64000 * (9000 * 128) + p_res drift_params * 44100.
Proof.
  split; [constructor; cbn; lia|]. split.
  - apply Forall_forall. intros x Hx. apply repeat_spec in Hx. subst x. split; cbn [fst snd].
    + apply Forall_forall. intros y Hy. apply (repeat_spec 15 24 y) in Hy. lia.
    + unfold nblobs. lia.
  - vm_compute. reflexivity.
Qed.
Print Assumptions C14_literal_bound_refuted.

Example C14_nonvacuous : WFp {| p_min := 93; p_max := 186; p_spl := 8; p_res := 4000; p_fill := 2000 |}.
Proof. constructor; cbn; lia. Qed.
