(* Proofs about the symbolic PCM buffer (Overlap.v). *)
From VV Require Import Blocking Blocking_lemmas Overlap.
From Coq Require Import ZifyBool.
Local Open Scope Z_scope.
Ltac Zify.zify_post_hook ::= Z.div_mod_to_equations.

(* sizes after the half-rate shift: 0 < n0 <= n1, both even *)
Definition SizesOK (c : cfg) : Prop :=
  0 < half c false /\ half c false <= half c true /\ half c false mod 2 = 0 /\ half c true mod 2 = 0.

Lemma sizes_of_WFh c : WFh c -> bs0 c mod 4 = 0 -> bs1 c mod 4 = 0 -> SizesOK c.
Proof.
  intros [[H1 H2] Hh] M0 M1. unfold SizesOK, half, bsz.
  destruct Hh as [Hh | (Hh & E0 & E1)]; rewrite Hh; cbn [Z.add];
    rewrite !Z.shiftr_div_pow2 by lia; change (2 ^ 1) with 2; change (2 ^ 2) with 4; lia.
Qed.

Ltac ifs :=
  repeat match goal with
         | |- context [if ?b then _ else _] =>
             lazymatch b with
             | context [if _ then _ else _] => fail
             | _ => let E := fresh "E" in destruct b eqn:E; try lia
             end
         end.

(* (1) two consecutive blockins leave, between the two block centres, exactly
   the specification's overlap-add of packets k and k+1 - whatever the state
   and the buffer were before *)
Lemma two_blockins_spec c s s1 b1 b2 k buf j :
  SizesOK c ->
  d_W s1 = k_W b1 ->
  d_centerW s1 = (if d_centerW s =? 0 then half c true else 0) ->
  0 <= j < half c (k_W b1) / 2 + half c (k_W b2) / 2 ->
  blockin_buf c s1 b2 (k + 1) (blockin_buf c s b1 k buf)
    ((if d_centerW s1 =? 0 then half c true else 0) + j) =
  spec_out (half c false) (half c true) (k_W b1) (k_W b2) k (k + 1) j.
Proof.
  intros (P0 & P1 & Ev0 & Ev1) HW HC Hj.
  unfold blockin_buf, spec_out. rewrite HW, HC.
  set (n0 := half c false) in *. set (n1 := half c true) in *.
  assert (half c (k_W b1) = if k_W b1 then n1 else n0) as Hn1 by (destruct (k_W b1); reflexivity).
  assert (half c (k_W b2) = if k_W b2 then n1 else n0) as Hn2 by (destruct (k_W b2); reflexivity).
  rewrite Hn1, Hn2 in *.
  destruct (d_centerW s =? 0) eqn:Ec.
  - (* first blockin wrote its copy section at 0, the second laps at 0 *)
    destruct (n1 =? 0) eqn:En; [lia|].
    destruct (k_W b1), (k_W b2), (d_W s); cbn [andb]; ifs; f_equal; try lia; f_equal; lia.
  - change (0 =? 0) with true. cbv iota.
    destruct (k_W b1), (k_W b2), (d_W s); cbn [andb]; ifs; f_equal; try lia; f_equal; lia.
Qed.

Lemma spec_out_pkts n0 n1 lW W kp kc j :
  forall x, In x (pkts (spec_out n0 n1 lW W kp kc j)) -> x = kp \/ x = kc.
Proof.
  intros x. unfold spec_out. destruct lW, W; cbn; ifs; cbn; intuition.
Qed.

(* (2) provenance: a sample returned after blockin of packet k+1 depends on
   packets k and k+1 only *)
Lemma provenance_two c s s1 b1 b2 k buf j x :
  SizesOK c -> d_W s1 = k_W b1 ->
  d_centerW s1 = (if d_centerW s =? 0 then half c true else 0) ->
  0 <= j < half c (k_W b1) / 2 + half c (k_W b2) / 2 ->
  In x (pkts (blockin_buf c s1 b2 (k + 1) (blockin_buf c s b1 k buf)
               ((if d_centerW s1 =? 0 then half c true else 0) + j))) ->
  x = k \/ x = k + 1.
Proof.
  intros HS HW HC Hj Hin. rewrite (two_blockins_spec c s s1 b1 b2 k buf j HS HW HC Hj) in Hin.
  eapply spec_out_pkts; eauto.
Qed.

(* the buffer update looks at the previous state only through (W, centre phase) *)
Lemma blockin_buf_ext c s s' b k buf :
  d_W s = d_W s' -> (d_centerW s =? 0) = (d_centerW s' =? 0) ->
  forall i, blockin_buf c s b k buf i = blockin_buf c s' b k buf i.
Proof. intros H1 H2 i. unfold blockin_buf. rewrite H1, H2. reflexivity. Qed.

(* (3) every write is inside the 2*n1 cells of the buffer, for every state *)
Lemma blockin_writes_in_bounds c s b :
  SizesOK c ->
  Forall (fun r => 0 <= fst r /\ fst r <= snd r /\ snd r <= 2 * half c true) (blockin_writes c s b).
Proof.
  intros (P0 & P1 & Ev0 & Ev1). unfold blockin_writes.
  set (n0 := half c false) in *. set (n1 := half c true) in *.
  assert (half c (k_W b) = if k_W b then n1 else n0) as Hn by (destruct (k_W b); reflexivity).
  rewrite Hn.
  destruct (d_centerW s =? 0), (d_W s), (k_W b); repeat constructor; cbn [fst snd]; lia.
Qed.

Lemma blockin_buf_frame c s b k buf i :
  SizesOK c ->
  (forall r, In r (blockin_writes c s b) -> ~ (fst r <= i < snd r)) ->
  blockin_buf c s b k buf i = buf i.
Proof.
  intros (P0 & P1 & Ev0 & Ev1) H. unfold blockin_writes in H. unfold blockin_buf.
  set (n0 := half c false) in *. set (n1 := half c true) in *.
  set (n := half c (k_W b)) in *.
  set (thisC := if d_centerW s =? 0 then 0 else n1) in *.
  set (prevC := if d_centerW s =? 0 then n1 else 0) in *.
  assert (~ (thisC <= i < thisC + n)) as H0 by (apply (H (thisC, thisC + n)); left; reflexivity).
  destruct ((thisC <=? i) && (i <? thisC + n)) eqn:E0; [lia|].
  destruct (d_W s), (k_W b).
  - specialize (H (prevC, prevC + n1) (or_intror (or_introl eq_refl))). cbn [fst snd] in H. ifs. reflexivity.
  - specialize (H _ (or_intror (or_introl eq_refl))). cbn [fst snd] in H. ifs. reflexivity.
  - specialize (H _ (or_intror (or_introl eq_refl))). cbn [fst snd] in H. ifs. reflexivity.
  - specialize (H _ (or_intror (or_introl eq_refl))). cbn [fst snd] in H. ifs. reflexivity.
Qed.

(* indices into the packet's own IMDCT output are inside its 2n samples *)
Fixpoint pcm_idx_ok (c : cfg) (k : Z) (W : bool) (e : sexp) : Prop :=
  match e with
  | SInit _ => True
  | SPcm k' i => k' = k -> 0 <= i < 2 * half c W
  | SLap a wa b wb wn => pcm_idx_ok c k W a /\ pcm_idx_ok c k W b
  end.

Fixpoint win_idx_ok (e : sexp) : Prop :=
  match e with
  | SInit _ | SPcm _ _ => True
  | SLap a wa b wb wn => win_idx_ok a /\ win_idx_ok b /\ 0 <= wa < wn /\ 0 <= wb < wn
  end.

Lemma blockin_reads_in_bounds c s b k buf i :
  SizesOK c ->
  (forall i, pcm_idx_ok c k (k_W b) (buf i) /\ win_idx_ok (buf i)) ->
  pcm_idx_ok c k (k_W b) (blockin_buf c s b k buf i) /\ win_idx_ok (blockin_buf c s b k buf i).
Proof.
  intros (P0 & P1 & Ev0 & Ev1) Hb. unfold blockin_buf.
  set (n0 := half c false) in *. set (n1 := half c true) in *.
  assert (half c (k_W b) = if k_W b then n1 else n0) as Hn by (destruct (k_W b); reflexivity).
  destruct (Hb i) as [Hb1 Hb2].
  destruct (d_centerW s =? 0), (d_W s), (k_W b) eqn:EW; cbn [andb]; rewrite ?Hn in *; ifs;
    cbn [pcm_idx_ok win_idx_ok]; rewrite ?Hn in *;
    repeat split; try assumption; try lia.
Qed.

(* (4) granule trimming never moves the returned range outside what blockin
   just produced: for ARBITRARY granule positions and flags *)
(* the [int] truncation of pcm_returned is harmless when the first granule
   position seen is not absurdly far below the running sample count (always so
   for non-negative granule positions) *)
Definition NoWrap (count1 : Z) (b : dblock) (r : Z) : Prop :=
  0 <= r < 16384 /\ count1 - k_gran b < 1073741824.

Lemma granule_range h gran0 count1 stp b r cu :
  (h = 0 \/ h = 1) -> r <= cu -> NoWrap count1 b r ->
  let '(g, r', cu') := dec_granule h gran0 count1 stp b r cu in
  r <= r' /\ r' <= cu' /\ cu' <= cu.
Proof.
  intros Hh Hr [Hr0 Hnw]. unfold dec_granule, trim_first, trim_tracked, wrap32.
  rewrite !Z.shiftl_mul_pow2, !Z.shiftr_div_pow2 by lia.
  destruct Hh as [-> | ->]; [change (2 ^ 0) with 1|change (2 ^ 1) with 2];
    destruct (k_eof b), (k_pcm b); cbn [andb]; ifs; cbn; lia.
Qed.

(* for ARBITRARY granule positions (also "negative" ones, where the int
   truncation does strike): nothing beyond what blockin produced is offered,
   and pcm_returned never passes pcm_current *)
Lemma granule_range_any h gran0 count1 stp b r cu :
  (h = 0 \/ h = 1) -> r <= cu -> -2147483648 <= r ->
  let '(g, r', cu') := dec_granule h gran0 count1 stp b r cu in
  r' <= cu' /\ r <= cu' /\ cu' <= cu /\ -2147483648 <= r'.
Proof.
  intros Hh Hr Hlo. unfold dec_granule, trim_first, trim_tracked, wrap32.
  rewrite !Z.shiftl_mul_pow2, !Z.shiftr_div_pow2 by lia.
  destruct Hh as [-> | ->]; [change (2 ^ 0) with 1|change (2 ^ 1) with 2];
    destruct (k_eof b), (k_pcm b); cbn [andb]; ifs; cbn; lia.
Qed.

(* since the clamp is applied before the addition, for ARBITRARY granule
   positions the trimmed range stays inside what blockin produced *)
Lemma granule_range_all h gran0 count1 stp b r cu :
  (h = 0 \/ h = 1) -> r <= cu ->
  let '(g, r', cu') := dec_granule h gran0 count1 stp b r cu in
  r <= r' /\ r' <= cu' /\ cu' <= cu.
Proof.
  intros Hh Hr. unfold dec_granule, trim_first, trim_tracked.
  rewrite !Z.shiftl_mul_pow2, !Z.shiftr_div_pow2 by lia.
  destruct Hh as [-> | ->]; [change (2 ^ 0) with 1|change (2 ^ 1) with 2];
    destruct (k_eof b), (k_pcm b); cbn [andb]; ifs; cbn; lia.
Qed.

Lemma blockin_returned_range_all c s b s' :
  (hs c = 0 \/ hs c = 1) -> SizesOK c -> k_pcm b = true ->
  dec_blockin c s b = (0, s') ->
  let prevC := if d_centerW s =? 0 then half c true else 0 in
  let thisC := if d_centerW s =? 0 then 0 else half c true in
  if d_ret s =? -1 then d_ret s' = thisC /\ d_cur s' = thisC
  else prevC <= d_ret s' /\ d_ret s' <= d_cur s' /\
       d_cur s' <= prevC + Z.shiftr (bsz c (d_W s) / 4 + bsz c (k_W b) / 4) (hs c).
Proof.
  intros Hh HS Hp E. cbv zeta. unfold dec_blockin in E.
  destruct ((d_cur s >? d_ret s) && negb (d_ret s =? -1)); [inversion E|].
  unfold dec_pcmpart in E. rewrite Hp in E. fold (half c true) in E.
  set (stp := bsz c (d_W s) / 4 + bsz c (k_W b) / 4) in *.
  assert (0 <= Z.shiftr stp (hs c)) as Hst.
  { apply Z.shiftr_nonneg. unfold stp.
    destruct HS as (P0 & P1 & _). unfold half, bsz in *.
    assert (0 <= bs0 c /\ 0 <= bs1 c) as [B0 B1].
    { split.
      - destruct (Z.neg_nonneg_cases (bs0 c)) as [N|N]; [|exact N].
        exfalso. rewrite Z.shiftr_div_pow2 in P0 by lia.
        assert (0 < 2 ^ (hs c + 1)) by (apply Z.pow_pos_nonneg; lia).
        assert (bs0 c / 2 ^ (hs c + 1) < 0) by (apply Z.div_lt_upper_bound; lia). lia.
      - destruct (Z.neg_nonneg_cases (bs1 c)) as [N|N]; [|exact N].
        exfalso. rewrite !Z.shiftr_div_pow2 in * by lia.
        assert (0 < 2 ^ (hs c + 1)) by (apply Z.pow_pos_nonneg; lia).
        assert (bs1 c / 2 ^ (hs c + 1) < 0) by (apply Z.div_lt_upper_bound; lia). lia. }
    destruct (d_W s), (k_W b); lia. }
  destruct (d_ret s =? -1) eqn:Er.
  - match type of E with context [dec_granule ?h ?g ?c1 ?st ?bb ?r ?cu] =>
      pose proof (granule_range_all h g c1 st bb r cu Hh (Z.le_refl _)) as G;
      destruct (dec_granule h g c1 st bb r cu) as [[g' r'] cu'] end.
    injection E as <-. cbn. unfold half, bsz in *. destruct (d_centerW s =? 0); lia.
  - match type of E with context [dec_granule ?h ?g ?c1 ?st ?bb ?r ?cu] =>
      assert (r <= cu) as Hle by lia;
      pose proof (granule_range_all h g c1 st bb r cu Hh Hle) as G;
      destruct (dec_granule h g c1 st bb r cu) as [[g' r'] cu'] end.
    injection E as <-. cbn. unfold half, bsz in *. destruct (d_centerW s =? 0); lia.
Qed.

Definition count_after (c : cfg) (s : dec) (b : dblock) : Z :=
  let lost := (d_seq s =? -1) || negb (d_seq s + 1 =? k_seq b) in
  if (if lost then -1 else d_count s) =? -1 then 0
  else d_count s + (bsz c (d_W s) / 4 + bsz c (k_W b) / 4).

Lemma blockin_returned_range c s b s' :
  (hs c = 0 \/ hs c = 1) -> SizesOK c -> k_pcm b = true -> half c true < 16384 ->
  count_after c s b - k_gran b < 1073741824 ->
  dec_blockin c s b = (0, s') ->
  let prevC := if d_centerW s =? 0 then half c true else 0 in
  let thisC := if d_centerW s =? 0 then 0 else half c true in
  if d_ret s =? -1 then d_ret s' = thisC /\ d_cur s' = thisC
  else prevC <= d_ret s' /\ d_ret s' <= d_cur s' /\
       d_cur s' <= prevC + Z.shiftr (bsz c (d_W s) / 4 + bsz c (k_W b) / 4) (hs c).
Proof.
  intros Hh HS Hp Hsmall Hnw E. cbv zeta. unfold dec_blockin in E. unfold count_after in Hnw.
  destruct ((d_cur s >? d_ret s) && negb (d_ret s =? -1)); [inversion E|].
  unfold dec_pcmpart in E. rewrite Hp in E. fold (half c true) in E.
  set (stp := bsz c (d_W s) / 4 + bsz c (k_W b) / 4) in *.
  assert (0 <= Z.shiftr stp (hs c)) as Hst.
  { apply Z.shiftr_nonneg. unfold stp.
    destruct HS as (P0 & P1 & _). unfold half, bsz in *.
    assert (0 <= bs0 c /\ 0 <= bs1 c) as [B0 B1].
    { split.
      - destruct (Z.neg_nonneg_cases (bs0 c)) as [N|N]; [|exact N].
        exfalso. rewrite Z.shiftr_div_pow2 in P0 by lia.
        assert (0 < 2 ^ (hs c + 1)) by (apply Z.pow_pos_nonneg; lia).
        assert (bs0 c / 2 ^ (hs c + 1) < 0) by (apply Z.div_lt_upper_bound; lia). lia.
      - destruct (Z.neg_nonneg_cases (bs1 c)) as [N|N]; [|exact N].
        exfalso. rewrite !Z.shiftr_div_pow2 in * by lia.
        assert (0 < 2 ^ (hs c + 1)) by (apply Z.pow_pos_nonneg; lia).
        assert (bs1 c / 2 ^ (hs c + 1) < 0) by (apply Z.div_lt_upper_bound; lia). lia. }
    destruct (d_W s), (k_W b); lia. }
  destruct (d_ret s =? -1) eqn:Er.
  - match type of E with context [dec_granule ?h ?g ?c1 ?st ?bb ?r ?cu] =>
      assert (NoWrap c1 bb r) as Hw by
        (split; [destruct HS as (P0 & P1 & _); unfold half, bsz in *; destruct (d_centerW s =? 0); lia
                |destruct ((d_seq s =? -1) || negb (d_seq s + 1 =? k_seq b)); exact Hnw]);
      pose proof (granule_range h g c1 st bb r cu Hh (Z.le_refl _) Hw) as G;
      destruct (dec_granule h g c1 st bb r cu) as [[g' r'] cu'] end.
    injection E as <-. cbn. unfold half, bsz in *. destruct (d_centerW s =? 0); lia.
  - match type of E with context [dec_granule ?h ?g ?c1 ?st ?bb ?r ?cu] =>
      assert (r <= cu) as Hle by lia;
      assert (NoWrap c1 bb r) as Hw by
        (split; [destruct HS as (P0 & P1 & _); unfold half, bsz in *; destruct (d_centerW s =? 0); lia
                |destruct ((d_seq s =? -1) || negb (d_seq s + 1 =? k_seq b)); exact Hnw]);
      pose proof (granule_range h g c1 st bb r cu Hh Hle Hw) as G;
      destruct (dec_granule h g c1 st bb r cu) as [[g' r'] cu'] end.
    injection E as <-. cbn. unfold half, bsz in *. destruct (d_centerW s =? 0); lia.
Qed.

(* ---- vorbis_synthesis_lapout ------------------------------------------------------- *)

(* decoder state right after a blockin that carried PCM (any history before it):
   the centre phase has toggled, pending output sits in the half that held
   the previous centre *)
Definition AfterBlockin (c : cfg) (s : dec) : Prop :=
  let n1 := half c true in
  let prevC := if d_centerW s =? 0 then 0 else n1 in       (* centerW = 0 <-> this block's centre half is the upper one *)
  d_fresh s = true /\
  (d_centerW s = 0 \/ d_centerW s = n1) /\
  prevC <= d_ret s /\ d_ret s <= d_cur s /\
  d_cur s <= prevC + half c (d_lW s) / 2 + half c (d_W s) / 2.

(* lapout returns, contiguously and in order, first what pcmout would have
   returned, then the n not-yet-windowed samples of the last block's second
   half; everything inside the 2*n1 buffer.  When the pending run reaches up to
   the block centre (nothing trimmed at its end) *)
Lemma lapout_contiguous c s buf :
  SizesOK c -> AfterBlockin c s ->
  let n1 := half c true in
  let n := half c (d_W s) in
  let prevC := if d_centerW s =? 0 then 0 else n1 in
  let thisC := if d_centerW s =? 0 then n1 else 0 in
  d_cur s = prevC + half c (d_lW s) / 2 + half c (d_W s) / 2 ->
  let '(r, s') := dec_lapout c s in
  let buf' := lapout_buf c s buf in
  let pending := d_cur s - d_ret s in
  r = pending + n /\ 0 <= d_ret s' /\ d_ret s' + r <= 2 * n1 /\
  (forall j, 0 <= j < pending -> buf' (d_ret s' + j) = buf (d_ret s + j)) /\
  (forall j, 0 <= j < n -> buf' (d_ret s' + pending + j) = buf (thisC + j)).
Proof.
  intros (P0 & P1 & Ev0 & Ev1) (Hfr & Hc & Hr1 & Hr2 & Hr3). cbv zeta. intros Hfull.
  unfold dec_lapout, lapout_buf, bsz.
  change (Z.shiftr (bs0 c) (hs c + 1)) with (half c false).
  change (Z.shiftr (bs1 c) (hs c + 1)) with (half c true).
  change (Z.shiftr (if d_W s then bs1 c else bs0 c) (hs c + 1)) with (half c (d_W s)).
  assert (half c (d_lW s) = if d_lW s then half c true else half c false) as HlW by (destruct (d_lW s); reflexivity).
  assert (half c (d_W s) = if d_W s then half c true else half c false) as HW by (destruct (d_W s); reflexivity).
  rewrite HlW, HW in *. clear HlW HW.
  generalize dependent (half c true). generalize dependent (half c false). intros n0 P0 Ev0 n1 P1 Ev1 Hc Hr1 Hr3 Hfull.
  rewrite Hfr. cbn [negb orb]. rewrite orb_false_r.
  destruct (d_ret s <? 0) eqn:Eneg; [destruct (d_centerW s =? 0); lia|].
  destruct Hc as [Hc | Hc]; rewrite Hc in *.
  - change (0 =? 0) with true in *. cbv iota in *.
    destruct (0 =? n1) eqn:E0; [lia|].
    destruct (d_lW s), (d_W s); cbn [xorb negb d_ret d_cur];
      (split; [lia|]); (split; [lia|]); (split; [lia|]); split; intros j Hj; ifs;
      try reflexivity; try (f_equal; lia); lia.
  - destruct (n1 =? 0) eqn:E0; [lia|]. rewrite Z.eqb_refl.
    destruct (d_lW s), (d_W s); cbn [xorb negb d_ret d_cur];
      (split; [lia|]); (split; [lia|]); (split; [lia|]); split; intros j Hj; ifs;
      try reflexivity; try (f_equal; lia); lia.
Qed.
