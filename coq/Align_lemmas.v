(* Lemmas for C06: time alignment of decoded audio with the input, channel
   order through residue bundling, power complementarity of the Vorbis window. *)
From VV Require Import Blocking Blocking_lemmas Pcm Fl Setup Codebook PacketDec.
From Coq Require Import ZArith List Bool Lia Reals Lra.
Import ListNotations.

Section Align.
Local Open Scope Z_scope.

(* after decoding the packets emitted so far, the decoder has returned exactly
   as many samples as the input position of the centre of the last block (its
   granule position): output sample i is input sample i, no delay, no advance *)
Lemma DInv_total c s t acc off W lW seq : acc <> [] -> DInv c s t acc off W lW seq -> t = hdiv c (off - step c lW W).
Proof. intros Hne H. destruct acc as [|x l]; [congruence|]. destruct H as (_ & _ & _ & _ & _ & _ & Ht & _). exact Ht. Qed.

Lemma returned_equals_centre c acc b off W lW seq :
  WF0 c -> Emitted c (acc ++ [b]) off W lW seq ->
  snd (dec_run c (map to_dblock (acc ++ [b]))) = b_gran b.
Proof.
  intros Hc He. pose proof (dec_run_emitted c _ off W lW seq (WF0_WFh c Hc) He) as Hd.
  apply DInv_total in Hd; [|destruct acc; discriminate]. rewrite Hd.
  inversion He as [Hnil|acc0 off0 W0 lW0 seq0 nW0 He0 Hacc Hoff HW HlW Hseq].
  - destruct acc; discriminate.
  - apply app_inj_tail in Hacc. destruct Hacc as [_ <-]. cbn [b_gran]. subst.
    destruct Hc as [_ Hhs]. unfold hdiv. rewrite Hhs. change (2 ^ 0) with 1. rewrite Z.div_1_r. unfold mkb. cbn [b_gran]. lia.
Qed.

(* residue bundling: taking the channels of a submap out of the channel list
   and putting the results back returns every vector to the channel it came from *)
Lemma put_back_same {A} (d : A) : forall (idx : list nat) (all : list A),
  (forall i, In i idx -> (i < length all)%nat) ->
  put_back idx (map (fun j => nth j all d) idx) all = all.
Proof.
  induction idx as [|i rest IH]; intros all Hin; [reflexivity|].
  cbn [map put_back].
  assert (lset all i (nth i all d) = all) as E.
  { assert (i < length all)%nat as Hi by (apply Hin; left; reflexivity).
    clear -Hi. revert i Hi; induction all as [|h t IHt]; intros [|i] Hi; cbn in *; try lia; [reflexivity|f_equal; apply IHt; lia]. }
  rewrite E. apply IH. intros j Hj. apply Hin. right. exact Hj.
Qed.

Lemma put_back_length {A} : forall (idx : list nat) (vals all : list A), length (put_back idx vals all) = length all.
Proof.
  induction idx as [|i rest IH]; intros vals all; [reflexivity|].
  destruct vals as [|v vr]; [reflexivity|]. cbn [put_back]. rewrite IH.
  clear. revert i; induction all as [|h t IHt]; intros [|i]; cbn; auto.
Qed.

(* a channel that is not in the bundle is untouched *)
Lemma put_back_other {A} (d : A) : forall (idx : list nat) (vals all : list A) k,
  ~ In k idx -> nth k (put_back idx vals all) d = nth k all d.
Proof.
  induction idx as [|i rest IH]; intros vals all k Hk; [reflexivity|].
  destruct vals as [|v vr]; [reflexivity|]. cbn [put_back]. rewrite IH by (intros H; apply Hk; right; exact H).
  assert (k <> i) as Hne by (intros ->; apply Hk; left; reflexivity).
  clear -Hne. revert i k Hne; induction all as [|h t IHt]; intros [|i] [|k] Hne; cbn; auto; try lia.
Qed.
End Align.

Section Window.
Local Open Scope R_scope.

(* the Vorbis window slope w(a) = sin(pi/2 * sin^2 a) is power complementary:
   w(a)^2 + w(pi/2 - a)^2 = 1 (so windowed overlap-add of a TDAC transform
   pair reconstructs with unit gain) *)
Lemma window_power_complementary (a : R) :
  (sin (PI / 2 * (sin a)²))² + (sin (PI / 2 * (sin (PI / 2 - a))²))² = 1.
Proof.
  rewrite sin_shift.
  replace (PI / 2 * (cos a)²) with (PI / 2 - PI / 2 * (sin a)²).
  - rewrite sin_shift. apply sin2_cos2.
  - rewrite cos2. unfold Rsqr. field.
Qed.
End Window.
