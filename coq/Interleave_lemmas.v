From VV Require Import Interleave.

Section World.
Variables (S Op Out : Type).
Variable step : S -> Op -> S * Out.

Lemma nth_upd_same (w : list S) i s x : nth_error w i = Some x -> nth_error (upd S w i s) i = Some s.
Proof.
  revert i; induction w as [|h t IH]; intros [|j] H; cbn in *; try discriminate; auto.
Qed.
Lemma nth_upd_other (w : list S) i j s : i <> j -> nth_error (upd S w i s) j = nth_error w j.
Proof.
  revert i j; induction w as [|h t IH]; intros [|i] [|j] H; cbn; auto; try congruence.
Qed.
Lemma upd_length (w : list S) i s : length (upd S w i s) = length w.
Proof. revert i; induction w as [|h t IH]; intros [|i]; cbn; auto. Qed.

(* for every schedule and every instance: its final state and the outputs it
   produced are those of running its own operations alone *)
Theorem interleave_commutes : forall sched (w : list S) i s,
  nth_error w i = Some s ->
  let '(w', outs) := run S Op Out step w sched in
  let '(s', souts) := solo S Op Out step s (ops_of Op i sched) in
  nth_error w' i = Some s' /\ outs_of Out i outs = souts.
Proof.
  induction sched as [|[j o] rest IH]; intros w i s Hi; cbn [run ops_of solo filter map].
  - cbn. auto.
  - unfold ops_of in *. cbn [filter fst].
    destruct (nth_error w j) as [sj|] eqn:Ej.
    + destruct (step sj o) as [s1 out] eqn:Es.
      destruct (Nat.eqb j i) eqn:E.
      * apply Nat.eqb_eq in E. subst j. rewrite Hi in Ej. injection Ej as <-.
        specialize (IH (upd S w i s1) i s1 (nth_upd_same w i s1 s Hi)).
        destruct (run S Op Out step (upd S w i s1) rest) as [w2 outs].
        cbn [map snd solo]. rewrite Es.
        destruct (solo S Op Out step s1 (map snd (filter (fun p => Nat.eqb (fst p) i) rest))) as [s2 so].
        destruct IH as [IH1 IH2]. split; [exact IH1|].
        unfold outs_of in *. cbn [filter fst]. rewrite Nat.eqb_refl. cbn [map snd]. f_equal. exact IH2.
      * apply Nat.eqb_neq in E.
        assert (nth_error (upd S w j s1) i = Some s) as Hi' by (rewrite nth_upd_other; auto).
        specialize (IH (upd S w j s1) i s Hi').
        destruct (run S Op Out step (upd S w j s1) rest) as [w2 outs].
        destruct (solo S Op Out step s (map snd (filter (fun p => Nat.eqb (fst p) i) rest))) as [s2 so].
        destruct IH as [IH1 IH2]. split; [exact IH1|].
        unfold outs_of in *. cbn [filter fst]. apply Nat.eqb_neq in E. rewrite E. exact IH2.
    + (* the operation addressed no instance *)
      destruct (Nat.eqb j i) eqn:E.
      * apply Nat.eqb_eq in E. subst j. congruence.
      * exact (IH w i s Hi).
Qed.

(* hence two schedules with the same per-instance operation lists are indistinguishable to every instance *)
Corollary schedule_independent : forall sched1 sched2 (w : list S) i s,
  nth_error w i = Some s -> ops_of Op i sched1 = ops_of Op i sched2 ->
  nth_error (fst (run S Op Out step w sched1)) i = nth_error (fst (run S Op Out step w sched2)) i /\
  outs_of Out i (snd (run S Op Out step w sched1)) = outs_of Out i (snd (run S Op Out step w sched2)).
Proof.
  intros sched1 sched2 w i s Hi Hops.
  pose proof (interleave_commutes sched1 w i s Hi) as H1.
  pose proof (interleave_commutes sched2 w i s Hi) as H2.
  destruct (run S Op Out step w sched1) as [w1 o1]. destruct (run S Op Out step w sched2) as [w2 o2].
  rewrite Hops in H1. destruct (solo S Op Out step s (ops_of Op i sched2)) as [s' so].
  destruct H1 as [A1 B1]. destruct H2 as [A2 B2]. cbn [fst snd]. split; [rewrite A1, A2; reflexivity|rewrite B1, B2; reflexivity].
Qed.
End World.
