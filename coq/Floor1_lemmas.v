(* The Bresenham line of floor1.c (render_line) equals the specification's
   point-wise interpolation (render_point) at every x of the segment. *)
From VV Require Import Setup Codebook PacketDec.
From Coq Require Import ZArith List Bool Lia ZifyBool.
Import ListNotations.
Local Open Scope Z_scope.
Ltac Zify.zify_post_hook ::= Z.div_mod_to_equations.

Section Line.
Variables (y0 dy adx : Z).
Hypothesis Hadx : 0 < adx.
Definition base := Z.quot dy adx.
Definition sg := if dy <? 0 then -1 else 1.
Definition sy := if dy <? 0 then base - 1 else base + 1.
Definition ady := Z.abs dy - Z.abs (base * adx).

Lemma ady_range : 0 <= ady < adx /\ Z.abs dy = Z.abs base * adx + ady /\ base = sg * Z.abs base.
Proof.
  unfold ady, base, sg. pose proof (Z.quot_rem dy adx ltac:(lia)) as Hq.
  pose proof (Z.rem_bound_abs dy adx ltac:(lia)) as Hr.
  destruct (dy <? 0) eqn:E.
  - assert (dy ÷ adx <= 0) by (apply Z.quot_le_upper_bound; lia || (apply Z.quot_le_upper_bound; lia)).
    pose proof (Z.rem_nonpos dy adx ltac:(lia) ltac:(lia)). nia.
  - assert (0 <= dy ÷ adx) by (apply Z.quot_pos; lia).
    pose proof (Z.rem_nonneg dy adx ltac:(lia) ltac:(lia)). nia.
Qed.

(* closed form of the loop state after k steps *)
Definition yk (k : Z) : Z := y0 + base * k + sg * (ady * k / adx).
Definition ek (k : Z) : Z := (ady * k) mod adx.

Lemma line_ys_closed : forall cnt k,
  0 <= k ->
  forall j, (j < cnt)%nat ->
  nth j (line_ys cnt (yk k) (ek k) ady adx base sy) 0 = yk (k + Z.of_nat j + 1).
Proof.
  pose proof ady_range as (Ha & _ & _).
  induction cnt as [|c IH]; intros k Hk j Hj; [lia|].
  cbn [line_ys].
  assert (ady * (k + 1) = ady * k + ady) as Emul by lia.
  assert (0 <= ady * k) as Hnn by nia.
  assert (ek k + ady >= adx -> (ady * k + ady) / adx = ady * k / adx + 1 /\ (ady * k + ady) mod adx = ek k + ady - adx) as Dge.
  { intros Hc. unfold ek in *.
    pose proof (Z.div_mod (ady * k) adx ltac:(lia)) as D1. pose proof (Z.mod_pos_bound (ady * k) adx Hadx) as B1.
    assert (ady * k + ady = adx * (ady * k / adx + 1) + ((ady * k) mod adx + ady - adx)) as E by lia.
    split; [symmetry; apply (Z.div_unique_pos _ _ _ ((ady * k) mod adx + ady - adx)); lia
           |symmetry; apply (Z.mod_unique_pos _ _ (ady * k / adx + 1)); lia]. }
  assert (ek k + ady < adx -> (ady * k + ady) / adx = ady * k / adx /\ (ady * k + ady) mod adx = ek k + ady) as Dlt.
  { intros Hc. unfold ek in *.
    pose proof (Z.div_mod (ady * k) adx ltac:(lia)) as D1. pose proof (Z.mod_pos_bound (ady * k) adx Hadx) as B1.
    split; [symmetry; apply (Z.div_unique_pos _ _ _ ((ady * k) mod adx + ady)); lia
           |symmetry; apply (Z.mod_unique_pos _ _ (ady * k / adx)); lia]. }
  assert (ek k + ady >= adx -> yk (k + 1) = yk k + sy /\ ek (k + 1) = ek k + ady - adx) as Hge.
  { intros Hc. destruct (Dge Hc) as [D1 D2]. unfold yk, ek at 1. rewrite Emul, D1, D2. unfold sy, sg. destruct (dy <? 0); split; lia. }
  assert (ek k + ady < adx -> yk (k + 1) = yk k + base /\ ek (k + 1) = ek k + ady) as Hlt.
  { intros Hc. destruct (Dlt Hc) as [D1 D2]. unfold yk, ek at 1. rewrite Emul, D1, D2. unfold sg. destruct (dy <? 0); split; lia. }
  destruct (ek k + ady >=? adx) eqn:Ec.
  - destruct (Hge ltac:(lia)) as [E1 E2]. rewrite <- E1, <- E2.
    destruct j as [|j]; [cbn; f_equal; lia|].
    cbn [nth]. rewrite (IH (k + 1) ltac:(lia) j ltac:(lia)). f_equal. lia.
  - destruct (Hlt ltac:(lia)) as [E1 E2]. rewrite <- E1, <- E2.
    destruct j as [|j]; [cbn; f_equal; lia|].
    cbn [nth]. rewrite (IH (k + 1) ltac:(lia) j ltac:(lia)). f_equal. lia.
Qed.

(* the closed form is the specification's interpolation: y0 +- |dy|*k / adx *)
Lemma yk_is_point k : 0 <= k -> yk k = y0 + sg * (Z.abs dy * k / adx).
Proof.
  intros Hk. pose proof ady_range as (Ha & Hd & Hb). unfold yk.
  rewrite Hd. replace ((Z.abs base * adx + ady) * k) with (Z.abs base * k * adx + ady * k) by lia.
  rewrite Z.div_add_l by lia. rewrite Hb at 1. lia.
Qed.
End Line.

(* render_line writes, for x0 <= x < min(n, x1), exactly render_point(x) *)
Theorem render_line_eq_point n x0 x1 y0 y1 x :
  x0 < x1 -> 0 <= y0 < 32768 -> 0 <= y1 < 32768 ->
  x0 <= x < (if n >? x1 then x1 else n) ->
  nth (Z.to_nat (x - x0)) (render_line n x0 x1 y0 y1) 0 = render_point x0 x1 y0 y1 x.
Proof.
  intros Hx Hy0 Hy1 Hr. unfold render_line, render_point.
  set (lim := if n >? x1 then x1 else n) in *.
  destruct (x0 <? lim) eqn:El; [|lia].
  change 32767 with (Z.ones 15). rewrite !Z.land_ones by lia.
  change (2 ^ 15) with 32768. rewrite !Z.mod_small by lia.
  set (dy := y1 - y0). set (adx := x1 - x0). assert (0 < adx) as Hadx by (unfold adx; lia).
  fold (base dy adx). fold (sy dy adx). fold (ady dy adx).
  rewrite (Z.quot_div_nonneg (Z.abs dy * (x - x0)) adx) by nia.
  change (dy ÷ adx) with (base dy adx).
  assert (y0 = yk y0 dy adx 0) as E0 by (unfold yk; rewrite !Z.mul_0_r; cbn; lia).
  assert (0 = ek dy adx 0) as E1 by (unfold ek; rewrite Z.mul_0_r; cbn; reflexivity).
  destruct (Z.eq_dec x x0) as [->|Hne].
  - rewrite Z.sub_diag. cbn [Z.to_nat nth]. rewrite Z.mul_0_r, Z.div_0_l by lia. destruct (dy <? 0); lia.
  - replace (Z.to_nat (x - x0)) with (S (Z.to_nat (x - x0 - 1))) by lia. cbn [nth].
    pose proof (line_ys_closed y0 dy adx Hadx (Z.to_nat (lim - x0 - 1)) 0 ltac:(lia) (Z.to_nat (x - x0 - 1)) ltac:(lia)) as Hc.
    rewrite <- E0, <- E1 in Hc. rewrite Hc.
    replace (0 + Z.of_nat (Z.to_nat (x - x0 - 1)) + 1) with (x - x0) by lia.
    rewrite (yk_is_point y0 dy adx Hadx) by lia. unfold sg. destruct (dy <? 0); lia.
Qed.
