(* Linear reading across a link boundary (lemmas for C09): the fetch that meets the first page of the next
   link dumps the decoder, enters that link, skips its header packets and leaves the handle in sync at the
   start of the new link. *)
From VV Require Import Blocking Blocking_lemmas VFile VFile_lemmas Decoder_lemmas Sync_lemmas Seek_lemmas.
From Coq Require Import ZArith List Bool Lia ZifyBool.
Import ListNotations.
Local Open Scope Z_scope.
Ltac Zify.zify_post_hook ::= Z.div_mod_to_equations.

Definition is_hdr (p : pkt) : Prop := pk_W p = None.

(* like [view], but the packet counter may have advanced *)
Definition view_np (s : vfs) := (v_hs s, v_links s, v_link s, v_serial s, v_rs s, v_dec s, v_pcm s).

Section TailC.
Variable tail : list page.

(* _fetch_and_process_packet inside one link, skipping header packets (the three Vorbis headers at the start of a
   link have no block flag and are dropped by vorbis_synthesis with OV_ENOTAUDIO) *)
Lemma fetch_plain_hdrs : forall fuel s hdrs p r,
  v_rs s = INITSET -> PlainRem tail s -> stream tail s = hdrs ++ p :: r ->
  Forall is_hdr hdrs -> (exists w, pk_W p = Some w) ->
  (length (rem1 tail s) + length hdrs < fuel)%nat ->
  exists w s0, pk_W p = Some w /\ fetch fuel s = (1, feed s0 p w) /\ view_np s0 = view_np s /\
               v_pno s0 = v_pno s + Z.of_nat (length hdrs) /\ stream tail s0 = r /\ PlainRem tail s0.
Proof.
  induction fuel as [|f IH]; intros s hdrs p r Hrs Hpl Hst Hh Hp Hf; [lia|].
  cbn [fetch]. rewrite (make_ready_initset s Hrs). rewrite Hrs. cbn [Z.eqb Pos.eqb andb].
  destruct (v_q s) as [|p0 q'] eqn:Eq.
  - (* queue empty: next page *)
    destruct Hpl as (Hfr & Hsplit & Hall).
    destruct (rem1 tail s) as [|pg r1] eqn:E1.
    + unfold stream in Hst. rewrite Eq, E1 in Hst. cbn in Hst. destruct hdrs; discriminate Hst.
    + cbn [app] in Hsplit. rewrite Hsplit.
      inversion Hall as [|x y [Hser Hbos] Hrest]; subst x y.
      cbn [v_rs set_rem v_serial]. rewrite Hrs, Hser. rewrite !Z.eqb_refl. change (INITSET <? STREAMSET) with false. cbn [negb andb].
      assert (os_pagein (set_rem s (r1 ++ tail)) pg = set_q (set_rem s (r1 ++ tail)) (pg_pkts pg) false (v_pno s)) as Hpi.
      { unfold os_pagein. cbn [v_serial set_rem v_fresh v_q v_pno]. rewrite Hser, Z.eqb_refl, Hfr, Eq. reflexivity. }
      rewrite Hpi.
      set (s1 := set_q (set_rem s (r1 ++ tail)) (pg_pkts pg) false (v_pno s)).
      assert (rem1 tail s1 = r1) as Hr1 by (apply rem1_app; reflexivity).
      assert (stream tail s1 = stream tail s) as Hst1 by (unfold stream; rewrite Hr1, E1, Eq; unfold s1; cbn; reflexivity).
      destruct (IH s1 hdrs p r) as (w & s0 & A & B & C & D & E & F); try assumption.
      * split; [reflexivity|]. split; [rewrite Hr1; reflexivity|rewrite Hr1; exact Hrest].
      * rewrite Hst1. exact Hst.
      * rewrite Hr1. cbn [length] in Hf. lia.
      * exists w, s0. split; [exact A|]. split; [exact B|]. split; [rewrite C; reflexivity|]. split; [rewrite D; reflexivity|]. split; [exact E|exact F].
  - unfold stream in Hst. rewrite Eq in Hst. cbn [app] in Hst.
    destruct hdrs as [|h hs].
    + cbn [app] in Hst. injection Hst as <- Hr. destruct Hp as [w Hw]. rewrite Hw.
      exists w, (set_q s q' (v_fresh s) (v_pno s)). split; [reflexivity|]. split; [reflexivity|]. split; [reflexivity|].
      split; [cbn; lia|]. split; [exact Hr|exact Hpl].
    + cbn [app] in Hst. injection Hst as <- Hr. inversion Hh as [|x y Hhd Hh']; subst x y. unfold is_hdr in Hhd. rewrite Hhd.
      set (s1 := set_q s q' (v_fresh s) (v_pno s + 1)).
      assert (stream tail s1 = hs ++ p :: r) as Hst1 by (unfold stream, s1; cbn [v_q set_q]; exact Hr).
      assert (length (rem1 tail s1) + length hs < f)%nat as Hf1 by (cbn [length] in Hf; change (rem1 tail s1) with (rem1 tail s); lia).
      destruct (IH s1 hs p r Hrs Hpl Hst1 Hh' Hp Hf1) as (w & s0 & A & B & C & D & E & F).
      exists w, s0. split; [exact A|]. split; [exact B|]. split; [rewrite C; reflexivity|].
        split; [rewrite D; unfold s1; cbn [v_pno set_q length]; lia|]. split; [exact E|exact F].
Qed.
End TailC.


Lemma make_ready_idem s : make_ready (make_ready s) = make_ready s.
Proof. unfold make_ready. destruct (v_rs s =? STREAMSET) eqn:E; [cbn; reflexivity|rewrite E; reflexivity]. Qed.
Lemma fetch_make_ready f s : fetch (S f) (make_ready s) = fetch (S f) s.
Proof. cbn [fetch]. rewrite make_ready_idem. reflexivity. Qed.

(* linear reading across a link boundary: the old link is exhausted, the next page is the first page of link j;
   the fetch dumps the decoder, enters link j, skips its header packets and delivers nothing for its first audio
   packet - leaving the handle in sync at position 0 of link j, the reported position being the start of link j *)
Theorem fetch_crosses_link (tail : list page) s pgb (r1 : list page) j hdrs p r w :
  let l := nth_link s j in
  v_hs s = 0 -> v_rs s = INITSET -> v_q s = [] -> v_rem s = pgb :: r1 ++ tail ->
  pg_bos pgb = true -> pg_cont pgb = false -> pg_serial pgb <> v_serial s ->
  find_link (v_links s) (pg_serial pgb) 0 = Some j -> 0 <= j ->
  Forall (plain (pg_serial pgb)) r1 ->
  pg_pkts pgb ++ flat_map pg_pkts r1 = hdrs ++ p :: r -> Forall is_hdr hdrs -> pk_W p = Some w ->
  0 < li_bs0 l -> 0 < li_bs1 l -> li_bs0 l <= li_bs1 l -> li_bs0 l mod 4 = 0 -> li_bs1 l mod 4 = 0 -> 0 <= li_init l ->
  IntactS l true 0 false (p :: r) -> v_pcm s = base_of s j ->
  exists s0,
    fetch (fetch_fuel s) s = (1, feed s0 p w) /\ SyncInv (feed s0 p w) 0 /\ v_link (feed s0 p w) = j /\
    v_pcm (feed s0 p w) = base_of s j /\ dec_pcmout (v_dec (feed s0 p w)) = 0 /\
    stream tail (feed s0 p w) = r /\ PlainRem tail (feed s0 p w) /\ IntactS l false 0 w r.
Proof.
  intros l Hhs Hrs Hq Hrem Hbos Hcont Hser Hfind Hj Hplain Hstream Hh Hw Hb0 Hb1 Hb01 Hm0 Hm1 Hi Hint Hpcm.
  assert (exists f, fetch_fuel s = S (S f)) as [f Hf].
  { unfold fetch_fuel. exists (length (v_rem s) + pkt_count (v_rem s) + length (v_q s))%nat. lia. }
  rewrite Hf. remember (S f) as g eqn:Hg. cbn [fetch]. rewrite (make_ready_initset s Hrs), Hrs, Hq.
  change (INITSET =? INITSET) with true. cbn [andb]. rewrite Hrem.
  cbn [v_rs set_rem v_serial]. rewrite Hrs. change (INITSET =? INITSET) with true.
  assert ((v_serial s =? pg_serial pgb) = false) as -> by lia. cbn [negb andb]. rewrite Hbos.
  unfold decode_clear. cbn [set_rs v_links set_rem]. rewrite Hfind. subst g.
  set (s3 := set_rs (os_reset (set_link (set_rs (set_rem s (r1 ++ tail)) OPENED) j (pg_serial pgb))) STREAMSET).
  assert (os_pagein s3 pgb = set_q s3 (pg_pkts pgb) false 0) as Hpi.
  { unfold os_pagein. unfold s3 at 1 2 3. cbn [v_serial v_fresh v_q v_pno set_rs os_reset set_q set_link]. rewrite Z.eqb_refl, Hcont. cbn [negb andb app]. reflexivity. }
  rewrite Hpi. set (s4 := set_q s3 (pg_pkts pgb) false 0).
  rewrite <- fetch_make_ready.
  set (s5 := make_ready s4).
  assert (s5 = set_rs (set_dec s4 (dec_init (cur_cfg s4))) INITSET) as Hs5 by reflexivity.
  assert (v_rs s5 = INITSET /\ v_rem s5 = r1 ++ tail /\ v_q s5 = pg_pkts pgb /\ v_fresh s5 = false /\ v_serial s5 = pg_serial pgb /\
          v_links s5 = v_links s /\ v_link s5 = j /\ v_hs s5 = v_hs s /\ v_pcm s5 = v_pcm s /\ v_pno s5 = 0 /\
          v_dec s5 = dec_init (cur_cfg s4)) as (A1 & A2 & A3 & A4 & A5 & A6 & A7 & A8 & A9 & A10 & A11) by (repeat split; reflexivity).
  assert (rem1 tail s5 = r1) as Hr5 by (apply rem1_app; exact A2).
  assert (PlainRem tail s5) as Hpl5 by (unfold PlainRem; rewrite Hr5, A4, A2, A5; repeat split; try reflexivity; exact Hplain).
  assert (stream tail s5 = hdrs ++ p :: r) as Hst5 by (unfold stream; rewrite Hr5, A3; exact Hstream).
  destruct (fetch_plain_hdrs tail (S f) s5 hdrs p r A1 Hpl5 Hst5 Hh (ex_intro _ w Hw)) as (w' & s0 & Hw' & Hfe & Hv0 & Hpno0 & Hst0 & Hpl0).
  { rewrite Hr5. unfold fetch_fuel in Hf. rewrite Hrem, Hq in Hf. cbn [length pkt_count] in Hf. rewrite app_length in Hf.
    assert (length hdrs < length (pg_pkts pgb) + pkt_count r1)%nat.
    { rewrite <- (flat_pkt_count r1), <- app_length, Hstream, app_length. cbn [length]. lia. }
    rewrite pkt_count_app in Hf. lia. }
  rewrite Hw in Hw'. injection Hw' as <-. rewrite Hfe.
  unfold view_np in Hv0. rewrite A8, A6, A7, A5, A1, A11, A9 in Hv0. injection Hv0 as V1 V2 V3 V4 V5 V6 V7.
  assert (cur_link s0 = l) as HL0 by (unfold cur_link, nth_link, l; rewrite V2, V3; reflexivity).
  assert (base_of s0 (v_link s0) = base_of s j) as HB0 by (unfold base_of; rewrite V2, V3; reflexivity).
  assert (Core s0) as Hc0.
  { unfold Core. rewrite HL0, V1, V5, Hpno0, A10. repeat split; try assumption; lia. }
  assert (PreSync s0 0 p w) as Hps0.
  { cbn [IntactS] in Hint. destruct Hint as (w2 & Hw2 & Heos & Hg & _).
    unfold PreSync. rewrite HL0, HB0, V6, V7. repeat split; try assumption; try lia. left. reflexivity. }
  destruct (feed_presync s0 0 p w Hc0 Hps0) as (Hsync & Hout & HW).
  destruct (feed_fields s0 p w) as (_ & _ & _ & _ & _ & _ & F7 & _).
  destruct (link_feed s0 p w) as (L3 & L4).
  exists s0. split; [reflexivity|]. split; [exact Hsync|]. split; [rewrite F7, V3; reflexivity|].
  split; [destruct Hsync as (_ & _ & _ & _ & _ & _ & _ & _ & S9 & _); rewrite S9, L4, HB0; lia|].
  split; [exact Hout|]. split; [rewrite (stream_feed tail); exact Hst0|]. split; [apply plain_feed; exact Hpl0|].
  cbn [IntactS] in Hint. destruct Hint as (w2 & Hw2 & _ & _ & Hrest). rewrite Hw in Hw2. injection Hw2 as <-. exact Hrest.
Qed.
