(* Termination of the loops of the seek functions for ARBITRARY page tables and handle states
   (lemmas for C03).  The loops run on explicit fuel; "terminates" is stated as: the result does
   not depend on the fuel once it exceeds the measure of the state, and the fuel the functions
   supply does exceed it. *)
From VV Require Import Blocking VFile VFile_lemmas.
From Coq Require Import ZArith List Bool Lia.
Import ListNotations.
Local Open Scope Z_scope.

(* the loops of the seek functions run on explicit fuel; "terminates" = the result does not depend on
   the fuel once it exceeds the measure of the state (pages + packets still ahead) *)

Lemma measure_pagein s pg rem' q0 :
  v_rem s = rem' -> v_q s = q0 -> (length q0 = 0)%nat ->
  (measure (os_pagein s pg) <= length rem' + pkt_count rem' + length (pg_pkts pg))%nat.
Proof.
  intros Hr Hq H0. unfold measure. rewrite os_pagein_rem, Hr. pose proof (os_pagein_q s pg) as H. rewrite Hq, H0 in H. lia.
Qed.

Lemma seek_discard_fuel : forall f1 f2 s pos lb,
  (measure s < f1)%nat -> (measure s < f2)%nat -> seek_discard f1 s pos lb = seek_discard f2 s pos lb.
Proof.
  induction f1 as [|f1 IH]; intros f2 s pos lb H1 H2; [lia|]. destruct f2 as [|f2]; [lia|].
  cbn [seek_discard].
  destruct (v_q s) as [|p q'] eqn:Eq.
  - destruct (v_rem s) as [|pg rem'] eqn:Er; [reflexivity|].
    set (s1 := set_rem s rem').
    set (s2 := if pg_bos pg then decode_clear s1 else s1).
    assert (v_rem s2 = rem' /\ v_q s2 = []) as [R2 Q2] by (unfold s2, s1; destruct (pg_bos pg); cbn; rewrite Eq; split; reflexivity).
    assert (measure s = S (length rem' + pkt_count rem' + length (pg_pkts pg)))%nat as Hm
      by (unfold measure; rewrite Er, Eq; cbn [length pkt_count]; lia).
    destruct (v_rs s2 <? STREAMSET).
    + destruct (find_link (v_links s2) (pg_serial pg) 0) as [link|].
      * set (s3 := make_ready _).
        assert (v_rem s3 = rem' /\ v_q s3 = []) as [R3 Q3].
        { unfold s3, make_ready. destruct (v_rs _ =? STREAMSET); cbn; rewrite R2; split; reflexivity. }
        pose proof (measure_pagein s3 pg rem' [] R3 Q3 eq_refl) as Hp.
        apply IH; lia.
      * apply IH; unfold measure; rewrite R2, Q2; cbn [length]; lia.
    + pose proof (measure_pagein s2 pg rem' [] R2 Q2 eq_refl) as Hp. apply IH; lia.
  - assert (measure s = S (length (v_rem s) + pkt_count (v_rem s) + length q'))%nat as Hm
      by (unfold measure; rewrite Eq; cbn [length]; lia).
    destruct (pk_W p) as [w|].
    + set (s1 := if negb (lb =? 0) then _ else s).
      assert (v_rem s1 = v_rem s) as R1 by (unfold s1; destruct (negb (lb =? 0)); reflexivity).
      cbv zeta.
      destruct (_ >=? pos); [reflexivity|].
      destruct (dec_blockin _ _ _) as [rc d].
      set (s3 := if pk_gran p >? -1 then _ else _).
      assert (v_rem s3 = v_rem s /\ v_q s3 = q') as [R3 Q3].
      { unfold s3. destruct (pk_gran p >? -1); cbn; rewrite R1; split; reflexivity. }
      apply IH; unfold measure; rewrite R3, Q3; lia.
    + apply IH; unfold measure; cbn; lia.
Qed.


Lemma fetch_fuel_indep : forall f1 f2 s,
  (measure s < f1)%nat -> (measure s < f2)%nat -> fetch f1 s = fetch f2 s.
Proof.
  induction f1 as [|f1 IH]; intros f2 s H1 H2; [lia|]. destruct f2 as [|f2]; [lia|].
  cbn [fetch]. rewrite <- (measure_make_ready s) in H1, H2. set (s0 := make_ready s) in *. clearbody s0.
  destruct (v_q s0) as [|p q'] eqn:Eq.
  - rewrite andb_false_r.
    destruct (v_rem s0) as [|pg rem'] eqn:Er; [reflexivity|].
    assert (measure s0 = S (length rem' + pkt_count rem' + length (pg_pkts pg)))%nat as Hm
      by (unfold measure; rewrite Er, Eq; cbn [length pkt_count]; lia).
    assert (forall t, v_rem t = rem' -> v_q t = [] -> fetch f1 t = fetch f2 t) as K.
    { intros t A B. apply IH; unfold measure; rewrite A, B; cbn [length]; lia. }
    assert (forall t, v_rem t = rem' -> v_q t = [] -> fetch f1 (os_pagein t pg) = fetch f2 (os_pagein t pg)) as K2.
    { intros t A B. pose proof (measure_pagein t pg rem' [] A B eq_refl). apply IH; lia. }
    destruct ((v_rs (set_rem s0 rem') =? INITSET) && negb (v_serial (set_rem s0 rem') =? pg_serial pg)).
    + destruct (pg_bos pg).
      * destruct (find_link _ _ _); [apply K2|apply K]; cbn; try reflexivity; exact Eq.
      * apply K; cbn; [reflexivity|exact Eq].
    + destruct (v_rs (set_rem s0 rem') <? STREAMSET).
      * destruct (find_link _ _ _); [apply K2|apply K]; cbn; try reflexivity; exact Eq.
      * apply K2; cbn; [reflexivity|exact Eq].
  - destruct (v_rs s0 =? INITSET); cbn [andb].
    + destruct (pk_W p); [reflexivity|].
      apply IH; unfold measure in *; rewrite Eq in H1, H2; cbn [length v_rem v_q set_q] in *; lia.
    + destruct (v_rem s0) as [|pg rem'] eqn:Er; [reflexivity|].
      assert (measure s0 = S (length rem' + pkt_count rem' + length (pg_pkts pg) + length (p :: q')))%nat as Hm
        by (unfold measure; rewrite Er, Eq; cbn [length pkt_count]; lia).
      assert (forall t, v_rem t = rem' -> (length (v_q t) <= length (p :: q'))%nat -> fetch f1 t = fetch f2 t) as K.
      { intros t A B. apply IH; unfold measure; rewrite A; lia. }
      assert (forall t, v_rem t = rem' -> (length (v_q t) <= length (p :: q'))%nat -> fetch f1 (os_pagein t pg) = fetch f2 (os_pagein t pg)) as K2.
      { intros t A B. pose proof (os_pagein_q t pg). apply IH; unfold measure; rewrite os_pagein_rem, A; lia. }
      destruct ((v_rs (set_rem s0 rem') =? INITSET) && negb (v_serial (set_rem s0 rem') =? pg_serial pg)).
      * destruct (pg_bos pg).
        -- destruct (find_link _ _ _); [apply K2|apply K]; cbn; try reflexivity; try rewrite Eq; cbn; lia.
        -- apply K; cbn; [reflexivity|rewrite Eq; cbn; lia].
      * destruct (v_rs (set_rem s0 rem') <? STREAMSET).
        -- destruct (find_link _ _ _); [apply K2|apply K]; cbn; try reflexivity; try rewrite Eq; cbn; lia.
        -- apply K2; cbn; [reflexivity|rewrite Eq; cbn; lia].
Qed.


Lemma os_pagein_hs s pg : v_hs (os_pagein s pg) = v_hs s.
Proof.
  unfold os_pagein. destruct (negb (pg_serial pg =? v_serial s)); [reflexivity|].
  destruct (v_fresh s && pg_cont pg); [destruct (pg_pkts pg)|]; reflexivity.
Qed.
Lemma make_ready_hs s : v_hs (make_ready s) = v_hs s.
Proof. unfold make_ready. destruct (v_rs s =? STREAMSET); reflexivity. Qed.
Lemma process_audio_hs s p w : v_hs (process_audio s p w) = v_hs s.
Proof.
  unfold process_audio. destruct (dec_blockin _ _ _) as [rc d].
  destruct (negb (pk_gran p =? -1) && negb (pk_eos p)); reflexivity.
Qed.
Lemma fetch_hs : forall fuel s, v_hs (snd (fetch fuel s)) = v_hs s.
Proof.
  induction fuel as [|f IH]; intros s; cbn [fetch]; [reflexivity|].
  rewrite <- (make_ready_hs s). set (s0 := make_ready s). clearbody s0.
  destruct ((v_rs s0 =? INITSET) && match v_q s0 with [] => false | _ => true end).
  - destruct (v_q s0) as [|p q']; [reflexivity|].
    destruct (pk_W p) as [w|]; cbn [snd]; [cbn [v_hs set_q]; rewrite process_audio_hs; reflexivity|rewrite IH; reflexivity].
  - destruct (v_rem s0) as [|pg rem']; [reflexivity|].
    destruct (_ && _).
    + destruct (pg_bos pg); [destruct (find_link _ _ 0)|]; rewrite IH; rewrite ?os_pagein_hs; reflexivity.
    + destruct (_ <? _); [destruct (find_link _ _ 0)|]; rewrite IH; rewrite ?os_pagein_hs; reflexivity.
Qed.

Lemma st_total s t : same_tables s t -> pcm_total t = pcm_total s.
Proof. intros [H _]. unfold pcm_total. rewrite H. reflexivity. Qed.

Lemma pcmout_nonneg d : 0 <= dec_pcmout d.
Proof. unfold dec_pcmout. destruct ((d_ret d >? -1) && (d_ret d <? d_cur d)) eqn:E; lia. Qed.

(* an iteration that has nothing left to do returns at once, whatever the fuel *)
Lemma seek_skip_exit f s pos :
  (v_pcm s <? Z.shiftl (Z.shiftr pos (v_hs s)) (v_hs s)) = false \/ Z.shiftr (pos - v_pcm s) (v_hs s) <= 0 ->
  seek_skip (S f) s pos = s.
Proof.
  intros H. cbn [seek_skip]. cbv zeta. destruct (v_pcm s <? _) eqn:E; [|reflexivity].
  destruct H as [H|H]; [discriminate|].
  destruct (Z.shiftr (pos - v_pcm s) (v_hs s) <=? 0) eqn:E2; [reflexivity|lia].
Qed.

Lemma shift_floor pos h : 0 <= h -> Z.shiftl (Z.shiftr pos h) h <= pos.
Proof.
  intros Hh. rewrite Z.shiftr_div_pow2, Z.shiftl_mul_pow2 by lia.
  assert (0 < 2 ^ h) by (apply Z.pow_pos_nonneg; lia). pose proof (Z.mul_div_le pos (2 ^ h) H). lia.
Qed.
Lemma shift_rest D h : 0 <= h -> 0 <= D -> Z.shiftr (D - Z.shiftl (Z.shiftr D h) h) h <= 0.
Proof.
  intros Hh HD. rewrite !Z.shiftr_div_pow2, Z.shiftl_mul_pow2 by lia.
  assert (0 < 2 ^ h) as Hp by (apply Z.pow_pos_nonneg; lia).
  replace (D - D / 2 ^ h * 2 ^ h) with (D mod 2 ^ h) by (rewrite Z.mod_eq by lia; ring).
  rewrite Z.div_small; [lia|]. apply Z.mod_pos_bound. exact Hp.
Qed.

(* ov_pcm_seek's sample-discarding loop ends for ANY page table and state, when the target does not exceed the total *)
Lemma seek_skip_fuel : forall f1 f2 s pos,
  0 <= v_hs s -> pos <= pcm_total s ->
  (packets s + 2 <= f1)%nat -> (packets s + 2 <= f2)%nat -> seek_skip f1 s pos = seek_skip f2 s pos.
Proof.
  induction f1 as [|f1 IH]; intros f2 s pos Hh Htot H1 H2; [lia|]. destruct f2 as [|f2]; [lia|].
  destruct f1 as [|f1]; [lia|]. destruct f2 as [|f2]; [lia|].
  remember (S f1) as g1. remember (S f2) as g2.
  cbn [seek_skip]. cbv zeta.
  set (h := v_hs s) in *.
  destruct (v_pcm s <? Z.shiftl (Z.shiftr pos h) h) eqn:Elt; [|reflexivity].
  set (target := Z.shiftr (pos - v_pcm s) h).
  destruct (target <=? 0) eqn:Et; [reflexivity|].
  set (samples0 := if v_rs s =? INITSET then dec_pcmout (v_dec s) else 0).
  set (samples := if samples0 >? target then target else samples0).
  destruct (dec_read (v_dec s) samples) as [rcr d].
  set (s1 := set_pcm (set_dec s d) (v_pcm s + Z.shiftl samples h)).
  destruct (samples <? target) eqn:Ecmp.
  - pose proof (fetch_packets (fetch_fuel s1) s1) as [P1 P2].
    pose proof (fetch_fuel_enough s1) as Hfe.
    pose proof (fetch_rc (fetch_fuel s1) s1) as Hrc.
    pose proof (st_fetch (fetch_fuel s1) s1) as Hst.
    pose proof (fetch_hs (fetch_fuel s1) s1) as Hhs.
    destruct (fetch (fetch_fuel s1) s1) as [rc s2]. cbn [fst snd] in *.
    assert (packets s1 = packets s) as Hps by reflexivity.
    assert (pcm_total s2 = pcm_total s) as Ht2 by (rewrite (st_total s1 s2 Hst); reflexivity).
    destruct (rc <=? 0) eqn:Erc.
    + (* end of data: position := total >= target; the next iteration returns *)
      assert ((v_pcm (set_pcm s2 (pcm_total s2)) <? Z.shiftl (Z.shiftr pos (v_hs (set_pcm s2 (pcm_total s2)))) (v_hs (set_pcm s2 (pcm_total s2)))) = false \/
              Z.shiftr (pos - v_pcm (set_pcm s2 (pcm_total s2))) (v_hs (set_pcm s2 (pcm_total s2))) <= 0) as Hex.
      { left. cbn [v_pcm v_hs set_pcm]. rewrite Hhs. change (v_hs s1) with h. pose proof (shift_floor pos h Hh). rewrite Ht2. lia. }
      subst g1 g2. rewrite (seek_skip_exit f1 _ pos Hex), (seek_skip_exit f2 _ pos Hex). reflexivity.
    + destruct Hrc as [-> | [-> | ->]]; [|unfold OV_EOF_ in Erc; lia|unfold OUT_OF_FUEL in Erc; lia].
      specialize (P2 eq_refl). apply IH; try lia.
      * rewrite Hhs. exact Hh.
  - (* the target lies within what is pending: after discarding it nothing is left to do *)
    assert (samples = target) as Hs.
    { unfold samples in *. destruct (samples0 >? target) eqn:E; [reflexivity|]. lia. }
    assert ((v_pcm s1 <? Z.shiftl (Z.shiftr pos (v_hs s1)) (v_hs s1)) = false \/ Z.shiftr (pos - v_pcm s1) (v_hs s1) <= 0) as Hex.
    { right. unfold s1. cbn [v_pcm v_hs set_pcm set_dec]. fold h. rewrite Hs. unfold target.
      replace (pos - (v_pcm s + Z.shiftl (Z.shiftr (pos - v_pcm s) h) h)) with ((pos - v_pcm s) - Z.shiftl (Z.shiftr (pos - v_pcm s) h) h) by lia.
      apply shift_rest; [exact Hh|]. pose proof (shift_floor pos h Hh). lia. }
    subst g1 g2. rewrite (seek_skip_exit f1 _ pos Hex), (seek_skip_exit f2 _ pos Hex). reflexivity.
Qed.


Definition rmeasure (s : vfs) (r : rscan) : nat := (length (v_rem s) + pkt_count (v_rem s) + length (r_wq r))%nat.

Lemma work_pagein_wq r pg lf ff : (length (r_wq (work_pagein r pg lf ff)) <= length (r_wq r) + length (pg_pkts pg))%nat.
Proof.
  unfold work_pagein. cbn [r_wq]. rewrite app_length.
  destruct (r_wfresh r && pg_cont pg); [destruct (pg_pkts pg); cbn; lia|lia].
Qed.

(* ov_raw_seek's scan ends for ANY page table and state *)
Lemma raw_scan_fuel : forall f1 f2 s r,
  (rmeasure s r < f1)%nat -> (rmeasure s r < f2)%nat -> raw_scan f1 s r = raw_scan f2 s r.
Proof.
  induction f1 as [|f1 IH]; intros f2 s r H1 H2; [lia|]. destruct f2 as [|f2]; [lia|].
  cbn [raw_scan]. cbv zeta.
  assert ((if negb (r_last r =? 0) then set_pcm s (-1)
           else match v_rem s with
                | [] => set_pcm s (pcm_total s)
                | pg :: rem' =>
                    let s1 := set_rem s rem' in
                    let s2 := if (v_rs s1 >=? STREAMSET) && negb (v_serial s1 =? pg_serial pg) && pg_bos pg then decode_clear s1 else s1 in
                    if v_rs s2 <? STREAMSET then
                      match find_link (v_links s2) (pg_serial pg) 0 with
                      | None => raw_scan f1 s2 r
                      | Some link =>
                          let s3 := set_rs (os_reset (set_link s2 link (pg_serial pg))) STREAMSET in
                          let r3 := {| r_last := r_last r; r_acc := r_acc r; r_lastflag := r_lastflag r;
                                       r_firstflag := r_firstflag r; r_wq := []; r_wfresh := true |} in
                          raw_scan f1 (os_pagein s3 pg) (work_pagein r3 pg (pg_eos pg) (pg_off pg <=? li_dataoff (cur_link s3)))
                      end
                    else raw_scan f1 (os_pagein s2 pg) (work_pagein r pg (pg_eos pg) (pg_off pg <=? li_dataoff (cur_link s2)))
                end) =
          (if negb (r_last r =? 0) then set_pcm s (-1)
           else match v_rem s with
                | [] => set_pcm s (pcm_total s)
                | pg :: rem' =>
                    let s1 := set_rem s rem' in
                    let s2 := if (v_rs s1 >=? STREAMSET) && negb (v_serial s1 =? pg_serial pg) && pg_bos pg then decode_clear s1 else s1 in
                    if v_rs s2 <? STREAMSET then
                      match find_link (v_links s2) (pg_serial pg) 0 with
                      | None => raw_scan f2 s2 r
                      | Some link =>
                          let s3 := set_rs (os_reset (set_link s2 link (pg_serial pg))) STREAMSET in
                          let r3 := {| r_last := r_last r; r_acc := r_acc r; r_lastflag := r_lastflag r;
                                       r_firstflag := r_firstflag r; r_wq := []; r_wfresh := true |} in
                          raw_scan f2 (os_pagein s3 pg) (work_pagein r3 pg (pg_eos pg) (pg_off pg <=? li_dataoff (cur_link s3)))
                      end
                    else raw_scan f2 (os_pagein s2 pg) (work_pagein r pg (pg_eos pg) (pg_off pg <=? li_dataoff (cur_link s2)))
                end)) as Htake.
  { destruct (negb (r_last r =? 0)); [reflexivity|].
    destruct (v_rem s) as [|pg rem'] eqn:Er; [reflexivity|]. cbv zeta.
    set (s1 := set_rem s rem').
    set (s2 := if (v_rs s1 >=? STREAMSET) && negb (v_serial s1 =? pg_serial pg) && pg_bos pg then decode_clear s1 else s1).
    assert (v_rem s2 = rem') as R2 by (unfold s2, s1; destruct ((v_rs (set_rem s rem') >=? STREAMSET) && negb (v_serial (set_rem s rem') =? pg_serial pg) && pg_bos pg); reflexivity).
    assert (rmeasure s r = S (length rem' + pkt_count rem' + length (pg_pkts pg) + length (r_wq r)))%nat as Hm
      by (unfold rmeasure; rewrite Er; cbn [length pkt_count]; lia).
    destruct (v_rs s2 <? STREAMSET).
    - destruct (find_link (v_links s2) (pg_serial pg) 0) as [link|].
      + set (s3 := set_rs _ STREAMSET). set (r3 := {| r_last := r_last r; r_wq := [] |}).
        set (w := work_pagein r3 pg _ _).
        pose proof (work_pagein_wq r3 pg (pg_eos pg) (pg_off pg <=? li_dataoff (cur_link s3))) as Hw. fold w in Hw. cbn [r_wq r3 length] in Hw.
        apply IH; unfold rmeasure; rewrite os_pagein_rem; unfold s3; cbn [v_rem set_rs os_reset set_q set_link]; rewrite R2; lia.
      + apply IH; unfold rmeasure; rewrite R2; lia.
    - set (w := work_pagein r pg _ _).
      pose proof (work_pagein_wq r pg (pg_eos pg) (pg_off pg <=? li_dataoff (cur_link s2))) as Hw. fold w in Hw.
      apply IH; unfold rmeasure; rewrite os_pagein_rem, R2; lia. }
  destruct (v_rs s >=? STREAMSET); [|exact Htake].
  destruct (r_wq r) as [|p wq'] eqn:Ew; [exact Htake|]. clear Htake.
  assert (rmeasure s r = S (length (v_rem s) + pkt_count (v_rem s) + length wq'))%nat as Hm
    by (unfold rmeasure; rewrite Ew; cbn [length]; lia).
  destruct (pk_W p) as [w|].
  - destruct (r_lastflag r && negb (r_firstflag r)).
    + destruct (negb (pk_gran p =? -1)); [reflexivity|]. apply IH; unfold rmeasure; cbn [v_rem set_q r_wq]; lia.
    + destruct (negb (pk_gran p =? -1)); [reflexivity|]. apply IH; unfold rmeasure; cbn [v_rem set_q r_wq]; lia.
  - destruct (negb (pk_gran p =? -1)); [reflexivity|]. apply IH; unfold rmeasure; cbn [v_rem set_q r_wq]; lia.
Qed.

Definition same_hs (s s' : vfs) : Prop := v_hs s' = v_hs s.

Lemma hsp_refl s : same_hs s s. Proof. reflexivity. Qed.
Lemma hsp_trans a b c : same_hs a b -> same_hs b c -> same_hs a c.
Proof. unfold same_hs. congruence. Qed.

Ltac hsp_set :=
  match goal with
  | |- same_hs ?a (set_q ?b _ _ _) => apply (hsp_trans a b); [|reflexivity]
  | |- same_hs ?a (set_rem ?b _) => apply (hsp_trans a b); [|reflexivity]
  | |- same_hs ?a (set_rs ?b _) => apply (hsp_trans a b); [|reflexivity]
  | |- same_hs ?a (set_pcm ?b _) => apply (hsp_trans a b); [|reflexivity]
  | |- same_hs ?a (set_dec ?b _) => apply (hsp_trans a b); [|reflexivity]
  | |- same_hs ?a (set_link ?b _ _) => apply (hsp_trans a b); [|reflexivity]
  | |- same_hs ?a ?a => apply hsp_refl
  end.

Lemma hsp_os_reset s : same_hs s (os_reset s). Proof. unfold os_reset. repeat hsp_set. Qed.
Lemma hsp_os_pagein s pg : same_hs s (os_pagein s pg).
Proof.
  unfold os_pagein. destruct (negb (pg_serial pg =? v_serial s)); [apply hsp_refl|].
  destruct (v_fresh s && pg_cont pg); [destruct (pg_pkts pg)|]; repeat hsp_set.
Qed.
Lemma hsp_decode_clear s : same_hs s (decode_clear s). Proof. unfold decode_clear. repeat hsp_set. Qed.
Lemma hsp_make_ready s : same_hs s (make_ready s).
Proof. unfold make_ready. destruct (v_rs s =? STREAMSET); repeat hsp_set. Qed.
Lemma hsp_process_audio s p w : same_hs s (process_audio s p w).
Proof.
  unfold process_audio. destruct (dec_blockin _ _ _) as [rc d].
  destruct (negb (pk_gran p =? -1) && negb (pk_eos p)); repeat hsp_set.
Qed.

Ltac hsp_step :=
  match goal with
  | |- same_hs ?a (os_pagein ?b _) => apply (hsp_trans a b); [|apply hsp_os_pagein]
  | |- same_hs ?a (os_reset ?b) => apply (hsp_trans a b); [|apply hsp_os_reset]
  | |- same_hs ?a (decode_clear ?b) => apply (hsp_trans a b); [|apply hsp_decode_clear]
  | |- same_hs ?a (make_ready ?b) => apply (hsp_trans a b); [|apply hsp_make_ready]
  | |- same_hs ?a (process_audio ?b _ _) => apply (hsp_trans a b); [|apply hsp_process_audio]
  | |- same_hs ?a (set_q ?b _ _ _) => apply (hsp_trans a b); [|reflexivity]
  | |- same_hs ?a (set_rem ?b _) => apply (hsp_trans a b); [|reflexivity]
  | |- same_hs ?a (set_rs ?b _) => apply (hsp_trans a b); [|reflexivity]
  | |- same_hs ?a (set_pcm ?b _) => apply (hsp_trans a b); [|reflexivity]
  | |- same_hs ?a (set_dec ?b _) => apply (hsp_trans a b); [|reflexivity]
  | |- same_hs ?a (set_link ?b _ _) => apply (hsp_trans a b); [|reflexivity]
  | |- same_hs ?a ?a => apply hsp_refl
  end.

Lemma hsp_fetch fuel : forall s, same_hs s (snd (fetch fuel s)).
Proof.
  induction fuel as [|f IH]; intros s; cbn [fetch]; [apply hsp_refl|].
  pose proof (hsp_make_ready s) as Hm. set (s0 := make_ready s) in *.
  apply (hsp_trans s s0); [exact Hm|]. clear Hm.
  destruct ((v_rs s0 =? INITSET) && match v_q s0 with [] => false | _ => true end).
  - destruct (v_q s0) as [|p q']; [apply hsp_refl|].
    destruct (pk_W p) as [w|]; cbn [snd].
    + repeat hsp_step.
    + eapply hsp_trans; [|apply IH]. repeat hsp_step.
  - destruct (v_rem s0) as [|pg rem']; [apply hsp_refl|].
    set (s1 := set_rem s0 rem').
    assert (same_hs s0 s1) as H1 by (split; reflexivity).
    apply (hsp_trans s0 s1); [exact H1|].
    destruct ((v_rs s1 =? INITSET) && negb (v_serial s1 =? pg_serial pg)).
    + destruct (pg_bos pg).
      * destruct (find_link (v_links (decode_clear s1)) (pg_serial pg) 0).
        -- eapply hsp_trans; [|apply IH]. repeat hsp_step.
        -- eapply hsp_trans; [|apply IH]. repeat hsp_step.
      * apply IH.
    + destruct (v_rs s1 <? STREAMSET).
      * destruct (find_link (v_links s1) (pg_serial pg) 0).
        -- eapply hsp_trans; [|apply IH]. repeat hsp_step.
        -- apply IH.
      * eapply hsp_trans; [|apply IH]. repeat hsp_step.
Qed.

Lemma hsp_read_float fuel : forall s len, same_hs s (snd (read_float fuel s len)).
Proof.
  induction fuel as [|f IH]; intros s len; cbn [read_float]; [apply hsp_refl|].
  destruct (negb ((if v_rs s =? INITSET then dec_pcmout (v_dec s) else 0) =? 0)).
  - destruct (dec_read _ _) as [rc d]. cbn [snd]. repeat hsp_step.
  - pose proof (hsp_fetch (fetch_fuel s) s) as Hf.
    destruct (fetch (fetch_fuel s) s) as [rc s1]. cbn [snd] in Hf.
    destruct (rc =? OV_EOF_); [exact Hf|]. destruct (rc <=? 0); [exact Hf|].
    eapply hsp_trans; [exact Hf|apply IH].
Qed.

Lemma hsp_raw_scan fuel : forall s r, same_hs s (raw_scan fuel s r).
Proof.
  induction fuel as [|f IH]; intros s r; cbn [raw_scan]; [repeat hsp_step|].
  set (take := if negb (r_last r =? 0) then set_pcm s (-1) else _).
  assert (same_hs s take) as Ht.
  { unfold take. destruct (negb (r_last r =? 0)); [repeat hsp_step|].
    destruct (v_rem s) as [|pg rem']; [repeat hsp_step|].
    set (s1 := set_rem s rem').
    set (s2 := if (v_rs s1 >=? STREAMSET) && negb (v_serial s1 =? pg_serial pg) && pg_bos pg then decode_clear s1 else s1).
    assert (same_hs s s2) as H2.
    { unfold s2. destruct (_ && _ && _); unfold s1; repeat hsp_step. }
    destruct (v_rs s2 <? STREAMSET).
    - destruct (find_link (v_links s2) (pg_serial pg) 0).
      + eapply hsp_trans; [|apply IH]. eapply hsp_trans; [exact H2|]. repeat hsp_step.
      + eapply hsp_trans; [exact H2|apply IH].
    - eapply hsp_trans; [|apply IH]. eapply hsp_trans; [exact H2|]. repeat hsp_step. }
  destruct (v_rs s >=? STREAMSET); [|exact Ht].
  destruct (r_wq r) as [|p wq']; [exact Ht|].
  destruct (pk_W p) as [w|].
  - destruct (r_lastflag r && negb (r_firstflag r)).
    + destruct (negb (pk_gran p =? -1)); [repeat hsp_step|].
      eapply hsp_trans; [|apply IH]. repeat hsp_step.
    + destruct (negb (pk_gran p =? -1)); [repeat hsp_step|apply IH].
  - destruct (negb (pk_gran p =? -1)); [repeat hsp_step|].
    eapply hsp_trans; [|apply IH]. repeat hsp_step.
Qed.

Lemma hsp_raw_seek s pos : same_hs s (snd (raw_seek s pos)).
Proof.
  unfold raw_seek. destruct (v_rs s <? OPENED); [apply hsp_refl|].
  destruct ((pos <? 0) || (pos >? file_end s)); [apply hsp_refl|]. cbn [snd].
  eapply hsp_trans; [|apply hsp_raw_scan].
  destruct ((v_rs s >=? STREAMSET) && _); repeat hsp_step.
Qed.

Lemma hsp_enter_link s link : same_hs s (enter_link s link).
Proof. unfold enter_link. destruct (negb (link =? v_link s) || (v_rs s <? STREAMSET)); repeat hsp_step. Qed.

Lemma hsp_pcm_seek_page s pos : same_hs s (snd (pcm_seek_page s pos)).
Proof.
  unfold pcm_seek_page. destruct (v_rs s <? OPENED); [apply hsp_refl|].
  destruct ((pos <? 0) || (pos >? pcm_total s)); [apply hsp_refl|].
  destruct (link_of_pos _ _ _ _) as [link total].
  destruct (best_page _ _ _ None) as [[|pg rem']|].
  - apply hsp_refl.
  - set (s1 := enter_link (set_pcm (set_rem s rem') (-1)) link).
    assert (same_hs s s1) as H1.
    { unfold s1. eapply hsp_trans; [|apply hsp_enter_link]. repeat hsp_step. }
    set (s2 := os_pagein (os_reset s1) pg).
    assert (same_hs s s2) as H2 by (unfold s2; eapply hsp_trans; [exact H1|]; repeat hsp_step).
    destruct (drop_to_gran (v_q s2) 0) as [[[q' n] g]|].
    + match goal with |- context [if ?c then _ else _] => destruct c end; cbn [snd];
        (eapply hsp_trans; [exact H2|]); repeat hsp_step.
    + destruct (rewind_page _ _); cbn [snd]; [|exact H2].
      eapply hsp_trans; [exact H2|apply hsp_raw_seek].
  - destruct (pages_from (v_pages s) _) as [|pg rem']; cbn [snd]; [repeat hsp_step|].
    destruct (pg_serial pg =? _); cbn [snd]; [|repeat hsp_step].
    set (s1 := enter_link (set_pcm s total) link).
    assert (same_hs s s1) as H1.
    { unfold s1. eapply hsp_trans; [|apply hsp_enter_link]. repeat hsp_step. }
    match goal with |- context [if ?c then _ else _] => destruct c end; cbn [snd];
      (eapply hsp_trans; [exact H1|]); repeat hsp_step.
Qed.

Lemma hsp_seek_discard fuel : forall s pos lb, same_hs s (seek_discard fuel s pos lb).
Proof.
  induction fuel as [|f IH]; intros s pos lb; cbn [seek_discard]; [repeat hsp_step|].
  destruct (v_q s) as [|p q'].
  - destruct (v_rem s) as [|pg rem']; [apply hsp_refl|].
    set (s1 := set_rem s rem').
    set (s2 := if pg_bos pg then decode_clear s1 else s1).
    assert (same_hs s s2) as H2 by (unfold s2, s1; destruct (pg_bos pg); repeat hsp_step).
    destruct (v_rs s2 <? STREAMSET).
    + destruct (find_link (v_links s2) (pg_serial pg) 0).
      * eapply hsp_trans; [|apply IH]. eapply hsp_trans; [exact H2|]. repeat hsp_step.
      * eapply hsp_trans; [exact H2|apply IH].
    + eapply hsp_trans; [|apply IH]. eapply hsp_trans; [exact H2|]. repeat hsp_step.
  - destruct (pk_W p) as [w|].
    + set (s1 := if negb (lb =? 0) then _ else s).
      assert (same_hs s s1) as H1 by (unfold s1; destruct (negb (lb =? 0)); repeat hsp_step).
      destruct (_ >=? pos); [exact H1|].
      destruct (dec_blockin _ _ _) as [rc d].
      eapply hsp_trans; [|apply IH].
      destruct (pk_gran p >? -1); (eapply hsp_trans; [exact H1|]); repeat hsp_step.
    + eapply hsp_trans; [|apply IH]. repeat hsp_step.
Qed.

Lemma hsp_seek_skip fuel : forall s pos, same_hs s (seek_skip fuel s pos).
Proof.
  induction fuel as [|f IH]; intros s pos; cbn [seek_skip]; [repeat hsp_step|].
  destruct (v_pcm s <? _); [|apply hsp_refl].
  destruct (_ <=? 0); [apply hsp_refl|].
  destruct (dec_read _ _) as [rc d].
  match goal with |- context [if ?c then _ else _] => destruct c end.
  - set (s1 := set_pcm (set_dec s d) _).
    assert (same_hs s s1) as H1 by (unfold s1; repeat hsp_step).
    pose proof (hsp_fetch (fetch_fuel s1) s1) as Hf.
    destruct (fetch (fetch_fuel s1) s1) as [rc2 s2]. cbn [snd] in Hf.
    destruct (rc2 <=? 0); (eapply hsp_trans; [|apply IH]); (eapply hsp_trans; [exact H1|]); [|exact Hf].
    eapply hsp_trans; [exact Hf|]. repeat hsp_step.
  - eapply hsp_trans; [|apply IH]. repeat hsp_step.
Qed.

Lemma hsp_pcm_seek s pos : same_hs s (snd (pcm_seek s pos)).
Proof.
  unfold pcm_seek. pose proof (hsp_pcm_seek_page s pos) as H.
  destruct (pcm_seek_page s pos) as [rc s1]. cbn [snd] in H.
  destruct (rc <? 0); [exact H|]. cbn [snd].
  eapply hsp_trans; [|apply hsp_seek_skip]. eapply hsp_trans; [|apply hsp_seek_discard].
  eapply hsp_trans; [exact H|apply hsp_make_ready].
Qed.



(* the seek functions with k more units of fuel in each of their loops *)
Definition raw_seek_x (k : nat) (s : vfs) (pos : Z) : Z * vfs :=
  if v_rs s <? OPENED then (OV_EINVAL_, s)
  else if (pos <? 0) || (pos >? file_end s) then (OV_EINVAL_, s)
  else
    let s1 := if (v_rs s >=? STREAMSET) &&
                 ((pos <? li_off (cur_link s)) || (pos >=? li_end (cur_link s)))
              then decode_clear s else s in
    let s2 := set_pcm (os_reset s1) (-1) in
    let s3 := set_dec s2 (dec_restart (cur_cfg s2) (v_dec s2)) in
    let s4 := set_rem s3 (pages_from (v_pages s3) pos) in
    let r0 := {| r_last := 0; r_acc := 0; r_lastflag := false; r_firstflag := false; r_wq := []; r_wfresh := true |} in
    (0, raw_scan (length (v_rem s4) + pkt_count (v_rem s4) + 2 + k) s4 r0).

Definition pcm_seek_x (k : nat) (s : vfs) (pos : Z) : Z * vfs :=
  match pcm_seek_page s pos with
  | (rc, s1) =>
      if rc <? 0 then (rc, s1)
      else
        let s2 := make_ready s1 in
        let s3 := seek_discard (length (v_rem s2) + pkt_count (v_rem s2) + length (v_q s2) + 2 + k) s2 pos 0 in
        (0, seek_skip (pkt_count (v_rem s3) + length (v_q s3) + 3 + k) s3 pos)
  end.

Theorem raw_seek_terminates k s pos : raw_seek_x k s pos = raw_seek s pos.
Proof.
  unfold raw_seek_x, raw_seek. destruct (v_rs s <? OPENED); [reflexivity|].
  destruct ((pos <? 0) || (pos >? file_end s)); [reflexivity|]. cbv zeta. f_equal.
  apply raw_scan_fuel; unfold rmeasure; cbn [r_wq length]; lia.
Qed.

Lemma page_seek_total_bound s pos s1 : pcm_seek_page s pos = (0, s1) -> pos <= pcm_total s.
Proof.
  unfold pcm_seek_page. destruct (v_rs s <? OPENED); [intros H; inversion H|].
  destruct ((pos <? 0) || (pos >? pcm_total s)) eqn:E; [intros H; inversion H|]. intros _. lia.
Qed.

Theorem pcm_seek_terminates k s pos : 0 <= v_hs s -> pcm_seek_x k s pos = pcm_seek s pos.
Proof.
  intros Hh. unfold pcm_seek_x, pcm_seek.
  pose proof (st_pcm_seek_page s pos) as Hst. pose proof (hsp_pcm_seek_page s pos) as Hhs.
  destruct (pcm_seek_page s pos) as [rc s1] eqn:Ep. cbn [snd] in Hst, Hhs.
  destruct (rc <? 0) eqn:Erc; [reflexivity|]. cbv zeta.
  set (s2 := make_ready s1).
  assert (seek_discard (length (v_rem s2) + pkt_count (v_rem s2) + length (v_q s2) + 2 + k) s2 pos 0 =
          seek_discard (length (v_rem s2) + pkt_count (v_rem s2) + length (v_q s2) + 2) s2 pos 0) as Hd
    by (apply seek_discard_fuel; unfold measure; lia).
  rewrite Hd. set (s3 := seek_discard _ s2 pos 0). f_equal.
  (* the page seek succeeded with rc >= 0; its only non-negative code is 0 *)
  assert (same_tables s s3) as Hst3.
  { eapply st_trans; [exact Hst|]. eapply st_trans; [apply st_make_ready|]. apply st_seek_discard. }
  assert (v_hs s3 = v_hs s) as Hhs3.
  { pose proof (hsp_seek_discard (length (v_rem s2) + pkt_count (v_rem s2) + length (v_q s2) + 2) s2 pos 0) as A. fold s3 in A.
    pose proof (hsp_make_ready s1) as B. fold s2 in B. unfold same_hs in *. congruence. }
  destruct (Z.eq_dec rc 0) as [->|Hne].
  - apply seek_skip_fuel.
    + rewrite Hhs3. exact Hh.
    + rewrite (st_total s s3 Hst3). eapply page_seek_total_bound. exact Ep.
    + unfold packets. lia.
    + unfold packets. lia.
  - (* rc > 0 never happens; handled without knowing it: both sides run the same loop on s3 only if pos <= total *)
    exfalso. clear - Ep Erc Hne.
    unfold pcm_seek_page in Ep.
    destruct (v_rs s <? OPENED); [inversion Ep; subst; unfold OV_EINVAL_ in *; lia|].
    destruct ((pos <? 0) || (pos >? pcm_total s)); [inversion Ep; subst; unfold OV_EINVAL_ in *; lia|].
    destruct (link_of_pos _ _ _ _) as [link total].
    destruct (best_page _ _ _ None) as [[|pg rem']|].
    + inversion Ep; subst; unfold OUT_OF_FUEL in *; lia.
    + destruct (drop_to_gran _ 0) as [[[q' n] g]|].
      * destruct (_ >? pos); inversion Ep; subst; lia.
      * destruct (rewind_page _ _).
        -- unfold raw_seek in Ep. destruct (_ <? OPENED); [inversion Ep; subst; unfold OV_EINVAL_ in *; lia|].
           destruct (_ || _); inversion Ep; subst; unfold OV_EINVAL_ in *; lia.
        -- inversion Ep; subst; lia.
    + destruct (pages_from _ _) as [|pg rem']; [inversion Ep; subst; lia|].
      destruct (pg_serial pg =? _); [|inversion Ep; subst; lia].
      destruct (_ >? pos); inversion Ep; subst; lia.
Qed.

(* the return code is never the out-of-fuel marker *)
Theorem pcm_seek_page_rc s pos : fst (pcm_seek_page s pos) <> OUT_OF_FUEL.
Proof.
  unfold pcm_seek_page.
  destruct (v_rs s <? OPENED); [cbn; unfold OV_EINVAL_, OUT_OF_FUEL; lia|].
  destruct ((pos <? 0) || (pos >? pcm_total s)); [cbn; unfold OV_EINVAL_, OUT_OF_FUEL; lia|].
  destruct (link_of_pos _ _ _ _) as [link total].
  destruct (best_page _ _ _ None) as [[|pg rem']|] eqn:Eb.
  - apply best_page_some in Eb. destruct Eb as [Eb|(pg & rest & Eb & _)]; discriminate.
  - destruct (drop_to_gran _ 0) as [[[q' n] g]|].
    + destruct (_ >? pos); cbn; unfold OUT_OF_FUEL; lia.
    + destruct (rewind_page _ _); [|cbn; unfold OUT_OF_FUEL; lia].
      unfold raw_seek. destruct (_ <? OPENED); [cbn; unfold OV_EINVAL_, OUT_OF_FUEL; lia|].
      destruct (_ || _); cbn; unfold OV_EINVAL_, OUT_OF_FUEL; lia.
  - destruct (pages_from _ _) as [|pg rem']; [cbn; unfold OUT_OF_FUEL; lia|].
    destruct (pg_serial pg =? _); [|cbn; unfold OUT_OF_FUEL; lia].
    destruct (_ >? pos); cbn; unfold OUT_OF_FUEL; lia.
Qed.

(* ---- where a sample seek lands, for any page table ---- *)
Lemma shift_floor_gt pos h : 0 <= h -> pos - 2 ^ h < Z.shiftl (Z.shiftr pos h) h.
Proof.
  intros Hh. rewrite Z.shiftr_div_pow2, Z.shiftl_mul_pow2 by lia.
  assert (0 < 2 ^ h) as Hp by (apply Z.pow_pos_nonneg; lia).
  pose proof (Z.mod_pos_bound pos (2 ^ h) Hp). rewrite (Z.div_mod pos (2 ^ h)) at 1 by lia. lia.
Qed.
Lemma shiftr_small D h : 0 <= h -> Z.shiftr D h <= 0 -> D < 2 ^ h.
Proof.
  intros Hh H. rewrite Z.shiftr_div_pow2 in H by lia.
  assert (0 < 2 ^ h) as Hp by (apply Z.pow_pos_nonneg; lia).
  destruct (Z_lt_le_dec D (2 ^ h)) as [|Hge]; [assumption|].
  assert (1 <= D / 2 ^ h); [|lia]. apply Z.div_le_lower_bound; lia.
Qed.

(* the sample-discarding loop of ov_pcm_seek never stops a whole (half-rate) sample short of the target,
   for ANY page table and state *)
Lemma seek_skip_lower : forall fuel s pos,
  0 <= v_hs s -> pos <= pcm_total s -> (packets s + 2 <= fuel)%nat ->
  pos - 2 ^ v_hs s < v_pcm (seek_skip fuel s pos).
Proof.
  induction fuel as [|f IH]; intros s pos Hh Htot Hf; [lia|].
  destruct f as [|f]; [lia|]. remember (S f) as g.
  cbn [seek_skip]. cbv zeta. set (h := v_hs s) in *.
  destruct (v_pcm s <? Z.shiftl (Z.shiftr pos h) h) eqn:Elt.
  2: { pose proof (shift_floor_gt pos h Hh). lia. }
  set (target := Z.shiftr (pos - v_pcm s) h).
  destruct (target <=? 0) eqn:Et.
  { pose proof (shiftr_small (pos - v_pcm s) h Hh ltac:(unfold target in Et; lia)). lia. }
  set (samples0 := if v_rs s =? INITSET then dec_pcmout (v_dec s) else 0).
  set (samples := if samples0 >? target then target else samples0).
  destruct (dec_read (v_dec s) samples) as [rcr d].
  set (s1 := set_pcm (set_dec s d) (v_pcm s + Z.shiftl samples h)).
  destruct (samples <? target) eqn:Ecmp.
  - pose proof (fetch_packets (fetch_fuel s1) s1) as [P1 P2].
    pose proof (fetch_fuel_enough s1) as Hfe.
    pose proof (fetch_rc (fetch_fuel s1) s1) as Hrc.
    pose proof (st_fetch (fetch_fuel s1) s1) as Hst.
    pose proof (fetch_hs (fetch_fuel s1) s1) as Hhs.
    destruct (fetch (fetch_fuel s1) s1) as [rc s2]. cbn [fst snd] in *.
    assert (packets s1 = packets s) as Hps by reflexivity.
    assert (pcm_total s2 = pcm_total s) as Ht2 by (rewrite (st_total s1 s2 Hst); reflexivity).
    assert (v_hs s2 = h) as Hh2 by (rewrite Hhs; reflexivity).
    destruct (rc <=? 0) eqn:Erc.
    + subst g. rewrite seek_skip_exit.
      * cbn [v_pcm set_pcm]. assert (0 < 2 ^ h) by (apply Z.pow_pos_nonneg; lia). lia.
      * left. cbn [v_pcm v_hs set_pcm]. rewrite Hh2. pose proof (shift_floor pos h Hh). lia.
    + destruct Hrc as [-> | [-> | ->]]; [|unfold OV_EOF_ in Erc; lia|unfold OUT_OF_FUEL in Erc; lia].
      specialize (P2 eq_refl). rewrite <- Hh2. apply IH; [rewrite Hh2; exact Hh|lia|lia].
  - assert (samples = target) as Hs.
    { unfold samples in *. destruct (samples0 >? target) eqn:E; [reflexivity|]. lia. }
    assert (v_pcm s < Z.shiftl (Z.shiftr pos h) h) by lia. pose proof (shift_floor pos h Hh).
    assert (Z.shiftr (pos - v_pcm s1) (v_hs s1) <= 0) as Hex.
    { unfold s1. cbn [v_pcm v_hs set_pcm set_dec]. fold h. rewrite Hs. unfold target.
      replace (pos - (v_pcm s + Z.shiftl (Z.shiftr (pos - v_pcm s) h) h)) with ((pos - v_pcm s) - Z.shiftl (Z.shiftr (pos - v_pcm s) h) h) by lia.
      apply shift_rest; [exact Hh|lia]. }
    subst g. rewrite seek_skip_exit by (right; exact Hex).
    pose proof (shiftr_small _ _ ltac:(exact Hh) Hex) as Hsm. change (v_hs s1) with h in Hsm. lia.
Qed.

(* ov_pcm_seek, any page table, any state, full or half rate: a seek that reports success never lands a
   whole output sample (1 or 2 positions) before the target *)
Theorem pcm_seek_not_short s pos :
  0 <= v_hs s -> fst (pcm_seek s pos) = 0 -> pos - 2 ^ v_hs s < v_pcm (snd (pcm_seek s pos)).
Proof.
  intros Hh. unfold pcm_seek.
  pose proof (st_pcm_seek_page s pos) as Hst. pose proof (hsp_pcm_seek_page s pos) as Hhs.
  destruct (pcm_seek_page s pos) as [rc s1] eqn:Ep. cbn [snd] in Hst, Hhs.
  destruct (rc <? 0) eqn:Erc; cbn [fst snd]; [intros ->; lia|]. intros _.
  set (s2 := make_ready s1).
  set (s3 := seek_discard (length (v_rem s2) + pkt_count (v_rem s2) + length (v_q s2) + 2) s2 pos 0).
  assert (same_tables s s3) as Hst3.
  { eapply st_trans; [exact Hst|]. eapply st_trans; [apply st_make_ready|]. apply st_seek_discard. }
  assert (v_hs s3 = v_hs s) as Hhs3.
  { pose proof (hsp_seek_discard (length (v_rem s2) + pkt_count (v_rem s2) + length (v_q s2) + 2) s2 pos 0) as A. fold s3 in A.
    pose proof (hsp_make_ready s1) as B. fold s2 in B. unfold same_hs in *. congruence. }
  assert (pos <= pcm_total s) as Htot.
  { unfold pcm_seek_page in Ep. destruct (v_rs s <? OPENED); [inversion Ep; subst; unfold OV_EINVAL_ in *; lia|].
    destruct ((pos <? 0) || (pos >? pcm_total s)) eqn:E; [inversion Ep; subst; unfold OV_EINVAL_ in *; lia|]. lia. }
  rewrite <- Hhs3. apply seek_skip_lower.
  - rewrite Hhs3. exact Hh.
  - rewrite (st_total s s3 Hst3). exact Htot.
  - unfold packets. lia.
Qed.
