(* Proofs about M10 (Bitrate.v): the reservoir invariant and the window bounds. *)
From VV Require Import Bitrate.
From Coq Require Import ZifyBool.
Local Open Scope Z_scope.
Ltac Zify.zify_post_hook ::= Z.div_mod_to_equations.

Record WFp (p : bparams) : Prop := {
  wf_fill : 0 <= p_fill p <= p_res p;
  wf_res : 7 <= p_res p;
  wf_spl : 1 <= p_spl p;
  wf_min : 0 <= p_min p;
  wf_max : 0 <= p_max p;
  wf_minmax : 0 < p_min p -> 0 < p_max p -> p_min p <= p_max p }.

Definition sizes_ok (sizes : list Z) : Prop := Forall (fun x => 0 <= x) sizes.

Lemma size_at_nonneg sizes i : sizes_ok sizes -> 0 <= size_at sizes i.
Proof.
  intros H. unfold size_at. destruct (nth_in_or_default (Z.to_nat i) sizes 0) as [Hin | ->]; [|lia].
  unfold sizes_ok in H. rewrite Forall_forall in H. apply H, Hin.
Qed.

(* the "force down" loop stops with the constraint met, or below candidate 0
   with the constraint still violated *)
Lemma down_loop_spec sizes r maxt res : forall fuel c this c' this',
  (Z.to_nat (c + 1) <= fuel)%nat -> 0 <= c ->
  down_loop fuel sizes r maxt res c this = (c', this') ->
  (c' = -1 /\ r + (this' - maxt) > res) \/ (0 <= c' <= c /\ r + (this' - maxt) <= res).
Proof.
  induction fuel as [|f IH]; intros c this c' this' Hf Hc E; [lia|].
  cbn [down_loop] in E.
  destruct (r + (this - maxt) >? res) eqn:E1.
  - destruct (c - 1 <? 0) eqn:E2.
    + inversion E; subst. left. split; lia.
    + apply IH in E; [|lia|lia]. destruct E as [E | E]; [left; exact E|right; lia].
  - inversion E; subst. right. split; lia.
Qed.

Definition tied (sizes : list Z) (c this : Z) : Prop := this = 8 * size_at sizes (Z.min c (nblobs - 1)).

Lemma up_loop_spec sizes r mint : forall fuel c this c' this',
  0 <= c < nblobs -> tied sizes c this ->
  up_loop fuel sizes r mint c this = (c', this') -> c <= c' <= nblobs /\ tied sizes c' this'.
Proof.
  induction fuel as [|f IH]; intros c this c' this' Hc Ht E; cbn [up_loop] in E; [inversion E; subst; split; [lia|exact Ht]|].
  destruct (r - (mint - this) <? 0); [|inversion E; subst; split; [lia|exact Ht]].
  destruct (c + 1 >=? nblobs) eqn:E1.
  - inversion E; subst. split; [lia|]. unfold tied, nblobs in *. rewrite Ht. f_equal. f_equal. lia.
  - apply IH in E; [destruct E as [Ea Eb]; split; [lia|exact Eb] | unfold nblobs in *; lia |].
    unfold tied, nblobs in *. f_equal. f_equal. lia.
Qed.

Lemma down_loop_tied sizes r maxt res : forall fuel c this c' this',
  0 <= c <= nblobs -> tied sizes c this ->
  down_loop fuel sizes r maxt res c this = (c', this') -> 0 <= c' -> tied sizes c' this'.
Proof.
  induction fuel as [|f IH]; intros c this c' this' Hc Ht E Hc'; cbn [down_loop] in E; [inversion E; subst; exact Ht|].
  destruct (r + (this - maxt) >? res); [|inversion E; subst; exact Ht].
  destruct (c - 1 <? 0) eqn:E1; [inversion E; subst; lia|].
  apply IH in E; [exact E|lia| |exact Hc']. unfold tied, nblobs in *. f_equal. f_equal. lia.
Qed.

Lemma down_loop_m1 sizes r maxt res : forall fuel c this this',
  0 <= c <= nblobs -> tied sizes c this ->
  down_loop fuel sizes r maxt res c this = (-1, this') -> tied sizes 0 this'.
Proof.
  induction fuel as [|f IH]; intros c this this' Hc Ht E; cbn [down_loop] in E; [inversion E; subst; lia|].
  destruct (r + (this - maxt) >? res); [|inversion E; subst; lia].
  destruct (c - 1 <? 0) eqn:E1.
  - inversion E; subst. assert (c = 0) as -> by lia. exact Ht.
  - apply IH in E; [exact E|lia|]. unfold tied, nblobs in *. f_equal. f_equal. lia.
Qed.

Lemma quot8_ge x : 0 <= x -> 8 * Z.quot x 8 <= x /\ x - 7 <= 8 * Z.quot x 8.
Proof. intros H. rewrite Z.quot_div_nonneg by lia. lia. Qed.

Lemma quot8_up x : x <= 8 * Z.quot (x + 7) 8 \/ x + 7 < 0.
Proof.
  destruct (Z.ltb_spec (x + 7) 0) as [H|H]; [right; exact H|left].
  rewrite Z.quot_div_nonneg by lia. lia.
Qed.

Lemma quot8_pos_small x : 8 * Z.quot (x + 7) 8 <= x + 7 \/ (x + 7 < 0 /\ Z.quot (x + 7) 8 <= 0).
Proof.
  destruct (Z.ltb_spec (x + 7) 0) as [H|H].
  - right. split; [exact H|]. rewrite <- (Z.opp_involutive (x + 7)), Z.quot_opp_l by lia.
    pose proof (Z.quot_pos (- (x + 7)) 8 ltac:(lia) ltac:(lia)). lia.
  - left. rewrite Z.quot_div_nonneg by lia. lia.
Qed.

Ltac ifs :=
  repeat match goal with
         | |- context [if ?b then _ else _] =>
             lazymatch b with
             | context [if _ then _ else _] => fail
             | _ => let E := fresh "E" in destruct b eqn:E; try lia
             end
         end.

(* the invariant of the min/max reservoir, and how much a block may move it *)
Lemma addblock_inv p r sizes w c0 :
  WFp p -> sizes_ok sizes -> 0 <= r <= p_res p -> 0 <= c0 < nblobs ->
  let '(c, this, r') := addblock p r sizes w c0 in
  let mint := if w then p_min p * p_spl p else p_min p in
  let maxt := if w then p_max p * p_spl p else p_max p in
  0 <= r' <= p_res p /\ 0 <= c < nblobs /\ 0 <= this /\
  (0 < p_max p -> r + (this - maxt) <= r') /\
  (0 < p_min p -> r' <= r + (this - mint)).
Proof.
  intros [Hfill Hres Hspl Hmin Hmax Hmm] Hs Hr Hc0. unfold addblock.
  set (mint := if w then p_min p * p_spl p else p_min p).
  set (maxt := if w then p_max p * p_spl p else p_max p).
  assert (0 <= mint /\ 0 <= maxt /\ (0 < p_min p -> 0 < mint) /\ (0 < p_max p -> 0 < maxt) /\
          (0 < p_min p -> 0 < p_max p -> mint <= maxt) /\ (p_min p = 0 -> mint = 0) /\ (p_max p = 0 -> maxt = 0))
    as (Hm0 & HM0 & Hmp & HMp & Hle & Hmz & HMz).
  { unfold mint, maxt. destruct w; repeat split; try nia. }
  clearbody mint maxt.
  (* stage 1 *)
  destruct (stage1 p r sizes mint c0 (8 * size_at sizes c0)) as [c1 this1] eqn:E1.
  assert (c0 <= c1 <= nblobs /\ tied sizes c1 this1) as [Hc1 Ht1].
  { unfold stage1 in E1. assert (tied sizes c0 (8 * size_at sizes c0)) as T0
      by (unfold tied, nblobs in *; f_equal; f_equal; lia).
    destruct ((p_min p >? 0) && (8 * size_at sizes c0 <? mint)).
    - eapply up_loop_spec; eauto.
    - inversion E1; subst. split; [unfold nblobs in *; lia|exact T0]. }
  (* stage 2 *)
  destruct (stage2 p r sizes maxt c1 this1) as [c2 this2] eqn:E2.
  assert ((c2 = -1 /\ r + (this2 - maxt) > p_res p /\ 0 < p_max p /\ this2 = 8 * size_at sizes 0) \/
          (0 <= c2 <= nblobs /\ tied sizes c2 this2 /\ (0 < p_max p -> this2 > maxt -> r + (this2 - maxt) <= p_res p))) as H2.
  { unfold stage2 in E2. destruct ((p_max p >? 0) && (this1 >? maxt)) eqn:Eg.
    - pose proof E2 as E2'. apply down_loop_spec in E2; [|unfold nblobs in *; lia|lia].
      destruct E2 as [[-> Hv] | [Hc2 Hmet]].
      { left. repeat split; try lia. apply (down_loop_m1 sizes r maxt (p_res p) 16 c1 this1 this2) in E2'; [|lia|exact Ht1].
        unfold tied, nblobs in E2'. rewrite E2'. f_equal. }
      right. split; [lia|]. split; [eapply down_loop_tied; eauto; lia|]. intros; lia.
    - inversion E2; subst. right. split; [lia|]. split; [exact Ht1|]. intros. lia. }
  (* stage 3 + update: everything is now arithmetic over sizes *)
  pose proof (size_at_nonneg sizes 0 Hs) as Hs0.
  pose proof (quot8_up (mint - r)) as Hq1.
  pose proof (quot8_pos_small (mint - r)) as Hq2.
  assert (0 <= maxt + (p_res p - r)) as Hnn by lia.
  pose proof (quot8_ge (maxt + (p_res p - r)) Hnn) as [Hq3 Hq4].
  unfold stage3, update, cdiv8.
  set (q1 := Z.quot (mint - r + 7) 8) in *. set (q2 := Z.quot (maxt + (p_res p - r)) 8) in *. clearbody q1 q2.
  destruct H2 as [(-> & Hv & HMx & Hid0) | (Hc2 & Ht2 & Hmet)].
  - (* truncation of candidate 0 *)
    change (-1 <? 0) with true. cbv iota.
    destruct (size_at sizes 0 >? q2) eqn:Etr.
    + unfold nblobs in *. ifs; cbv zeta; repeat split; lia.
    + unfold nblobs in *. ifs; cbv zeta; repeat split; lia.
  - destruct (c2 <? 0) eqn:En; [lia|].
    set (c := if c2 >=? nblobs then nblobs - 1 else c2).
    assert (0 <= c < nblobs /\ this2 = 8 * size_at sizes c) as [Hc Hid].
    { unfold c, tied, nblobs in *. destruct (c2 >=? 15) eqn:Eb; (split; [lia|]); rewrite Ht2; f_equal; f_equal; lia. }
    pose proof (size_at_nonneg sizes c Hs) as Hsc.
    set (b := size_at sizes c) in *. clearbody b c.
    unfold nblobs in *. ifs; cbv zeta; repeat split; lia.
Qed.

(* ---- runs ---------------------------------------------------------------------------- *)

Definition block_ok (b : list Z * bool * Z) : Prop :=
  sizes_ok (fst (fst b)) /\ 0 <= snd b < nblobs.

Lemma run_inv p : WFp p -> forall blocks r,
  Forall block_ok blocks -> 0 <= r <= p_res p ->
  let '(rf, out) := run p r blocks in
  0 <= rf <= p_res p /\
  (0 < p_max p -> r + (sum_bits out - sum_max out) <= rf) /\
  (0 < p_min p -> rf <= r + (sum_bits out - sum_min out)).
Proof.
  intros Hp. induction blocks as [|[[sizes w] c0] rest IH]; intros r Hb Hr; cbn [run].
  - cbn. repeat split; lia.
  - inversion Hb as [|? ? [Hs Hc] Hrest]; subst. cbn [fst snd] in Hs, Hc.
    pose proof (addblock_inv p r sizes w c0 Hp Hs Hr Hc) as Ha.
    destruct (addblock p r sizes w c0) as [[c this] r'].
    destruct Ha as (Hr' & _ & _ & HM & Hm).
    specialize (IH r' Hrest Hr'). destruct (run p r' rest) as [rf out].
    destruct IH as (Hrf & IM & Im). cbn [sum_bits sum_min sum_max fold_right fst snd].
    fold (sum_bits out) (sum_min out) (sum_max out).
    split; [lia|]. split; intros H; [specialize (HM H); specialize (IM H)|specialize (Hm H); specialize (Im H)]; lia.
Qed.

(* over every contiguous run of packets (any reservoir state the run starts in):
   bits <= sum of the per-block maximum targets + reservoir size, and
   sum of the per-block minimum targets <= bits + reservoir size *)
Lemma window_bounds p blocks r :
  WFp p -> Forall block_ok blocks -> 0 <= r <= p_res p ->
  let out := snd (run p r blocks) in
  (0 < p_max p -> sum_bits out <= sum_max out + p_res p) /\
  (0 < p_min p -> sum_min out <= sum_bits out + p_res p).
Proof.
  intros Hp Hb Hr. pose proof (run_inv p Hp blocks r Hb Hr) as H.
  destruct (run p r blocks) as [rf out]. cbn [snd]. destruct H as (Hrf & HM & Hm).
  split; intros H; [specialize (HM H)|specialize (Hm H)]; lia.
Qed.

Lemma run_app p a b r :
  run p r (a ++ b) = (let '(r1, o1) := run p r a in let '(r2, o2) := run p r1 b in (r2, o1 ++ o2)).
Proof.
  revert r. induction a as [|[[sizes w] c0] rest IH]; intros r; cbn [run app].
  - destruct (run p r b); reflexivity.
  - destruct (addblock p r sizes w c0) as [[c this] r']. rewrite IH.
    destruct (run p r' rest) as [r1 o1]. destruct (run p r1 b) as [r2 o2]. reflexivity.
Qed.

(* ... in particular for every window pre ++ win ++ post of an encode that
   starts with the reservoir at its initial fill *)
Lemma every_window p pre win post :
  WFp p -> Forall block_ok (pre ++ win ++ post) ->
  let r1 := fst (run p (p_fill p) pre) in
  let out := snd (run p r1 win) in
  (0 < p_max p -> sum_bits out <= sum_max out + p_res p) /\
  (0 < p_min p -> sum_min out <= sum_bits out + p_res p).
Proof.
  intros Hp Hb. apply Forall_app in Hb. destruct Hb as [Hpre Hb]. apply Forall_app in Hb. destruct Hb as [Hwin _].
  cbv zeta. apply window_bounds; [exact Hp|exact Hwin|].
  pose proof (run_inv p Hp pre (p_fill p) Hpre ltac:(destruct Hp; lia)) as H.
  destruct (run p (p_fill p) pre) as [r1 o1]. cbn [fst]. tauto.
Qed.
