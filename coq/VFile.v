(* M8: the position bookkeeping of lib/vorbisfile.c on an intact physical
   stream given as its page table (definitions only).  Faithful to the code
   for: link table, _fetch_and_process_packet, ov_read_float, ov_raw_seek,
   ov_pcm_seek_page (landing), ov_pcm_seek, ov_halfrate; the byte-level page
   search (ogg_sync, bisection) is abstracted to its result on the page
   table: "the first page starting at or after an offset" and "the last page
   of the link whose granule position is below the target".  Audio is the
   decoder automaton of Blocking.v. *)
From VV Require Export Blocking.
Local Open Scope Z_scope.

(* a packet as libogg hands it out *)
Record pkt := {
  pk_W : option bool;    (* Some W: audio packet of that block flag; None: header / not audio *)
  pk_gran : Z;           (* granule position libogg attaches (-1 unless last completed on its page) *)
  pk_eos : bool }.

Record page := {
  pg_off : Z; pg_len : Z; pg_serial : Z; pg_gran : Z;
  pg_bos : bool; pg_eos : bool; pg_cont : bool;
  pg_pkts : list pkt }.     (* packets completed on this page, in order *)

(* per link: serial, block sizes, byte offsets, initial pcm offset, length *)
Record linfo := {
  li_serial : Z; li_bs0 : Z; li_bs1 : Z;
  li_off : Z; li_dataoff : Z; li_end : Z;
  li_init : Z; li_len : Z }.

Definition OPENED : Z := 2.
Definition STREAMSET : Z := 3.
Definition INITSET : Z := 4.
Definition OV_EOF_ : Z := -2.
Definition OV_EINVAL_ : Z := -131.
Definition OUT_OF_FUEL : Z := -999.

Definition blocksize (l : linfo) (w : bool) : Z := if w then li_bs1 l else li_bs0 l.

(* ---- link table (what a seekable open establishes) ---------------------- *)

(* _initial_pcmoffset over the audio pages of a link: accumulate block sizes
   until the first page with a granule position *)
Fixpoint init_scan_pkts (l : linfo) (ps : list pkt) (acc : Z) (last : option Z) : Z * option Z :=
  match ps with
  | [] => (acc, last)
  | p :: r =>
      match pk_W p with
      | None => init_scan_pkts l r acc last
      | Some w =>
          let this := blocksize l w in
          let acc' := match last with Some lb => acc + Z.shiftr (lb + this) 2 | None => acc end in
          init_scan_pkts l r acc' (Some this)
      end
  end.

Fixpoint init_scan (l : linfo) (pgs : list page) (acc : Z) (last : option Z) : Z :=
  match pgs with
  | [] => acc
  | pg :: r =>
      if pg_bos pg then acc
      else if negb (pg_serial pg =? li_serial l) then init_scan l r acc last
      else
        let (acc', last') := init_scan_pkts l (pg_pkts pg) acc last in
        if negb (pg_gran pg =? -1) then pg_gran pg - acc' else init_scan l r acc' last'
  end.
Definition initial_pcmoffset (l : linfo) (audio_pages : list page) : Z :=
  let a := init_scan l audio_pages 0 None in if a <? 0 then 0 else a.

(* granule position of the last page of the link carrying its serial *)
Fixpoint last_gran (serial : Z) (pgs : list page) (cur : Z) : Z :=
  match pgs with
  | [] => cur
  | pg :: r => last_gran serial r (if pg_serial pg =? serial then pg_gran pg else cur)
  end.

(* ---- handle state ------------------------------------------------------------ *)

Record vfs := {
  v_pages : list page;       (* the whole physical stream *)
  v_links : list linfo;
  v_rem : list page;         (* pages at and after the read cursor *)
  v_rs : Z; v_link : Z; v_serial : Z;
  v_q : list pkt;            (* packets queued in the stream state, not yet taken *)
  v_fresh : bool;            (* stream state reset, no packet boundary seen yet *)
  v_pno : Z;                 (* libogg's packet counter *)
  v_pcm : Z;                 (* pcm_offset *)
  v_dec : dec;
  v_hs : Z }.

Definition nth_link (s : vfs) (i : Z) : linfo :=
  nth (Z.to_nat i) (v_links s) {| li_serial := -1; li_bs0 := 0; li_bs1 := 0; li_off := 0; li_dataoff := 0;
                                   li_end := 0; li_init := 0; li_len := 0 |}.
Definition cur_link (s : vfs) : linfo := nth_link s (v_link s).
Definition cfg_of (l : linfo) (h : Z) : cfg := {| bs0 := li_bs0 l; bs1 := li_bs1 l; hs := h |}.
Definition cur_cfg (s : vfs) : cfg := cfg_of (cur_link s) (v_hs s).

Fixpoint sum_len (ls : list linfo) (n : nat) : Z :=
  match n, ls with
  | S k, l :: r => li_len l + sum_len r k
  | _, _ => 0
  end.
Definition base_of (s : vfs) (link : Z) : Z := sum_len (v_links s) (Z.to_nat link).
Definition pcm_total (s : vfs) : Z := sum_len (v_links s) (length (v_links s)).
Definition file_end (s : vfs) : Z :=
  match rev (v_pages s) with [] => 0 | pg :: _ => pg_off pg + pg_len pg end.
Definition raw_tell (s : vfs) : Z :=
  match v_rem s with [] => file_end s | pg :: _ => pg_off pg end.

Fixpoint find_link (ls : list linfo) (serial : Z) (i : Z) : option Z :=
  match ls with
  | [] => None
  | l :: r => if li_serial l =? serial then Some i else find_link r serial (i + 1)
  end.

(* record update helpers *)
Definition set_q (s : vfs) q fresh pno :=
  {| v_pages := v_pages s; v_links := v_links s; v_rem := v_rem s; v_rs := v_rs s; v_link := v_link s;
     v_serial := v_serial s; v_q := q; v_fresh := fresh; v_pno := pno; v_pcm := v_pcm s; v_dec := v_dec s; v_hs := v_hs s |}.
Definition set_rem (s : vfs) rem :=
  {| v_pages := v_pages s; v_links := v_links s; v_rem := rem; v_rs := v_rs s; v_link := v_link s;
     v_serial := v_serial s; v_q := v_q s; v_fresh := v_fresh s; v_pno := v_pno s; v_pcm := v_pcm s; v_dec := v_dec s; v_hs := v_hs s |}.
Definition set_rs (s : vfs) rs :=
  {| v_pages := v_pages s; v_links := v_links s; v_rem := v_rem s; v_rs := rs; v_link := v_link s;
     v_serial := v_serial s; v_q := v_q s; v_fresh := v_fresh s; v_pno := v_pno s; v_pcm := v_pcm s; v_dec := v_dec s; v_hs := v_hs s |}.
Definition set_pcm (s : vfs) p :=
  {| v_pages := v_pages s; v_links := v_links s; v_rem := v_rem s; v_rs := v_rs s; v_link := v_link s;
     v_serial := v_serial s; v_q := v_q s; v_fresh := v_fresh s; v_pno := v_pno s; v_pcm := p; v_dec := v_dec s; v_hs := v_hs s |}.
Definition set_dec (s : vfs) d :=
  {| v_pages := v_pages s; v_links := v_links s; v_rem := v_rem s; v_rs := v_rs s; v_link := v_link s;
     v_serial := v_serial s; v_q := v_q s; v_fresh := v_fresh s; v_pno := v_pno s; v_pcm := v_pcm s; v_dec := d; v_hs := v_hs s |}.
Definition set_link (s : vfs) link serial :=
  {| v_pages := v_pages s; v_links := v_links s; v_rem := v_rem s; v_rs := v_rs s; v_link := link;
     v_serial := serial; v_q := v_q s; v_fresh := v_fresh s; v_pno := v_pno s; v_pcm := v_pcm s; v_dec := v_dec s; v_hs := v_hs s |}.
Definition set_hs (s : vfs) h :=
  {| v_pages := v_pages s; v_links := v_links s; v_rem := v_rem s; v_rs := v_rs s; v_link := v_link s;
     v_serial := v_serial s; v_q := v_q s; v_fresh := v_fresh s; v_pno := v_pno s; v_pcm := v_pcm s; v_dec := v_dec s; v_hs := h |}.

(* ogg_stream_reset_serialno *)
Definition os_reset (s : vfs) : vfs := set_q s [] true 0.
(* ogg_stream_pagein on the shared stream state *)
Definition os_pagein (s : vfs) (pg : page) : vfs :=
  if negb (pg_serial pg =? v_serial s) then s      (* libogg refuses a page of another serial *)
  else if v_fresh s && pg_cont pg then
    match pg_pkts pg with
    | [] => s
    | _ :: r => set_q s (v_q s ++ r) false (v_pno s)
    end
  else set_q s (v_q s ++ pg_pkts pg) false (v_pno s).

(* _decode_clear *)
Definition decode_clear (s : vfs) : vfs := set_rs s OPENED.
(* _make_decode_ready for STREAMSET *)
Definition make_ready (s : vfs) : vfs :=
  if v_rs s =? STREAMSET then set_rs (set_dec s (dec_init (cur_cfg s))) INITSET else s.

(* process one audio packet: vorbis_synthesis + blockin + pcm_offset update *)
Definition process_audio (s : vfs) (p : pkt) (w : bool) : vfs :=
  let b := {| k_W := w; k_gran := pk_gran p; k_seq := v_pno s; k_eof := pk_eos p; k_pcm := true |} in
  let (_, d) := dec_blockin (cur_cfg s) (v_dec s) b in
  let s1 := set_dec s d in
  if negb (pk_gran p =? -1) && negb (pk_eos p) then
    let link := v_link s in
    let g0 := pk_gran p - li_init (cur_link s) in
    let g1 := if g0 <? 0 then 0 else g0 in
    let samples := Z.shiftl (dec_pcmout d) (v_hs s) in
    let g2 := if g1 - samples <? 0 then 0 else g1 - samples in
    set_pcm s1 (g2 + base_of s link)
  else s1.

(* _fetch_and_process_packet(vf, NULL, readp=1, spanp=1), seekable handle.
   Returns (code, state): 1 = a packet was processed, OV_EOF. *)
Fixpoint fetch (fuel : nat) (s : vfs) : Z * vfs :=
  match fuel with
  | O => (OUT_OF_FUEL, s)
  | S f =>
      let s := make_ready s in
      if (v_rs s =? INITSET) && (match v_q s with [] => false | _ => true end) then
        match v_q s with
        | [] => (OUT_OF_FUEL, s)
        | p :: q' =>
            let s1 := set_q s q' (v_fresh s) (v_pno s + 1) in
            match pk_W p with
            | Some w =>
                let s2 := process_audio (set_q s q' (v_fresh s) (v_pno s)) p w in
                (1, set_q s2 (v_q s2) (v_fresh s2) (v_pno s + 1))
            | None => fetch f s1
            end
        end
      else
        match v_rem s with
        | [] => (OV_EOF_, s)
        | pg :: rem' =>
            let s1 := set_rem s rem' in
            if (v_rs s1 =? INITSET) && negb (v_serial s1 =? pg_serial pg) then
              if pg_bos pg then
                (* crossed into the next link *)
                let s2 := decode_clear s1 in
                match find_link (v_links s2) (pg_serial pg) 0 with
                | None => fetch f s2
                | Some link =>
                    let s3 := set_rs (os_reset (set_link s2 link (pg_serial pg))) STREAMSET in
                    fetch f (os_pagein s3 pg)
                end
              else fetch f s1          (* a page of some other multiplexed stream *)
            else if v_rs s1 <? STREAMSET then
              match find_link (v_links s1) (pg_serial pg) 0 with
              | None => fetch f s1
              | Some link =>
                  let s3 := set_rs (os_reset (set_link s1 link (pg_serial pg))) STREAMSET in
                  fetch f (os_pagein s3 pg)
              end
            else fetch f (os_pagein s1 pg)
        end
  end.

Fixpoint pkt_count (pgs : list page) : nat :=
  match pgs with [] => O | pg :: r => (length (pg_pkts pg) + pkt_count r)%nat end.
Definition fetch_fuel (s : vfs) : nat := (length (v_rem s) + pkt_count (v_rem s) + length (v_q s) + 2)%nat.

(* ov_read_float(vf, &pcm, length, &bitstream): (return value, link, state) *)
Fixpoint read_float (fuel : nat) (s : vfs) (length : Z) : Z * Z * vfs :=
  match fuel with
  | O => (OUT_OF_FUEL, -1, s)
  | S f =>
      let samples := if v_rs s =? INITSET then dec_pcmout (v_dec s) else 0 in
      if negb (samples =? 0) then
        let n := if samples >? length then length else samples in
        let (_, d) := dec_read (v_dec s) n in
        (n, v_link s, set_pcm (set_dec s d) (v_pcm s + Z.shiftl n (v_hs s)))
      else
        match fetch (fetch_fuel s) s with
        | (rc, s1) =>
            if rc =? OV_EOF_ then (0, -1, s1)
            else if rc <=? 0 then (rc, -1, s1)
            else read_float f s1 length
        end
  end.
Definition read_fuel (s : vfs) : nat := (pkt_count (v_rem s) + length (v_q s) + 3)%nat.

(* ---- seeking ------------------------------------------------------------------ *)

(* the pages starting at or after byte offset pos (_seek_helper + _get_next_page) *)
Fixpoint pages_from (pgs : list page) (pos : Z) : list page :=
  match pgs with
  | [] => []
  | pg :: r => if pg_off pg >=? pos then pgs else pages_from r pos
  end.

(* ov_raw_seek's scan: feed pages to the shared and the scratch stream state
   until a packet with a granule position shows where we are *)
Record rscan := { r_last : Z; r_acc : Z; r_lastflag : bool; r_firstflag : bool;
                  r_wq : list pkt; r_wfresh : bool }.

Definition work_pagein (r : rscan) (pg : page) (lastflag firstflag : bool) : rscan :=
  let pk := if r_wfresh r && pg_cont pg then tl (pg_pkts pg) else pg_pkts pg in
  let fresh' := if r_wfresh r && pg_cont pg then (match pg_pkts pg with [] => true | _ => false end) else false in
  {| r_last := r_last r; r_acc := r_acc r; r_lastflag := lastflag; r_firstflag := firstflag;
     r_wq := r_wq r ++ pk; r_wfresh := fresh' |}.

Fixpoint raw_scan (fuel : nat) (s : vfs) (r : rscan) : vfs :=
  match fuel with
  | O => set_pcm s OUT_OF_FUEL
  | S f =>
      let take_page :=
        (* no packet available: get the next page, unless packets without any
           granule position were seen *)
        if negb (r_last r =? 0) then set_pcm s (-1)
        else
          match v_rem s with
          | [] => set_pcm s (pcm_total s)
          | pg :: rem' =>
              let s1 := set_rem s rem' in
              let s2 := if (v_rs s1 >=? STREAMSET) && negb (v_serial s1 =? pg_serial pg) && pg_bos pg
                        then decode_clear s1 else s1 in
              if v_rs s2 <? STREAMSET then
                match find_link (v_links s2) (pg_serial pg) 0 with
                | None => raw_scan f s2 r
                | Some link =>
                    let s3 := set_rs (os_reset (set_link s2 link (pg_serial pg))) STREAMSET in
                    let r3 := {| r_last := r_last r; r_acc := r_acc r; r_lastflag := r_lastflag r;
                                 r_firstflag := r_firstflag r; r_wq := []; r_wfresh := true |} in
                    let ff := pg_off pg <=? li_dataoff (cur_link s3) in
                    raw_scan f (os_pagein s3 pg) (work_pagein r3 pg (pg_eos pg) ff)
                end
              else
                let ff := pg_off pg <=? li_dataoff (cur_link s2) in
                raw_scan f (os_pagein s2 pg) (work_pagein r pg (pg_eos pg) ff)
          end in
      if v_rs s >=? STREAMSET then
        match r_wq r with
        | p :: wq' =>
            let r1 := {| r_last := r_last r; r_acc := r_acc r; r_lastflag := r_lastflag r;
                         r_firstflag := r_firstflag r; r_wq := wq'; r_wfresh := r_wfresh r |} in
            let l := cur_link s in
            (* thisblock / discarding from the shared queue *)
            let '(this, s1, acc1) :=
              match pk_W p with
              | None => (0, set_q s (tl (v_q s)) (v_fresh s) (v_pno s + 1), r_acc r)
              | Some w =>
                  let tb := blocksize l w in
                  if r_lastflag r && negb (r_firstflag r)
                  then (tb, set_q s (tl (v_q s)) (v_fresh s) (v_pno s + 1), r_acc r)
                  else (tb, s, if negb (r_last r =? 0) then r_acc r + Z.shiftr (r_last r + tb) 2 else r_acc r)
              end in
            if negb (pk_gran p =? -1) then
              let g0 := pk_gran p - li_init l in
              let g1 := if g0 <? 0 then 0 else g0 in
              let g2 := g1 - acc1 in
              let g3 := if g2 <? 0 then 0 else g2 in
              set_pcm s1 (g3 + base_of s1 (v_link s1))
            else
              raw_scan f s1 {| r_last := this; r_acc := acc1; r_lastflag := r_lastflag r1;
                               r_firstflag := r_firstflag r1; r_wq := wq'; r_wfresh := r_wfresh r1 |}
        | [] => take_page
        end
      else take_page
  end.

(* ov_raw_seek(vf, pos): (return code, state) *)
Definition raw_seek (s : vfs) (pos : Z) : Z * vfs :=
  if v_rs s <? OPENED then (OV_EINVAL_, s)
  else if (pos <? 0) || (pos >? file_end s) then (OV_EINVAL_, s)
  else
    let s1 := if (v_rs s >=? STREAMSET) &&
                 ((pos <? li_off (cur_link s)) || (pos >=? li_end (cur_link s)))
              then decode_clear s else s in
    let s2 := set_pcm (os_reset s1) (-1) in
    let s3 := set_dec s2 (dec_restart (cur_cfg s2) (v_dec s2)) in
    let s4 := set_rem s3 (pages_from (v_pages s3) pos) in
    let r0 := {| r_last := 0; r_acc := 0; r_lastflag := false; r_firstflag := false; r_wq := []; r_wfresh := true |} in
    (0, raw_scan (length (v_rem s4) + pkt_count (v_rem s4) + 2) s4 r0).

(* which link holds pcm position pos (the loop of ov_pcm_seek_page):
   scanning from the last link down; returns (link, total before it) *)
Fixpoint link_of_pos (ls : list linfo) (pos total : Z) (i : nat) : Z * Z :=
  match i with
  | O => (-1, total)
  | S k =>
      let t := total - li_len (nth k ls {| li_serial := -1; li_bs0 := 0; li_bs1 := 0; li_off := 0; li_dataoff := 0;
                                            li_end := 0; li_init := 0; li_len := 0 |}) in
      if pos >=? t then (Z.of_nat k, t) else link_of_pos ls pos t k
  end.

(* result of the bisection: the last page of the link (serial) at or after
   dataoffset whose granule position is set and below target *)
Fixpoint best_page (pgs : list page) (l : linfo) (target : Z) (best : option (list page)) : option (list page) :=
  match pgs with
  | [] => best
  | pg :: r =>
      if pg_off pg >=? li_end l then best
      else if (pg_off pg >=? li_dataoff l) && (pg_serial pg =? li_serial l) && negb (pg_gran pg =? -1) &&
              (pg_gran pg <? target)
           then best_page r l target (Some pgs)
           else best_page r l target best
  end.

(* after landing on a page: drop queued packets up to the one with the granule position *)
Fixpoint drop_to_gran (q : list pkt) (n : Z) : option (list pkt * Z * Z) :=
  match q with
  | [] => None
  | p :: r => if negb (pk_gran p =? -1) then Some (q, n, pk_gran p) else drop_to_gran r (n + 1)
  end.

(* the continued-packet case of ov_pcm_seek_page: walk back from the landing
   page to a page of the link that has a granule position or is not continued *)
Fixpoint rewind_page (before_rev : list page) (l : linfo) : option Z :=
  match before_rev with
  | [] => None
  | pg :: r =>
      if pg_off pg <? li_dataoff l then None
      else if (pg_serial pg =? li_serial l) && ((pg_gran pg >? -1) || negb (pg_cont pg)) then Some (pg_off pg)
      else rewind_page r l
  end.
Fixpoint pages_before (pgs : list page) (off : Z) (acc : list page) : list page :=
  match pgs with
  | [] => acc
  | pg :: r => if pg_off pg >=? off then acc else pages_before r off (pg :: acc)
  end.

(* select the link for a seek: dump the decoder on a link change (or when it
   is not set up), else just restart lapping *)
Definition enter_link (s : vfs) (link : Z) : vfs :=
  if negb (link =? v_link s) || (v_rs s <? STREAMSET) then
    set_rs (set_link (decode_clear s) link (li_serial (nth_link s link))) STREAMSET
  else set_dec s (dec_restart (cur_cfg s) (v_dec s)).

(* ov_pcm_seek_page(vf, pos): (return code, state) *)
Definition pcm_seek_page (s : vfs) (pos : Z) : Z * vfs :=
  if v_rs s <? OPENED then (OV_EINVAL_, s)
  else if (pos <? 0) || (pos >? pcm_total s) then (OV_EINVAL_, s)
  else
    let '(link, total) := link_of_pos (v_links s) pos (pcm_total s) (length (v_links s)) in
    let l := nth_link s link in
    let target := pos - total + li_init l in
    match best_page (v_pages s) l target None with
    | None =>
        (* beginning-of-link case: the first data page *)
        match pages_from (v_pages s) (li_dataoff l) with
        | pg :: rem' =>
            if pg_serial pg =? li_serial l then
              let s1 := enter_link (set_pcm s total) link in
              let s2 := os_pagein (os_reset (set_rem s1 rem')) pg in
              if (v_pcm s2 >? pos) then (-129, decode_clear (set_pcm s2 (-1))) else (0, s2)
            else (-137, decode_clear (set_pcm s (-1)))
        | [] => (-137, decode_clear (set_pcm s (-1)))
        end
    | Some [] => (OUT_OF_FUEL, s)
    | Some (pg :: rem') =>
        let s1 := enter_link (set_pcm (set_rem s rem') (-1)) link in
        let s2 := os_pagein (os_reset s1) pg in
        match drop_to_gran (v_q s2) 0 with
        | None =>
            (* the packet finishing this page began on an earlier page *)
            match rewind_page (pages_before (v_pages s2) (pg_off pg) []) (cur_link s2) with
            | Some off => raw_seek s2 off
            | None =>
                (* rewound to the beginning of the link's data: broken stream, OV_EBADLINK; the byte
                   cursor is left behind the last page looked at *)
                let cur := if pg_off pg <=? li_dataoff (cur_link s2) then v_rem s2
                           else tl (pages_from (v_pages s2) (li_dataoff (cur_link s2))) in
                (-137, decode_clear (set_pcm (set_rem s2 cur) (-1)))
            end
        | Some (q', n, g) =>
            let p0 := g - li_init (cur_link s2) in
            let p1 := (if p0 <? 0 then 0 else p0) + total in
            let s3 := set_pcm (set_q s2 q' (v_fresh s2) (v_pno s2 + n)) p1 in
            if v_pcm s3 >? pos then (-129, decode_clear (set_pcm s3 (-1))) else (0, s3)
        end
    end.

(* the packet-discarding loop of ov_pcm_seek *)
Fixpoint seek_discard (fuel : nat) (s : vfs) (pos : Z) (lastblock : Z) : vfs :=
  match fuel with
  | O => set_pcm s OUT_OF_FUEL
  | S f =>
      match v_q s with
      | p :: q' =>
          match pk_W p with
          | None => seek_discard f (set_q s q' (v_fresh s) (v_pno s + 1)) pos lastblock
          | Some w =>
              let l := cur_link s in
              let this := blocksize l w in
              let s1 := if negb (lastblock =? 0) then set_pcm s (v_pcm s + Z.shiftr (lastblock + this) 2) else s in
              if v_pcm s1 + Z.shiftr (this + li_bs1 l) 2 >=? pos then s1
              else
                let b := {| k_W := w; k_gran := pk_gran p; k_seq := v_pno s1; k_eof := pk_eos p; k_pcm := false |} in
                let (_, d) := dec_blockin (cur_cfg s1) (v_dec s1) b in
                let s2 := set_dec (set_q s1 q' (v_fresh s1) (v_pno s1 + 1)) d in
                let s3 := if pk_gran p >? -1 then
                            let g0 := pk_gran p - li_init l in
                            set_pcm s2 ((if g0 <? 0 then 0 else g0) + base_of s2 (v_link s2))
                          else s2 in
                seek_discard f s3 pos this
          end
      | [] =>
          match v_rem s with
          | [] => s
          | pg :: rem' =>
              let s1 := set_rem s rem' in
              let s2 := if pg_bos pg then decode_clear s1 else s1 in
              if v_rs s2 <? STREAMSET then
                match find_link (v_links s2) (pg_serial pg) 0 with
                | None => seek_discard f s2 pos lastblock
                | Some link =>
                    let s3 := make_ready (set_rs (os_reset (set_link s2 link (pg_serial pg))) STREAMSET) in
                    seek_discard f (os_pagein s3 pg) pos 0
                end
              else seek_discard f (os_pagein s2 pg) pos lastblock
          end
      end
  end.

(* the sample-discarding loop of ov_pcm_seek *)
Fixpoint seek_skip (fuel : nat) (s : vfs) (pos : Z) : vfs :=
  match fuel with
  | O => set_pcm s OUT_OF_FUEL
  | S f =>
      let h := v_hs s in
      if v_pcm s <? Z.shiftl (Z.shiftr pos h) h then
        let target := Z.shiftr (pos - v_pcm s) h in
        let samples0 := if v_rs s =? INITSET then dec_pcmout (v_dec s) else 0 in
        if target <=? 0 then s
        else
          let samples := if samples0 >? target then target else samples0 in
          let (_, d) := dec_read (v_dec s) samples in
          let s1 := set_pcm (set_dec s d) (v_pcm s + Z.shiftl samples h) in
          if samples <? target then
            match fetch (fetch_fuel s1) s1 with
            | (rc, s2) => if rc <=? 0 then seek_skip f (set_pcm s2 (pcm_total s2)) pos else seek_skip f s2 pos
            end
          else seek_skip f s1 pos
      else s
  end.

(* ov_pcm_seek(vf, pos) *)
Definition pcm_seek (s : vfs) (pos : Z) : Z * vfs :=
  match pcm_seek_page s pos with
  | (rc, s1) =>
      if rc <? 0 then (rc, s1)
      else
        let s2 := make_ready s1 in
        let s3 := seek_discard (length (v_rem s2) + pkt_count (v_rem s2) + length (v_q s2) + 2) s2 pos 0 in
        (0, seek_skip (pkt_count (v_rem s3) + length (v_q s3) + 3) s3 pos)
  end.

(* ---- lapped seeks -------------------------------------------------------------- *)

(* _fetch_and_process_packet(vf, NULL, readp=1, spanp=0): as fetch, but the first page of another link
   ends the data (the page has been consumed, nothing else is touched) *)
Fixpoint fetch_ns (fuel : nat) (s : vfs) : Z * vfs :=
  match fuel with
  | O => (OUT_OF_FUEL, s)
  | S f =>
      let s := make_ready s in
      if (v_rs s =? INITSET) && (match v_q s with [] => false | _ => true end) then
        match v_q s with
        | [] => (OUT_OF_FUEL, s)
        | p :: q' =>
            let s1 := set_q s q' (v_fresh s) (v_pno s + 1) in
            match pk_W p with
            | Some w =>
                let s2 := process_audio (set_q s q' (v_fresh s) (v_pno s)) p w in
                (1, set_q s2 (v_q s2) (v_fresh s2) (v_pno s + 1))
            | None => fetch_ns f s1
            end
        end
      else
        match v_rem s with
        | [] => (OV_EOF_, s)
        | pg :: rem' =>
            let s1 := set_rem s rem' in
            if (v_rs s1 =? INITSET) && negb (v_serial s1 =? pg_serial pg) then
              if pg_bos pg then (OV_EOF_, s1)
              else fetch_ns f s1
            else if v_rs s1 <? STREAMSET then
              match find_link (v_links s1) (pg_serial pg) 0 with
              | None => fetch_ns f s1
              | Some link =>
                  let s3 := set_rs (os_reset (set_link s1 link (pg_serial pg))) STREAMSET in
                  fetch_ns f (os_pagein s3 pg)
              end
            else fetch_ns f (os_pagein s1 pg)
        end
  end.

(* _ov_initset / _ov_initprime: fetch (without spanning links) until the decoder is set up / has samples *)
Fixpoint initset (fuel : nat) (s : vfs) : Z * vfs :=
  match fuel with
  | O => (OUT_OF_FUEL, s)
  | S f =>
      if v_rs s =? INITSET then (0, s)
      else match fetch_ns (fetch_fuel s) s with
           | (rc, s1) => if rc <? 0 then (rc, s1) else initset f s1
           end
  end.
Fixpoint initprime (fuel : nat) (s : vfs) : Z * vfs :=
  match fuel with
  | O => (OUT_OF_FUEL, s)
  | S f =>
      if (v_rs s =? INITSET) && negb (dec_pcmout (v_dec s) =? 0) then (0, s)
      else match fetch_ns (fetch_fuel s) s with
           | (rc, s1) => if rc <? 0 then (rc, s1) else initprime f s1
           end
  end.

(* _ov_getlap's decode loop: take lapsize samples out of the decoder (the reported position does not follow);
   returns the state and how many were taken *)
Fixpoint getlap (fuel : nat) (s : vfs) (lapcount lapsize : Z) : vfs * Z :=
  match fuel with
  | O => (set_pcm s OUT_OF_FUEL, lapcount)
  | S f =>
      if lapcount <? lapsize then
        let samples := dec_pcmout (v_dec s) in
        if negb (samples =? 0) then
          let n := if samples >? lapsize - lapcount then lapsize - lapcount else samples in
          let (_, d) := dec_read (v_dec s) n in
          getlap f (set_dec s d) (lapcount + n) lapsize
        else match fetch_ns (fetch_fuel s) s with
             | (rc, s1) => if rc =? OV_EOF_ then (s1, lapcount) else getlap f s1 lapcount lapsize
             end
      else (s, lapcount)
  end.
Definition lap_fuel (s : vfs) : nat := (length (v_rem s) + pkt_count (v_rem s) + length (v_q s) + 3)%nat.

(* _ov_64_seek_lap after its argument checks: set up, take the lapping data (from the decoder's
   unwindowed second half when decoding cannot supply it), seek, prime, expose the buffer for the splice *)
Definition seek_lap (seek : vfs -> Z -> Z * vfs) (s : vfs) (pos : Z) : Z * vfs :=
  match initset (lap_fuel s) s with
  | (rc, s1) =>
      if negb (rc =? 0) then (rc, s1)
      else
        let n1 := Z.shiftr (li_bs0 (cur_link s1)) (1 + v_hs s1) in
        let '(s2, cnt) := getlap (lap_fuel s1 + Z.to_nat n1) s1 0 n1 in
        let s2' := if cnt <? n1 then set_dec s2 (snd (dec_lapout (cur_cfg s2) (v_dec s2))) else s2 in
        match seek s2' pos with
        | (rc, s3) =>
            if negb (rc =? 0) then (rc, s3)
            else match initprime (lap_fuel s3) s3 with
                 | (rc, s4) =>
                     if negb (rc =? 0) then (rc, s4)
                     else (0, set_dec s4 (snd (dec_lapout (cur_cfg s4) (v_dec s4))))
                 end
        end
  end.

(* ov_pcm_seek_lap / ov_pcm_seek_page_lap / ov_raw_seek_lap *)
Definition pcm_seek_lap (s : vfs) (pos : Z) : Z * vfs :=
  if v_rs s <? OPENED then (OV_EINVAL_, s)
  else if (pos <? 0) || (pos >? pcm_total s) then (OV_EINVAL_, s)
  else seek_lap pcm_seek s pos.
Definition pcm_seek_page_lap (s : vfs) (pos : Z) : Z * vfs :=
  if v_rs s <? OPENED then (OV_EINVAL_, s)
  else if (pos <? 0) || (pos >? pcm_total s) then (OV_EINVAL_, s)
  else seek_lap pcm_seek_page s pos.
Definition raw_seek_lap (s : vfs) (pos : Z) : Z * vfs :=
  if v_rs s <? OPENED then (OV_EINVAL_, s)
  else if (pos <? 0) || (pos >? file_end s) then (OV_EINVAL_, s)
  else seek_lap raw_seek s pos.

(* ov_halfrate(vf, flag): refused (state untouched) when switching on and some
   link has 64-sample short blocks; otherwise the flag is set on every link,
   then a running decoder is dumped and the position re-sought *)
Definition halfrate (s : vfs) (flag : bool) : Z * vfs :=
  if flag && existsb (fun l => li_bs0 l <=? 64) (v_links s) then (OV_EINVAL_, s)
  else
    let s1 := set_hs s (if flag then 1 else 0) in
    if v_rs s1 >? STREAMSET then
      let s2 := set_rs s1 STREAMSET in
      if v_pcm s2 >=? 0 then (0, snd (pcm_seek (set_pcm s2 (-1)) (v_pcm s2))) else (0, s2)
    else (0, s1).

(* ---- open ---------------------------------------------------------------------- *)

(* state right after a successful seekable open: ov_raw_seek(dataoffsets[0]) *)
Definition opened (pages : list page) (links : list linfo) (h : Z) : vfs :=
  let l0 := nth 0 links {| li_serial := -1; li_bs0 := 0; li_bs1 := 0; li_off := 0; li_dataoff := 0;
                           li_end := 0; li_init := 0; li_len := 0 |} in
  let s0 := {| v_pages := pages; v_links := links; v_rem := []; v_rs := STREAMSET; v_link := 0;
               v_serial := li_serial l0; v_q := []; v_fresh := true; v_pno := 0; v_pcm := -1;
               v_dec := dec_init (cfg_of l0 h); v_hs := h |} in
  snd (raw_seek s0 (li_dataoff l0)).

(* ---- building the link table from the page table ---------------------------------- *)

Fixpoint split_links (pgs : list page) (cur : list page) (acc : list (list page)) (prev_bos : bool) : list (list page) :=
  match pgs with
  | [] => match cur with [] => rev acc | _ => rev (rev cur :: acc) end
  | pg :: r =>
      if pg_bos pg && negb prev_bos then
        match cur with
        | [] => split_links r [pg] acc true
        | _ => split_links r [pg] (rev cur :: acc) true
        end
      else split_links r (pg :: cur) acc (pg_bos pg)
  end.

Definition is_header (p : pkt) : bool := match pk_W p with None => true | Some _ => false end.

(* pages after the one on which the third header packet completes *)
Fixpoint skip_headers (pgs : list page) (serial : Z) (seen : nat) : list page :=
  match pgs with
  | [] => []
  | pg :: r =>
      if Nat.leb 3 seen then pgs
      else if pg_serial pg =? serial
           then skip_headers r serial (seen + length (filter is_header (pg_pkts pg)))%nat
           else skip_headers r serial seen
  end.

Definition mk_link (seg : list page) (hdr : Z * Z * Z) (fend : Z) (next_off : option Z) : linfo :=
  let '(serial, b0, b1) := hdr in
  let off := match seg with pg :: _ => pg_off pg | [] => 0 end in
  let audio := skip_headers seg serial 0 in
  let dataoff := match audio with pg :: _ => pg_off pg | [] => match next_off with Some o => o | None => fend end end in
  let l0 := {| li_serial := serial; li_bs0 := b0; li_bs1 := b1; li_off := off; li_dataoff := dataoff;
               li_end := match next_off with Some o => o | None => fend end; li_init := 0; li_len := 0 |} in
  let init := initial_pcmoffset l0 audio in
  let lg := last_gran serial seg (-1) in
  let len0 := (if lg <? 0 then 0 else lg) - init in
  {| li_serial := serial; li_bs0 := b0; li_bs1 := b1; li_off := off; li_dataoff := dataoff;
     li_end := li_end l0; li_init := init; li_len := if len0 <? 0 then 0 else len0 |}.

Fixpoint mk_links (segs : list (list page)) (hdrs : list (Z * Z * Z)) (fend : Z) : list linfo :=
  match segs, hdrs with
  | seg :: r, h :: hr =>
      let next_off := match r with (pg :: _) :: _ => Some (pg_off pg) | _ => None end in
      mk_link seg h fend next_off :: mk_links r hr fend
  | _, _ => []
  end.

(* offsets[links] is the offset of the LAST PAGE of the file (what
   _get_prev_page_serial returns), not the file's length *)
Definition open_file (pages : list page) (hdrs : list (Z * Z * Z)) (h : Z) : vfs :=
  let fend := match rev pages with [] => 0 | pg :: _ => pg_off pg end in
  opened pages (mk_links (split_links pages [] [] false) hdrs fend) h.
