(* Round trip: the header parser (Setup.v) reads back exactly what the header
   packers (Pack.v) write. *)
From VV Require Import SrcFacts Bits Comment Setup Pack Decoder_lemmas.
From Coq Require Import ZArith NArith List Bool Lia ZifyBool ZifyN.
Import ListNotations.
Local Open Scope Z_scope.
Ltac Zify.zify_post_hook ::= Z.div_mod_to_equations.

(* ------------------------------------------------------------------ *)
(* one field                                                           *)
(* ------------------------------------------------------------------ *)
Lemma rd_acc_bits_of : forall w n rest k acc,
  rd_acc w (bits_of w n ++ rest) k acc = Some (acc + k * (Z.of_N n mod 2 ^ Z.of_nat w), rest).
Proof.
  induction w as [|w IH]; intros n rest k acc.
  - cbn. rewrite Z.mod_1_r. f_equal. f_equal. lia.
  - cbn [bits_of app rd_acc]. rewrite IH. f_equal. f_equal.
    rewrite Nat2Z.inj_succ, Z.pow_succ_r by lia.
    assert (0 < 2 ^ Z.of_nat w) by (apply Z.pow_pos_nonneg; lia).
    rewrite N.div2_div, N2Z.inj_div. change (Z.of_N 2) with 2.
    pose proof (N.odd_spec n) as Ho. destruct (N.odd n) eqn:E.
    + assert (Z.of_N n mod 2 = 1) as Hm by (destruct Ho as [Ho _]; specialize (Ho eq_refl); destruct Ho as [m Hm']; rewrite Hm'; rewrite N2Z.inj_add, N2Z.inj_mul; change (Z.of_N 2) with 2; change (Z.of_N 1) with 1; rewrite Z.add_comm, Z.mul_comm, Z.mod_add by lia; reflexivity).
      rewrite (Z.rem_mul_r (Z.of_N n) 2 (2 ^ Z.of_nat w)) by lia. lia.
    + assert (Z.of_N n mod 2 = 0) as Hm.
      { pose proof (N.even_spec n) as He. rewrite <- N.negb_odd, E in He. destruct He as [He _]. specialize (He eq_refl). destruct He as [m Hm'].
        rewrite Hm', N2Z.inj_mul. change (Z.of_N 2) with 2. rewrite Z.mul_comm, Z.mod_mul by lia. reflexivity. }
      rewrite (Z.rem_mul_r (Z.of_N n) 2 (2 ^ Z.of_nat w)) by lia. lia.
Qed.

Lemma rd_wr w v rest : 0 <= v < 2 ^ Z.of_nat w -> rd w (wr w v ++ rest) = Some (v, rest).
Proof.
  intros Hv. unfold rd, wr. rewrite rd_acc_bits_of. f_equal. f_equal.
  rewrite Z2N.id by (apply Z.mod_pos_bound; lia). rewrite Z.mod_mod by lia. rewrite Z.mod_small by lia. lia.
Qed.

Lemma rd_list_wr w : forall l rest, Forall (fun v => 0 <= v < 2 ^ Z.of_nat w) l ->
  rd_list (length l) w (flat_map (wr w) l ++ rest) = Some (l, rest).
Proof.
  induction l as [|x r IH]; intros rest Hf; [reflexivity|].
  inversion Hf; subst. cbn [length rd_list flat_map]. rewrite <- app_assoc, rd_wr by assumption.
  rewrite IH by assumption. reflexivity.
Qed.

Ltac assoc := repeat rewrite <- app_assoc.
Ltac pow2 := repeat match goal with |- context [2 ^ Z.of_nat ?n] => let v := eval compute in (2 ^ Z.of_nat n) in change (2 ^ Z.of_nat n) with v end.

(* ------------------------------------------------------------------ *)
(* modes                                                               *)
(* ------------------------------------------------------------------ *)
Definition mode_ok (maps : Z) (m : mode) : Prop :=
  (md_blockflag m = 0 \/ md_blockflag m = 1) /\ 0 <= md_mapping m < maps.

Lemma rd_modes_pack maps : maps <= 256 -> forall l rest, Forall (mode_ok maps) l ->
  rd_modes (length l) maps (flat_map pack_mode l ++ rest) = Some (l, rest).
Proof.
  intros Hm. induction l as [|m r IH]; intros rest Hf; [reflexivity|].
  inversion Hf as [|? ? [Hb Hmp] Hr]; subst. cbn [length rd_modes flat_map]. unfold pack_mode. assoc.
  rewrite rd_wr by (pow2; lia). rewrite rd_wr by (pow2; lia). rewrite rd_wr by (pow2; lia). rewrite rd_wr by (pow2; lia).
  cbn [Z.geb Z.compare orb].
  destruct (md_mapping m >=? maps) eqn:E; [lia|]. rewrite IH by assumption. destruct m; reflexivity.
Qed.

(* ------------------------------------------------------------------ *)
(* mappings                                                            *)
(* ------------------------------------------------------------------ *)
Definition mapping_ok (channels floors residues : Z) (m : mapping) : Prop :=
  mapping_wf channels floors residues m /\ 1 <= channels <= 255 /\ floors <= 256 /\ residues <= 256 /\
  (length (m_coupling m) <= 256)%nat /\ (m_submaps m = 1 -> m_mux m = repeat 0 (Z.to_nat channels)).

Lemma ilog_bound_255 c : 1 <= c <= 255 -> forall v, 0 <= v < c -> v < 2 ^ Z.of_nat (ilogn (c - 1)).
Proof.
  intros Hc v Hv.
  assert (forallb (fun x => x <? 2 ^ Z.of_nat (ilogn x)) (map Z.of_nat (seq 0 256)) = true) as Hall by (vm_compute; reflexivity).
  rewrite forallb_forall in Hall. specialize (Hall (c - 1)).
  assert (In (c - 1) (map Z.of_nat (seq 0 256))) as Hin by (apply in_map_iff; exists (Z.to_nat (c - 1)); split; [lia|apply in_seq; lia]).
  specialize (Hall Hin). lia.
Qed.

Lemma rd_coupling_pack channels : 1 <= channels <= 255 -> forall l rest,
  Forall (fun p => 0 <= fst p < channels /\ 0 <= snd p < channels /\ fst p <> snd p) l ->
  rd_coupling (length l) channels
    (flat_map (fun p => wr (ilogn (channels - 1)) (fst p) ++ wr (ilogn (channels - 1)) (snd p)) l ++ rest) = Some (l, rest).
Proof.
  intros Hc. induction l as [|[m a] r IH]; intros rest Hf; [reflexivity|].
  inversion Hf as [|? ? [Hm [Ha Hne]] Hr]; subst. cbn [fst snd] in *. cbn [length rd_coupling flat_map fst snd]. assoc.
  pose proof (ilog_bound_255 channels Hc) as Hb.
  rewrite rd_wr by (split; [lia|apply Hb; lia]). rewrite rd_wr by (split; [lia|apply Hb; lia]).
  destruct ((m =? a) || (m >=? channels) || (a >=? channels)) eqn:E; [lia|]. rewrite IH by assumption. reflexivity.
Qed.

Lemma rd_mux_pack submaps : submaps <= 16 -> forall l rest, Forall (fun v => 0 <= v < submaps) l ->
  rd_mux (length l) submaps (flat_map (wr 4) l ++ rest) = Some (l, rest).
Proof.
  intros Hs. induction l as [|v r IH]; intros rest Hf; [reflexivity|].
  inversion Hf; subst. cbn [length rd_mux flat_map]. assoc. rewrite rd_wr by (pow2; lia).
  destruct (v >=? submaps) eqn:E; [lia|]. rewrite IH by assumption. reflexivity.
Qed.

Lemma rd_submaps_pack floors residues : floors <= 256 -> residues <= 256 -> forall l rest,
  Forall (fun p => 0 <= fst p < floors /\ 0 <= snd p < residues) l ->
  rd_submaps (length l) floors residues (flat_map (fun p => wr 8 0 ++ wr 8 (fst p) ++ wr 8 (snd p)) l ++ rest) = Some (l, rest).
Proof.
  intros Hf Hr. induction l as [|[f rs] r IH]; intros rest Hall; [reflexivity|].
  inversion Hall as [|? ? [H1 H2] Hrest]; subst. cbn [fst snd] in *. cbn [length rd_submaps flat_map fst snd]. assoc.
  rewrite rd_wr by (pow2; lia). rewrite rd_wr by (pow2; lia).
  destruct (f >=? floors) eqn:E1; [lia|]. rewrite rd_wr by (pow2; lia).
  destruct (rs >=? residues) eqn:E2; [lia|]. rewrite IH by assumption. reflexivity.
Qed.

Lemma unpack_pack_mapping channels floors residues m rest :
  mapping_ok channels floors residues m ->
  unpack_mapping channels floors residues (pack_mapping_body channels m ++ rest) = Some (m, rest).
Proof.
  intros (Hwf & Hch & Hfl & Hrs & Hcl & Hmux1).
  destruct Hwf as (Hs & Lmux & Fmux & Fc & Lf & Lr & Ff & Fr).
  unfold pack_mapping_body, unpack_mapping.
  destruct (channels <=? 0) eqn:E0; [lia|].
  assert (combine (m_floor m) (m_residue m) = combine (m_floor m) (m_residue m)) as _ by reflexivity.
  set (subs := combine (m_floor m) (m_residue m)).
  assert (length subs = Z.to_nat (m_submaps m)) as Lsubs by (unfold subs; rewrite combine_length; lia).
  assert (Forall (fun p => 0 <= fst p < floors /\ 0 <= snd p < residues) subs) as Fsubs.
  { unfold subs. apply Forall_forall. intros [f r] Hin. pose proof (in_combine_l _ _ _ _ Hin). pose proof (in_combine_r _ _ _ _ Hin).
    rewrite Forall_forall in Ff, Fr. cbn. split; [apply Ff|apply Fr]; assumption. }
  assert (map fst subs = m_floor m /\ map snd subs = m_residue m) as [Mf Mr].
  { unfold subs. clear -Lf Lr. assert (length (m_floor m) = length (m_residue m)) as L by lia. revert L.
    generalize (m_floor m) (m_residue m). induction l as [|a t IH]; intros [|b u] L; cbn in *; try lia; [auto|].
    destruct (IH u ltac:(lia)) as [A B]. rewrite A, B. auto. }
  destruct (m_submaps m >? 1) eqn:Es.
  - assoc. rewrite rd_wr by (pow2; lia). cbn [Z.eqb Pos.eqb]. rewrite rd_wr by (pow2; lia).
    destruct (m_coupling m) as [|p cp] eqn:Ec.
    + cbv iota. assoc. rewrite rd_wr by (pow2; lia). cbn [Z.eqb Pos.eqb]. rewrite rd_wr by (pow2; lia). cbn [Z.eqb Pos.eqb negb].
      replace (m_submaps m - 1 + 1) with (m_submaps m) by lia. rewrite Es.
      replace (Z.to_nat channels) with (length (m_mux m)) by lia. rewrite rd_mux_pack by (lia || assumption).
      rewrite <- Lsubs. fold subs. rewrite rd_submaps_pack by assumption.
      rewrite Mf, Mr. destruct m; cbn in *; subst; reflexivity.
    + cbv iota. assoc. rewrite rd_wr by (pow2; lia). cbn [Z.eqb Pos.eqb]. rewrite rd_wr by (pow2; cbn [length] in *; lia).
      replace (Z.to_nat (Z.of_nat (length (p :: cp)) - 1 + 1)) with (length (p :: cp)) by lia.
      rewrite rd_coupling_pack by (lia || assumption).
      rewrite rd_wr by (pow2; lia). cbn [Z.eqb Pos.eqb negb].
      replace (m_submaps m - 1 + 1) with (m_submaps m) by lia. rewrite Es.
      replace (Z.to_nat channels) with (length (m_mux m)) by lia. rewrite rd_mux_pack by (lia || assumption).
      rewrite <- Lsubs. fold subs. rewrite rd_submaps_pack by assumption.
      rewrite Mf, Mr. destruct m; cbn in *; subst; reflexivity.
  - assert (m_submaps m = 1) as E1 by lia. specialize (Hmux1 E1). rewrite E1 in Lsubs.
    assoc. rewrite rd_wr by (pow2; lia). cbn [Z.eqb Pos.eqb].
    destruct (m_coupling m) as [|p cp] eqn:Ec.
    + cbv iota. assoc. rewrite rd_wr by (pow2; lia). cbn [Z.eqb Pos.eqb]. rewrite rd_wr by (pow2; lia). cbn [Z.eqb Pos.eqb negb].
      change (1 >? 1) with false. cbv iota. cbn [app].
      rewrite <- Lsubs. fold subs. rewrite rd_submaps_pack by assumption.
      rewrite Mf, Mr. rewrite <- Hmux1. destruct m; cbn in *; subst; reflexivity.
    + cbv iota. assoc. rewrite rd_wr by (pow2; lia). cbn [Z.eqb Pos.eqb]. rewrite rd_wr by (pow2; cbn [length] in *; lia).
      replace (Z.to_nat (Z.of_nat (length (p :: cp)) - 1 + 1)) with (length (p :: cp)) by lia.
      rewrite rd_coupling_pack by (lia || assumption).
      rewrite rd_wr by (pow2; lia). cbn [Z.eqb Pos.eqb negb]. change (1 >? 1) with false. cbv iota. cbn [app].
      rewrite <- Lsubs. fold subs. rewrite rd_submaps_pack by assumption.
      rewrite Mf, Mr. rewrite <- Hmux1. destruct m; cbn in *; subst; reflexivity.
Qed.
