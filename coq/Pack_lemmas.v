(* Round trip: the header parser (Setup.v) reads back exactly what the header
   packers (Pack.v) write. *)
From VV Require Import SrcFacts Bits Comment Setup Pack Decoder_lemmas.
From Coq Require Import ZArith NArith List Bool Lia ZifyBool ZifyN.
Import ListNotations.
Local Open Scope Z_scope.
Ltac Zify.zify_post_hook ::= Z.div_mod_to_equations.

(* ------------------------------------------------------------------ *)
(* one field                                                           *)
(* ------------------------------------------------------------------ *)
Lemma rd_acc_bits_of : forall w n rest k acc,
  rd_acc w (bits_of w n ++ rest) k acc = Some (acc + k * (Z.of_N n mod 2 ^ Z.of_nat w), rest).
Proof.
  induction w as [|w IH]; intros n rest k acc.
  - cbn. rewrite Z.mod_1_r. f_equal. f_equal. lia.
  - cbn [bits_of app rd_acc]. rewrite IH. f_equal. f_equal.
    rewrite Nat2Z.inj_succ, Z.pow_succ_r by lia.
    assert (0 < 2 ^ Z.of_nat w) by (apply Z.pow_pos_nonneg; lia).
    rewrite N.div2_div, N2Z.inj_div. change (Z.of_N 2) with 2.
    pose proof (N.odd_spec n) as Ho. destruct (N.odd n) eqn:E.
    + assert (Z.of_N n mod 2 = 1) as Hm by (destruct Ho as [Ho _]; specialize (Ho eq_refl); destruct Ho as [m Hm']; rewrite Hm'; rewrite N2Z.inj_add, N2Z.inj_mul; change (Z.of_N 2) with 2; change (Z.of_N 1) with 1; rewrite Z.add_comm, Z.mul_comm, Z.mod_add by lia; reflexivity).
      rewrite (Z.rem_mul_r (Z.of_N n) 2 (2 ^ Z.of_nat w)) by lia. lia.
    + assert (Z.of_N n mod 2 = 0) as Hm.
      { pose proof (N.even_spec n) as He. rewrite <- N.negb_odd, E in He. destruct He as [He _]. specialize (He eq_refl). destruct He as [m Hm'].
        rewrite Hm', N2Z.inj_mul. change (Z.of_N 2) with 2. rewrite Z.mul_comm, Z.mod_mul by lia. reflexivity. }
      rewrite (Z.rem_mul_r (Z.of_N n) 2 (2 ^ Z.of_nat w)) by lia. lia.
Qed.

Lemma rd_wr w v rest : 0 <= v < 2 ^ Z.of_nat w -> rd w (wr w v ++ rest) = Some (v, rest).
Proof.
  intros Hv. unfold rd, wr. rewrite rd_acc_bits_of. f_equal. f_equal.
  rewrite Z2N.id by (apply Z.mod_pos_bound; lia). rewrite Z.mod_mod by lia. rewrite Z.mod_small by lia. lia.
Qed.

Lemma rd_list_wr w : forall l rest, Forall (fun v => 0 <= v < 2 ^ Z.of_nat w) l ->
  rd_list (length l) w (flat_map (wr w) l ++ rest) = Some (l, rest).
Proof.
  induction l as [|x r IH]; intros rest Hf; [reflexivity|].
  inversion Hf; subst. cbn [length rd_list flat_map]. rewrite <- app_assoc, rd_wr by assumption.
  rewrite IH by assumption. reflexivity.
Qed.

Ltac assoc := repeat rewrite <- app_assoc.
Ltac pow2 := repeat match goal with |- context [2 ^ Z.of_nat ?n] => let v := eval compute in (2 ^ Z.of_nat n) in change (2 ^ Z.of_nat n) with v end.

(* ------------------------------------------------------------------ *)
(* modes                                                               *)
(* ------------------------------------------------------------------ *)
Definition mode_ok (maps : Z) (m : mode) : Prop :=
  (md_blockflag m = 0 \/ md_blockflag m = 1) /\ 0 <= md_mapping m < maps.

Lemma rd_modes_pack maps : maps <= 256 -> forall l rest, Forall (mode_ok maps) l ->
  rd_modes (length l) maps (flat_map pack_mode l ++ rest) = Some (l, rest).
Proof.
  intros Hm. induction l as [|m r IH]; intros rest Hf; [reflexivity|].
  inversion Hf as [|? ? [Hb Hmp] Hr]; subst. cbn [length rd_modes flat_map]. unfold pack_mode. assoc.
  rewrite rd_wr by (pow2; lia). rewrite rd_wr by (pow2; lia). rewrite rd_wr by (pow2; lia). rewrite rd_wr by (pow2; lia).
  cbn [Z.geb Z.compare orb].
  destruct (md_mapping m >=? maps) eqn:E; [lia|]. rewrite IH by assumption. destruct m; reflexivity.
Qed.

(* ------------------------------------------------------------------ *)
(* mappings                                                            *)
(* ------------------------------------------------------------------ *)
Definition mapping_ok (channels floors residues : Z) (m : mapping) : Prop :=
  mapping_wf channels floors residues m /\ 1 <= channels <= 255 /\ floors <= 256 /\ residues <= 256 /\
  (length (m_coupling m) <= 256)%nat /\ (m_submaps m = 1 -> m_mux m = repeat 0 (Z.to_nat channels)).

Lemma ilog_bound_255 c : 1 <= c <= 255 -> forall v, 0 <= v < c -> v < 2 ^ Z.of_nat (ilogn (c - 1)).
Proof.
  intros Hc v Hv.
  assert (forallb (fun x => x <? 2 ^ Z.of_nat (ilogn x)) (map Z.of_nat (seq 0 256)) = true) as Hall by (vm_compute; reflexivity).
  rewrite forallb_forall in Hall. specialize (Hall (c - 1)).
  assert (In (c - 1) (map Z.of_nat (seq 0 256))) as Hin by (apply in_map_iff; exists (Z.to_nat (c - 1)); split; [lia|apply in_seq; lia]).
  specialize (Hall Hin). lia.
Qed.

Lemma rd_coupling_pack channels : 1 <= channels <= 255 -> forall l rest,
  Forall (fun p => 0 <= fst p < channels /\ 0 <= snd p < channels /\ fst p <> snd p) l ->
  rd_coupling (length l) channels
    (flat_map (fun p => wr (ilogn (channels - 1)) (fst p) ++ wr (ilogn (channels - 1)) (snd p)) l ++ rest) = Some (l, rest).
Proof.
  intros Hc. induction l as [|[m a] r IH]; intros rest Hf; [reflexivity|].
  inversion Hf as [|? ? [Hm [Ha Hne]] Hr]; subst. cbn [fst snd] in *. cbn [length rd_coupling flat_map fst snd]. assoc.
  pose proof (ilog_bound_255 channels Hc) as Hb.
  rewrite rd_wr by (split; [lia|apply Hb; lia]). rewrite rd_wr by (split; [lia|apply Hb; lia]).
  destruct ((m =? a) || (m >=? channels) || (a >=? channels)) eqn:E; [lia|]. rewrite IH by assumption. reflexivity.
Qed.

Lemma rd_mux_pack submaps : submaps <= 16 -> forall l rest, Forall (fun v => 0 <= v < submaps) l ->
  rd_mux (length l) submaps (flat_map (wr 4) l ++ rest) = Some (l, rest).
Proof.
  intros Hs. induction l as [|v r IH]; intros rest Hf; [reflexivity|].
  inversion Hf; subst. cbn [length rd_mux flat_map]. assoc. rewrite rd_wr by (pow2; lia).
  destruct (v >=? submaps) eqn:E; [lia|]. rewrite IH by assumption. reflexivity.
Qed.

Lemma rd_submaps_pack floors residues : floors <= 256 -> residues <= 256 -> forall l rest,
  Forall (fun p => 0 <= fst p < floors /\ 0 <= snd p < residues) l ->
  rd_submaps (length l) floors residues (flat_map (fun p => wr 8 0 ++ wr 8 (fst p) ++ wr 8 (snd p)) l ++ rest) = Some (l, rest).
Proof.
  intros Hf Hr. induction l as [|[f rs] r IH]; intros rest Hall; [reflexivity|].
  inversion Hall as [|? ? [H1 H2] Hrest]; subst. cbn [fst snd] in *. cbn [length rd_submaps flat_map fst snd]. assoc.
  rewrite rd_wr by (pow2; lia). rewrite rd_wr by (pow2; lia).
  destruct (f >=? floors) eqn:E1; [lia|]. rewrite rd_wr by (pow2; lia).
  destruct (rs >=? residues) eqn:E2; [lia|]. rewrite IH by assumption. reflexivity.
Qed.

Lemma unpack_pack_mapping channels floors residues m rest :
  mapping_ok channels floors residues m ->
  unpack_mapping channels floors residues (pack_mapping_body channels m ++ rest) = Some (m, rest).
Proof.
  intros (Hwf & Hch & Hfl & Hrs & Hcl & Hmux1).
  destruct Hwf as (Hs & Lmux & Fmux & Fc & Lf & Lr & Ff & Fr).
  unfold pack_mapping_body, unpack_mapping.
  destruct (channels <=? 0) eqn:E0; [lia|].
  assert (combine (m_floor m) (m_residue m) = combine (m_floor m) (m_residue m)) as _ by reflexivity.
  set (subs := combine (m_floor m) (m_residue m)).
  assert (length subs = Z.to_nat (m_submaps m)) as Lsubs by (unfold subs; rewrite combine_length; lia).
  assert (Forall (fun p => 0 <= fst p < floors /\ 0 <= snd p < residues) subs) as Fsubs.
  { unfold subs. apply Forall_forall. intros [f r] Hin. pose proof (in_combine_l _ _ _ _ Hin). pose proof (in_combine_r _ _ _ _ Hin).
    rewrite Forall_forall in Ff, Fr. cbn. split; [apply Ff|apply Fr]; assumption. }
  assert (map fst subs = m_floor m /\ map snd subs = m_residue m) as [Mf Mr].
  { unfold subs. clear -Lf Lr. assert (length (m_floor m) = length (m_residue m)) as L by lia. revert L.
    generalize (m_floor m) (m_residue m). induction l as [|a t IH]; intros [|b u] L; cbn in *; try lia; [auto|].
    destruct (IH u ltac:(lia)) as [A B]. rewrite A, B. auto. }
  destruct (m_submaps m >? 1) eqn:Es.
  - assoc. rewrite rd_wr by (pow2; lia). cbn [Z.eqb Pos.eqb]. rewrite rd_wr by (pow2; lia).
    destruct (m_coupling m) as [|p cp] eqn:Ec.
    + cbv iota. assoc. rewrite rd_wr by (pow2; lia). cbn [Z.eqb Pos.eqb]. rewrite rd_wr by (pow2; lia). cbn [Z.eqb Pos.eqb negb].
      replace (m_submaps m - 1 + 1) with (m_submaps m) by lia. rewrite Es.
      replace (Z.to_nat channels) with (length (m_mux m)) by lia. rewrite rd_mux_pack by (lia || assumption).
      rewrite <- Lsubs. fold subs. rewrite rd_submaps_pack by assumption.
      rewrite Mf, Mr. destruct m; cbn in *; subst; reflexivity.
    + cbv iota. assoc. rewrite rd_wr by (pow2; lia). cbn [Z.eqb Pos.eqb]. rewrite rd_wr by (pow2; cbn [length] in *; lia).
      replace (Z.to_nat (Z.of_nat (length (p :: cp)) - 1 + 1)) with (length (p :: cp)) by lia.
      rewrite rd_coupling_pack by (lia || assumption).
      rewrite rd_wr by (pow2; lia). cbn [Z.eqb Pos.eqb negb].
      replace (m_submaps m - 1 + 1) with (m_submaps m) by lia. rewrite Es.
      replace (Z.to_nat channels) with (length (m_mux m)) by lia. rewrite rd_mux_pack by (lia || assumption).
      rewrite <- Lsubs. fold subs. rewrite rd_submaps_pack by assumption.
      rewrite Mf, Mr. destruct m; cbn in *; subst; reflexivity.
  - assert (m_submaps m = 1) as E1 by lia. specialize (Hmux1 E1). rewrite E1 in Lsubs.
    assoc. rewrite rd_wr by (pow2; lia). cbn [Z.eqb Pos.eqb].
    destruct (m_coupling m) as [|p cp] eqn:Ec.
    + cbv iota. assoc. rewrite rd_wr by (pow2; lia). cbn [Z.eqb Pos.eqb]. rewrite rd_wr by (pow2; lia). cbn [Z.eqb Pos.eqb negb].
      change (1 >? 1) with false. cbv iota. cbn [app].
      rewrite <- Lsubs. fold subs. rewrite rd_submaps_pack by assumption.
      rewrite Mf, Mr. rewrite <- Hmux1. destruct m; cbn in *; subst; reflexivity.
    + cbv iota. assoc. rewrite rd_wr by (pow2; lia). cbn [Z.eqb Pos.eqb]. rewrite rd_wr by (pow2; cbn [length] in *; lia).
      replace (Z.to_nat (Z.of_nat (length (p :: cp)) - 1 + 1)) with (length (p :: cp)) by lia.
      rewrite rd_coupling_pack by (lia || assumption).
      rewrite rd_wr by (pow2; lia). cbn [Z.eqb Pos.eqb negb]. change (1 >? 1) with false. cbv iota. cbn [app].
      rewrite <- Lsubs. fold subs. rewrite rd_submaps_pack by assumption.
      rewrite Mf, Mr. rewrite <- Hmux1. destruct m; cbn in *; subst; reflexivity.
Qed.

(* ------------------------------------------------------------------ *)
(* residues                                                            *)
(* ------------------------------------------------------------------ *)
Lemma rd_wr_mod w v rest : rd w (wr w v ++ rest) = Some (v mod 2 ^ Z.of_nat w, rest).
Proof.
  unfold rd, wr. rewrite rd_acc_bits_of. f_equal. f_equal.
  assert (0 < 2 ^ Z.of_nat w) by (apply Z.pow_pos_nonneg; lia).
  rewrite Z2N.id by (apply Z.mod_pos_bound; lia). rewrite Z.mod_mod by lia. lia.
Qed.

Lemma rd_cascade_small c rest : 0 <= c < 8 -> wr 4 c ++ rest = wr 3 c ++ wr 1 0 ++ rest.
Proof.
  intros Hc. assert (c = 0 \/ c = 1 \/ c = 2 \/ c = 3 \/ c = 4 \/ c = 5 \/ c = 6 \/ c = 7) as H by lia.
  destruct H as [->|[->|[->|[->|[->|[->|[->| ->]]]]]]]; reflexivity.
Qed.

Lemma ilog_small c : 0 <= c < 256 -> (ilog c >? 3) = (c >=? 8).
Proof.
  intros Hc.
  assert (forallb (fun x => Bool.eqb (ilog x >? 3) (x >=? 8)) (map Z.of_nat (seq 0 256)) = true) as Hall by (vm_compute; reflexivity).
  rewrite forallb_forall in Hall. specialize (Hall c).
  assert (In c (map Z.of_nat (seq 0 256))) as Hin by (apply in_map_iff; exists (Z.to_nat c); split; [lia|apply in_seq; lia]).
  apply Hall in Hin. apply eqb_prop in Hin. exact Hin.
Qed.

Lemma rd_cascade_pack : forall l rest, Forall (fun c => 0 <= c < 256) l ->
  rd_cascade (length l) (flat_map pack_cascade l ++ rest) = Some (l, rest).
Proof.
  induction l as [|c r IH]; intros rest Hf; [reflexivity|].
  inversion Hf as [|? ? Hc Hr]; subst. cbn [length rd_cascade flat_map]. unfold pack_cascade at 1.
  rewrite ilog_small by exact Hc. destruct (c >=? 8) eqn:E.
  - assoc. rewrite rd_wr_mod. rewrite rd_wr by (pow2; lia). cbn [Z.eqb Pos.eqb].
    rewrite rd_wr by (pow2; rewrite Z.shiftr_div_pow2 by lia; change (2 ^ 3) with 8; lia).
    rewrite IH by assumption. f_equal. f_equal. f_equal.
    rewrite Z.shiftr_div_pow2 by lia. change (2 ^ Z.of_nat 3) with 8. change (2 ^ 3) with 8. lia.
  - rewrite <- app_assoc. rewrite rd_cascade_small by lia. rewrite rd_wr by (pow2; lia). rewrite rd_wr by (pow2; lia).
    cbn [Z.eqb Pos.eqb]. rewrite IH by assumption. reflexivity.
Qed.

Definition computed_partvals (books : list book) (r : residue) : option Z :=
  if r_partitions r =? 1 then Some 1
  else partvals_fuel 30 (b_dim (bk books (r_groupbook r))) (r_partitions r) (b_entries (bk books (r_groupbook r))) 1.

Definition residue_ok (books : list book) (r : residue) : Prop :=
  residue_wf books r /\ nbooks books <= 256 /\ r_type r < 65536 /\
  r_begin r < 16777216 /\ r_end r < 16777216 /\ r_grouping r <= 16777216 /\
  length (r_booklist r) = Z.to_nat (fold_left (fun a c => a + icount c) (r_secondstages r) 0) /\
  computed_partvals books r = Some (r_partvals r).

Lemma unpack_pack_residue books r rest : residue_ok books r ->
  unpack_residue (r_type r) books (pack_residue_body r ++ rest) = Some (r, rest).
Proof.
  intros (Hwf & Hnb & Ht & Hb & He & Hg & Lbl & Hpv).
  destruct Hwf as (Ht0 & Hb0 & He0 & Hg0 & Hp & Hgb & Hgd & Lss & Fss & Fbl & Hpvr).
  unfold pack_residue_body, unpack_residue. assoc.
  rewrite rd_wr by (pow2; lia). rewrite rd_wr by (pow2; lia). rewrite rd_wr by (pow2; lia).
  rewrite rd_wr by (pow2; lia). rewrite rd_wr by (pow2; lia).
  replace (Z.to_nat (r_partitions r - 1 + 1)) with (length (r_secondstages r)) by lia.
  rewrite rd_cascade_pack by exact Fss.
  rewrite <- Lbl.
  assert (Forall (fun v => 0 <= v < 2 ^ Z.of_nat 8) (r_booklist r)) as Fb8.
  { apply Forall_forall. intros b Hbk. rewrite Forall_forall in Fbl. specialize (Fbl b Hbk). unfold value_book_ok in Fbl. pow2. lia. }
  rewrite rd_list_wr by exact Fb8.
  destruct (r_groupbook r >=? nbooks books) eqn:E1; [lia|].
  assert (existsb (fun b => (b >=? nbooks books) || (b_maptype (bk books b) =? 0) || (b_dim (bk books b) <? 1)) (r_booklist r) = false) as Ex.
  { destruct (existsb _ (r_booklist r)) eqn:E; [|reflexivity]. apply existsb_exists in E. destruct E as [b [Hin Hbad]].
    rewrite Forall_forall in Fbl. specialize (Fbl b Hin). unfold value_book_ok in Fbl. lia. }
  rewrite Ex. destruct (b_dim (bk books (r_groupbook r)) <? 1) eqn:E2; [lia|].
  unfold computed_partvals in Hpv. replace (r_partitions r - 1 + 1) with (r_partitions r) by lia.
  rewrite Hpv.
  destruct ((r_partitions r =? 1) && (1 >? b_entries (bk books (r_groupbook r)))) eqn:E3; [lia|].
  replace (r_grouping r - 1 + 1) with (r_grouping r) by lia. destruct r; reflexivity.
Qed.

(* ------------------------------------------------------------------ *)
(* floor 1                                                             *)
(* ------------------------------------------------------------------ *)
(* a subbook number is stored plus one in 8 bits: book 255 cannot be named as a subbook *)
Lemma rd_subbooks_pack nb : nb <= 256 -> forall l rest, Forall (fun b => -1 <= b < nb /\ b < 255) l ->
  rd_subbooks (length l) nb (flat_map (fun s => wr 8 (s + 1)) l ++ rest) = Some (l, rest).
Proof.
  intros Hnb. induction l as [|b r IH]; intros rest Hf; [reflexivity|].
  inversion Hf; subst. cbn [length rd_subbooks flat_map]. assoc. rewrite rd_wr by (pow2; lia).
  destruct (b + 1 - 1 >=? nb) eqn:E; [lia|]. rewrite IH by assumption. f_equal. f_equal. f_equal. lia.
Qed.

Definition class_ok (nb : Z) (c : fclass) : Prop := class_wf nb c /\ (c_subs c = 0 -> c_book c = 0) /\ Forall (fun b => b < 255) (c_subbook c).

Lemma rd_classes_pack nb : nb <= 256 -> 0 < nb -> forall l rest, Forall (class_ok nb) l ->
  rd_classes (length l) nb (flat_map pack_class l ++ rest) = Some (l, rest).
Proof.
  intros Hnb Hpos. induction l as [|c r IH]; intros rest Hf; [reflexivity|].
  inversion Hf as [|? ? [Hwf [Hb0 F255]] Hr]; subst. destruct Hwf as (Hd & Hs & Hb & Lsb & Fsb0).
  assert (Forall (fun b => -1 <= b < nb /\ b < 255) (c_subbook c)) as Fsb by (apply Forall_forall; intros x Hx; rewrite Forall_forall in Fsb0, F255; split; [apply Fsb0|apply F255]; exact Hx).
  cbn [length rd_classes flat_map]. unfold pack_class at 1. assoc.
  rewrite rd_wr by (pow2; lia). rewrite rd_wr by (pow2; lia).
  destruct (c_subs c =? 0) eqn:E0.
  - cbn [app]. destruct (0 >=? nb) eqn:E1; [lia|].
    rewrite <- Lsb. rewrite rd_subbooks_pack by assumption. rewrite IH by assumption.
    replace (c_dim c - 1 + 1) with (c_dim c) by lia. rewrite <- Hb0 by lia. destruct c; reflexivity.
  - rewrite rd_wr by (pow2; lia). destruct (c_book c >=? nb) eqn:E1; [lia|].
    rewrite <- Lsb. rewrite rd_subbooks_pack by assumption. rewrite IH by assumption.
    replace (c_dim c - 1 + 1) with (c_dim c) by lia. destruct c; reflexivity.
Qed.

Lemma In_firstn_aux {A} n (l : list A) x : In x (firstn n l) -> In x l.
Proof. intros H. rewrite <- (firstn_skipn n l). apply in_or_app. left. exact H. Qed.
Lemma In_skipn_aux {A} n (l : list A) x : In x (skipn n l) -> In x l.
Proof. intros H. rewrite <- (firstn_skipn n l). apply in_or_app. right. exact H. Qed.

Fixpoint dims_sum (classes : list fclass) (pc : list Z) : Z :=
  match pc with [] => 0 | c :: r => c_dim (cls classes c) + dims_sum classes r end.

Lemma rd_posts_pack classes rb : forall pc count posts rest,
  Forall (fun c => 0 <= c_dim (cls classes c)) pc ->
  Z.of_nat (length posts) = dims_sum classes pc -> 0 <= count -> count + dims_sum classes pc <= VIF_POSIT ->
  Forall (fun v => 0 <= v < 2 ^ Z.of_nat rb) posts ->
  rd_posts pc classes rb count (flat_map (wr rb) posts ++ rest) = Some (posts, rest).
Proof.
  induction pc as [|c r IH]; intros count posts rest Hd Hl Hc Hsum Hp; cbn [rd_posts dims_sum] in *.
  - destruct posts; [reflexivity|cbn in Hl; lia].
  - inversion Hd as [|? ? Hd0 Hdr]; subst.
    assert (0 <= dims_sum classes r) as Hnn by (clear -Hdr; induction r as [|x t IHt]; cbn; [lia|inversion Hdr; subst; specialize (IHt ltac:(assumption)); lia]).
    destruct (count + c_dim (cls classes c) >? VIF_POSIT) eqn:E; [lia|].
    set (d := Z.to_nat (c_dim (cls classes c))).
    assert (posts = firstn d posts ++ skipn d posts) as Hsplit by (symmetry; apply firstn_skipn).
    assert (length (firstn d posts) = d) as Lf by (rewrite firstn_length; lia).
    rewrite Hsplit at 1. rewrite flat_map_app, <- app_assoc.
    rewrite <- Lf at 1. rewrite rd_list_wr by (apply Forall_forall; intros x Hx; rewrite Forall_forall in Hp; apply Hp; eapply In_firstn_aux; exact Hx).
    rewrite (IH (count + c_dim (cls classes c)) (skipn d posts) rest); [rewrite <- Hsplit; reflexivity|exact Hdr| | lia| lia| ].
    + rewrite skipn_length. lia.
    + apply Forall_forall. intros x Hx. rewrite Forall_forall in Hp. apply Hp. eapply In_skipn_aux; exact Hx.
Qed.

Definition floor1_ok (books : list book) (pc : list Z) (classes : list fclass) (mult rangebits : Z) (posts : list Z) : Prop :=
  (length pc <= 31)%nat /\ Forall (fun c => 0 <= c < 16) pc /\
  Z.of_nat (length classes) = zmax_list pc (-1) + 1 /\
  Forall (class_ok (nbooks books)) classes /\ 0 < nbooks books <= 256 /\
  1 <= mult <= 4 /\ 0 <= rangebits < 16 /\
  Z.of_nat (length posts) = dims_sum classes pc /\ dims_sum classes pc <= VIF_POSIT /\
  Forall (fun v => 0 <= v < 2 ^ rangebits) posts /\ nodupb (0 :: 2 ^ rangebits :: posts) = true.

Lemma unpack_pack_floor1 books pc classes mult rangebits posts rest :
  floor1_ok books pc classes mult rangebits posts ->
  unpack_floor1 books (pack_floor1_body pc classes mult rangebits posts ++ rest) = Some (Floor1 pc classes mult rangebits posts, rest).
Proof.
  intros (Lpc & Fpc & Lcl & Fcl & Hnb & Hm & Hrb & Lp & Hsum & Fp & Hnd).
  unfold pack_floor1_body, unpack_floor1. assoc.
  rewrite rd_wr by (pow2; lia). rewrite Nat2Z.id.
  rewrite rd_list_wr by (apply Forall_forall; intros c Hc; rewrite Forall_forall in Fpc; specialize (Fpc c Hc); pow2; lia).
  replace (Z.to_nat (zmax_list pc (-1) + 1)) with (length classes) by lia.
  rewrite rd_classes_pack by (lia || assumption).
  rewrite rd_wr by (pow2; lia). rewrite rd_wr by (pow2; lia).
  assert (forall c, 0 <= c_dim (cls classes c)) as Hdim.
  { intros c. unfold cls. destruct (Nat.ltb (Z.to_nat c) (length classes)) eqn:El.
    - apply Nat.ltb_lt in El. rewrite Forall_forall in Fcl. specialize (Fcl _ (nth_In classes {| c_dim := 0; c_subs := 0; c_book := 0; c_subbook := [] |} El)).
      destruct Fcl as [[Hd _] _]. lia.
    - apply Nat.ltb_ge in El. rewrite nth_overflow by exact El. cbn. lia. }
  rewrite rd_posts_pack.
  - rewrite Hnd. replace (mult - 1 + 1) with mult by lia. reflexivity.
  - apply Forall_forall. intros c _. apply Hdim.
  - exact Lp.
  - lia.
  - lia.
  - rewrite Z2Nat.id by lia. exact Fp.
Qed.

(* ------------------------------------------------------------------ *)
(* codebooks: the three encodings of the codeword lengths              *)
(* ------------------------------------------------------------------ *)
(* dense: 5 bits per entry *)
Lemma rd_list_map_pred : forall l rest, Forall (fun v => 1 <= v <= 32) l ->
  rd_list (length l) 5 (flat_map (fun v => wr 5 (v - 1)) l ++ rest) = Some (map (fun x => x - 1) l, rest).
Proof.
  induction l as [|v r IH]; intros rest Hf; [reflexivity|].
  inversion Hf; subst. cbn [length rd_list flat_map map]. assoc. rewrite rd_wr by (pow2; lia). rewrite IH by assumption. reflexivity.
Qed.
(* sparse: a flag per entry *)
Lemma rd_lengths_sparse_pack : forall l rest, Forall (fun v => 0 <= v <= 32) l ->
  rd_lengths_sparse (length l) (flat_map (fun v => if v =? 0 then wr 1 0 else wr 1 1 ++ wr 5 (v - 1)) l ++ rest) = Some (l, rest).
Proof.
  induction l as [|v r IH]; intros rest Hf; [reflexivity|].
  inversion Hf; subst. cbn [length rd_lengths_sparse flat_map]. destruct (v =? 0) eqn:E.
  - assoc. rewrite rd_wr by (pow2; lia). cbn [Z.eqb Pos.eqb]. rewrite IH by assumption. f_equal. f_equal. f_equal. lia.
  - assoc. rewrite rd_wr by (pow2; lia). cbn [Z.eqb Pos.eqb]. rewrite rd_wr by (pow2; lia). rewrite IH by assumption. f_equal. f_equal. f_equal. lia.
Qed.

(* ordered: run counts *)
Fixpoint runs_of (cur cnt : Z) (l : list Z) : list Z :=
  match l with
  | [] => [cnt]
  | x :: r => if x >? cur then cnt :: repeat 0 (Z.to_nat (x - cur - 1)) ++ runs_of x 1 r else runs_of cur (cnt + 1) r
  end.
Fixpoint encode_runs (entries assigned : Z) (runs : list Z) : bits :=
  match runs with
  | [] => []
  | n :: t => wr (ilogn (entries - assigned)) n ++ encode_runs entries (assigned + n) t
  end.
Fixpoint expand (len : Z) (runs : list Z) : list Z :=
  match runs with
  | [] => []
  | n :: t => repeat len (Z.to_nat n) ++ expand (len + 1) t
  end.

Lemma encode_runs_app entries : forall a b assigned, encode_runs entries assigned (a ++ b) = encode_runs entries assigned a ++ encode_runs entries (assigned + fold_right Z.add 0 a) b.
Proof.
  induction a as [|n t IH]; intros b assigned; cbn [app encode_runs fold_right]; [rewrite Z.add_0_r; reflexivity|].
  rewrite IH, <- app_assoc. do 3 f_equal. lia.
Qed.
Lemma encode_zero_runs entries assigned k :
  encode_runs entries assigned (repeat 0 k) = flat_map (fun _ : nat => wr (ilogn (entries - assigned)) 0) (seq 0 k).
Proof.
  assert (forall s, encode_runs entries assigned (repeat 0 k) = flat_map (fun _ : nat => wr (ilogn (entries - assigned)) 0) (seq s k)) as G.
  { induction k as [|k IH]; intros s; cbn [repeat encode_runs seq flat_map]; [reflexivity|]. rewrite Z.add_0_r. f_equal. apply IH. }
  apply G.
Qed.
Lemma sum_repeat0 k : fold_right Z.add 0 (repeat 0 k) = 0.
Proof. induction k; cbn; lia. Qed.

(* Lemma A: what the packer writes is the run encoding *)
Lemma pack_runs_encode entries : forall l i count last, ordered_from last l = true ->
  pack_ordered_runs entries l i count last = encode_runs entries count (runs_of last (i - count) l).
Proof.
  induction l as [|x r IH]; intros i count last Ho; cbn [pack_ordered_runs runs_of encode_runs ordered_from] in *.
  - rewrite app_nil_r. reflexivity.
  - destruct ((last =? 0) || (x <? last)) eqn:E0; [discriminate|].
    destruct (x >? last) eqn:E.
    + cbn [encode_runs]. rewrite <- app_assoc. f_equal.
      rewrite encode_runs_app, sum_repeat0, Z.add_0_r. replace (count + (i - count)) with i by lia.
      rewrite encode_zero_runs. f_equal. rewrite IH by exact Ho. replace (i + 1 - i) with 1 by lia. reflexivity.
    + assert (x = last) by lia. subst x. cbn [app]. rewrite IH by exact Ho. replace (i + 1 - count) with (i - count + 1) by lia. reflexivity.
Qed.

(* Lemma C: expanding the runs gives the sorted list back *)
Lemma expand_runs : forall l cur cnt, 0 <= cnt -> ordered_from cur l = true -> 1 <= cur ->
  expand cur (runs_of cur cnt l) = repeat cur (Z.to_nat cnt) ++ l.
Proof.
  induction l as [|x r IH]; intros cur cnt Hc Ho Hcur; cbn [runs_of ordered_from] in *.
  - cbn. rewrite app_nil_r. reflexivity.
  - destruct ((cur =? 0) || (x <? cur)) eqn:E0; [discriminate|].
    destruct (x >? cur) eqn:E.
    + cbn [expand]. f_equal.
      assert (forall k len t, expand len (repeat 0 k ++ t) = expand (len + Z.of_nat k) t) as Hz.
      { induction k as [|k IHk]; intros len t; cbn [repeat app expand]; [f_equal; lia|]. cbn. rewrite IHk. f_equal. lia. }
      rewrite Hz. replace (cur + 1 + Z.of_nat (Z.to_nat (x - cur - 1))) with x by lia.
      rewrite IH by (lia || assumption). reflexivity.
    + assert (x = cur) by lia. subst x. rewrite IH by (lia || assumption).
      replace (Z.to_nat (cnt + 1)) with (S (Z.to_nat cnt)) by lia. cbn [repeat]. change (cur :: repeat cur (Z.to_nat cnt) ++ r) with ((cur :: repeat cur (Z.to_nat cnt)) ++ r). rewrite repeat_cons, <- app_assoc. reflexivity.
Qed.

Lemma runs_sum : forall l cur cnt, fold_right Z.add 0 (runs_of cur cnt l) = cnt + Z.of_nat (length l).
Proof.
  induction l as [|x r IH]; intros cur cnt; cbn [runs_of fold_right length]; [lia|].
  destruct (x >? cur).
  - cbn [fold_right]. rewrite fold_right_app. rewrite IH.
    assert (forall k a, fold_right Z.add a (repeat 0 k) = a) as Hz by (induction k; intros; cbn; [reflexivity|rewrite IHk; lia]).
    rewrite Hz. lia.
  - rewrite IH. lia.
Qed.

(* plausibility of a run: n codewords of length len need n - 1 < 2^len (the check of the unpacker) *)
Fixpoint runs_okb (len : Z) (runs : list Z) : bool :=
  match runs with
  | [] => true
  | n :: t => (len <=? 32) && ((n <=? 0) || (Z.shiftr (n - 1) (len - 1) <=? 1)) && runs_okb (len + 1) t
  end.

Definition last_pos (runs : list Z) : Prop := 0 < last runs 0.

Lemma ilog_fuel_bound : forall ff y, 0 <= y -> y < 2 ^ Z.of_nat ff -> y < 2 ^ ilog_fuel ff y /\ 0 <= ilog_fuel ff y.
Proof.
  induction ff as [|f' IHf]; intros y Hy Hb; cbn [ilog_fuel].
  - cbn in Hb. assert (y = 0) by lia. subst. cbn. lia.
  - destruct (y <=? 0) eqn:E0; [assert (y = 0) by lia; subst; cbn; lia|].
    rewrite Nat2Z.inj_succ, Z.pow_succ_r in Hb by lia.
    destruct (IHf (y / 2) ltac:(apply Z.div_pos; lia) ltac:(apply Z.div_lt_upper_bound; lia)) as [A B].
    split; [|lia]. rewrite Z.pow_add_r by lia. change (2 ^ 1) with 2. lia.
Qed.
Lemma ilogn_bound x : 0 <= x < 16777216 -> x < 2 ^ Z.of_nat (ilogn x).
Proof.
  intros Hx. unfold ilogn, ilog. destruct (x <? 0) eqn:E; [lia|].
  destruct (ilog_fuel_bound 40%nat x ltac:(lia) ltac:(change (2 ^ Z.of_nat 40) with 1099511627776; lia)) as [A B].
  rewrite Z2Nat.id by exact B. exact A.
Qed.

(* Lemma B: the unpacker's loop reads the run encoding back *)
Lemma rd_ordered_runs entries : forall runs fuel i len rest,
  (length runs < fuel)%nat -> Forall (fun n => 0 <= n) runs ->
  fold_right Z.add 0 runs = entries - i -> 0 <= i -> runs <> [] -> last_pos runs ->
  runs_okb len runs = true -> entries < 16777216 ->
  rd_ordered fuel entries i len (encode_runs entries i runs ++ rest) = Some (expand len runs, rest).
Proof.
  induction runs as [|n t IH]; intros fuel i len rest Hfu Hnn Hsum Hi Hne Hlast Hok He; [congruence|].
  destruct fuel as [|f]; [cbn in Hfu; lia|].
  cbn [rd_ordered encode_runs expand]. inversion Hnn as [|? ? Hn Hnt]; subst. cbn [fold_right] in Hsum.
  assert (0 <= fold_right Z.add 0 t) as Hts by (clear -Hnt; induction t; cbn; [lia|inversion Hnt; subst; specialize (IHt ltac:(assumption)); lia]).
  assert (0 < n + fold_right Z.add 0 t) as Hpos.
  { unfold last_pos in Hlast. clear -Hlast Hn Hnt Hts. revert n Hn Hlast. induction t as [|m u IHu]; intros n Hn Hlast; cbn in *; [lia|].
    inversion Hnt; subst. assert (0 <= fold_right Z.add 0 u) by (clear -H2; induction u; cbn; [lia|inversion H2; subst; specialize (IHu ltac:(assumption)); lia]).
    destruct u as [|k w]; [cbn in *; lia|]. specialize (IHu H2 ltac:(cbn in *; lia) m H1 Hlast). cbn in *. lia. }
  destruct (i >=? entries) eqn:Ei; [lia|].
  assoc.
  assert (n < 2 ^ Z.of_nat (ilogn (entries - i))) as Hw.
  { assert (n <= entries - i) by lia.
    pose proof (ilogn_bound (entries - i) ltac:(lia)) as G.
    lia. }
  rewrite rd_wr by lia.
  cbn [runs_okb] in Hok. apply andb_true_iff in Hok. destruct Hok as [Hok Hokt]. apply andb_true_iff in Hok. destruct Hok as [Hlen Hnum].
  destruct ((len >? 32) || (n >? entries - i) || ((n >? 0) && (Z.shiftr (n - 1) (len - 1) >? 1))) eqn:Ec; [lia|].
  destruct t as [|m u].
  - (* last run: i + n = entries *)
    cbn [encode_runs expand app fold_right] in *. destruct f as [|f']; [cbn in Hfu; lia|]. cbn [rd_ordered].
    destruct (i + n >=? entries) eqn:E2; [rewrite app_nil_r; reflexivity|lia].
  - rewrite (IH f (i + n) (len + 1) rest); [reflexivity|cbn in *; lia|exact Hnt|cbn [fold_right] in *; lia|lia|discriminate| |exact Hokt|exact He].
    unfold last_pos in *. cbn [last] in *. exact Hlast.
Qed.

Lemma wr_length w v : length (wr w v) = w.
Proof. unfold wr. generalize (Z.to_N (v mod 2 ^ Z.of_nat w)). induction w as [|w IH]; intros n; cbn; [reflexivity|f_equal; apply IH]. Qed.

Lemma runs_nonneg : forall l cur cnt, 0 <= cnt -> Forall (fun n => 0 <= n) (runs_of cur cnt l).
Proof.
  induction l as [|x r IH]; intros cur cnt Hc; cbn [runs_of]; [constructor; [lia|constructor]|].
  destruct (x >? cur).
  - constructor; [lia|]. apply Forall_app. split; [apply Forall_forall; intros y Hy; apply repeat_spec in Hy; lia|apply IH; lia].
  - apply IH. lia.
Qed.
Lemma runs_of_nonempty : forall l cur cnt, runs_of cur cnt l <> [].
Proof. induction l as [|x r IH]; intros cur cnt; cbn [runs_of]; [discriminate|]. destruct (x >? cur); [discriminate|apply IH]. Qed.
Lemma last_app_ne {A} (d : A) : forall a b, b <> [] -> last (a ++ b) d = last b d.
Proof.
  induction a as [|x a IH]; intros b Hb; [reflexivity|]. cbn [app]. specialize (IH b Hb).
  destruct (a ++ b) eqn:E; [destruct a; [cbn in E; congruence|discriminate]|]. cbn [last]. exact IH.
Qed.
Lemma runs_last_pos : forall l cur cnt, 1 <= cnt -> last_pos (runs_of cur cnt l).
Proof.
  unfold last_pos. induction l as [|x r IH]; intros cur cnt Hc; cbn [runs_of]; [cbn; lia|].
  destruct (x >? cur).
  - specialize (IH x 1 ltac:(lia)).
    pose proof (runs_of_nonempty r x 1) as Hne.
    change (cnt :: repeat 0 (Z.to_nat (x - cur - 1)) ++ runs_of x 1 r) with ((cnt :: repeat 0 (Z.to_nat (x - cur - 1))) ++ runs_of x 1 r).
    rewrite last_app_ne by exact Hne. exact IH.
  - apply IH. lia.
Qed.
Lemma runs_okb_length : forall runs len, runs_okb len runs = true -> Z.of_nat (length runs) <= Z.max 0 (33 - len).
Proof.
  induction runs as [|n t IH]; intros len H; cbn [runs_okb length] in *; [lia|].
  apply andb_true_iff in H. destruct H as [H Ht]. apply andb_true_iff in H. destruct H as [Hl _].
  specialize (IH (len + 1) Ht). lia.
Qed.

Definition quantvals_of (b : book) : Z :=
  if b_maptype b =? 1 then (if b_dim b =? 0 then 0 else quantvals1 (b_entries b) (b_dim b)) else b_entries b * b_dim b.

Definition book_ok (b : book) : Prop :=
  0 <= b_dim b < 65536 /\ 0 <= b_entries b < 16777216 /\ ilog (b_dim b) + ilog (b_entries b) <= 24 /\
  Z.of_nat (length (b_lengths b)) = b_entries b /\ Forall (fun l => 0 <= l <= 32) (b_lengths b) /\
  (* the ordered form is chosen by the packer: then the first length is at least 1 and every run is plausible *)
  (is_ordered (b_lengths b) = true ->
     1 <= hd 1 (b_lengths b) /\ runs_okb (hd 1 (b_lengths b)) (runs_of (hd 1 (b_lengths b)) 1 (tl (b_lengths b))) = true) /\
  (b_maptype b = 0 /\ b_qmin b = 0 /\ b_qdelta b = 0 /\ b_qquant b = 0 /\ b_qseq b = 0 /\ b_quantlist b = [] \/
   (b_maptype b = 1 \/ b_maptype b = 2) /\ 0 <= b_qmin b < 4294967296 /\ 0 <= b_qdelta b < 4294967296 /\
   1 <= b_qquant b <= 16 /\ (b_qseq b = 0 \/ b_qseq b = 1) /\
   Z.of_nat (length (b_quantlist b)) = quantvals_of b /\ Forall (fun q => 0 <= q < 2 ^ b_qquant b) (b_quantlist b)).

Lemma flat_map_length_const {A} (f : A -> bits) k : (forall x, length (f x) = k) -> forall l, length (flat_map f l) = (k * length l)%nat.
Proof. intros Hk. induction l as [|x r IH]; cbn; [lia|]. rewrite app_length, Hk, IH. lia. Qed.

Lemma unpack_pack_lengths entries lens rest :
  Z.of_nat (length lens) = entries -> 0 <= entries < 16777216 -> Forall (fun l => 0 <= l <= 32) lens ->
  (is_ordered lens = true -> 1 <= hd 1 lens /\ runs_okb (hd 1 lens) (runs_of (hd 1 lens) 1 (tl lens)) = true) ->
  (8 <= length rest)%nat ->
  (let? (ordered, r3) := rd 1 (pack_lengths entries lens ++ rest) in
   (if ordered =? 0 then
      let? (unused, r) := rd 1 r3 in
      if (entries * (if unused =? 1 then 1 else 5) + 7) / 8 >? bytes_left r then None
      else if unused =? 1 then rd_lengths_sparse (Z.to_nat entries) r
      else let? (l, r') := rd_list (Z.to_nat entries) 5 r in Some (map (fun x => x + 1) l, r')
    else let? (l0, r) := rd 5 r3 in rd_ordered 40 entries 0 (l0 + 1) r)) = Some (lens, rest).
Proof.
  intros Hl He Hf Hord Hrest. unfold pack_lengths.
  destruct (is_ordered lens) eqn:Eo.
  - destruct lens as [|l0 r]; [discriminate|]. specialize (Hord eq_refl). cbn [hd tl] in Hord. destruct Hord as [Hl0 Hok].
    inversion Hf as [|? ? Hl0r Hfr]; subst. assoc. rewrite rd_wr by (pow2; lia). cbn [Z.eqb Pos.eqb].
    rewrite rd_wr by (pow2; lia). replace (l0 - 1 + 1) with l0 by lia.
    cbn [is_ordered] in Eo. rewrite pack_runs_encode by exact Eo. replace (1 - 0) with 1 by lia.
    rewrite rd_ordered_runs.
    + rewrite expand_runs by (lia || assumption). reflexivity.
    + pose proof (runs_okb_length _ _ Hok). lia.
    + apply runs_nonneg. lia.
    + rewrite runs_sum. cbn [length] in *. lia.
    + lia.
    + apply runs_of_nonempty.
    + apply runs_last_pos. lia.
    + exact Hok.
    + lia.
  - assoc. rewrite rd_wr by (pow2; lia). cbn [Z.eqb Pos.eqb].
    destruct (existsb (fun l => l =? 0) lens) eqn:Ex.
    + (* sparse *)
      assoc. rewrite rd_wr by (pow2; lia). cbn [Z.eqb Pos.eqb].
      set (body := flat_map (fun l => if l =? 0 then wr 1 0 else wr 1 1 ++ wr 5 (l - 1)) lens).
      assert (length lens <= length body)%nat as Lb.
      { unfold body. clear. induction lens as [|x r IH]; cbn [flat_map length]; [lia|]. rewrite app_length. destruct (x =? 0); rewrite ?app_length, ?wr_length; lia. }
      destruct ((entries * 1 + 7) / 8 >? bytes_left (body ++ rest)) eqn:Eb.
      { exfalso. unfold bytes_left in Eb. rewrite app_length in Eb. lia. }
      replace (Z.to_nat entries) with (length lens) by lia. unfold body. apply rd_lengths_sparse_pack. exact Hf.
    + (* dense *)
      assert (Forall (fun v => 1 <= v <= 32) lens) as Hf1.
      { apply Forall_forall. intros v Hv. rewrite Forall_forall in Hf. specialize (Hf v Hv).
        destruct (v =? 0) eqn:E; [|lia]. exfalso. assert (existsb (fun l => l =? 0) lens = true) by (apply existsb_exists; exists v; split; assumption). congruence. }
      assoc. rewrite rd_wr by (pow2; lia). cbn [Z.eqb Pos.eqb].
      set (body := flat_map (fun l => wr 5 (l - 1)) lens).
      assert (length body = (5 * length lens)%nat) as Lb by (unfold body; apply flat_map_length_const; intros; apply wr_length).
      destruct ((entries * 5 + 7) / 8 >? bytes_left (body ++ rest)) eqn:Eb.
      { exfalso. unfold bytes_left in Eb. rewrite app_length in Eb. lia. }
      replace (Z.to_nat entries) with (length lens) by lia. unfold body. rewrite rd_list_map_pred by exact Hf1.
      rewrite map_map. f_equal. f_equal. rewrite <- (map_id lens) at 2. apply map_ext. intros; lia.
Qed.

Lemma unpack_pack_book b rest : book_ok b -> (8 <= length rest)%nat ->
  unpack_book (pack_book b ++ rest) = Some (b, rest).
Proof.
  intros (Hd & He & Hil & Ll & Fl & Hord & Hq) Hrest.
  unfold pack_book, unpack_book. assoc.
  rewrite rd_wr by (pow2; lia). cbn [Z.eqb Pos.eqb negb].
  rewrite rd_wr by (pow2; lia). rewrite rd_wr by (pow2; lia).
  destruct (ilog (b_dim b) + ilog (b_entries b) >? 24) eqn:Ei; [lia|].
  (* the lengths, whatever their encoding; what follows is at least the 4-bit map type and the rest *)
  set (tail := wr 4 (b_maptype b) ++
               (if (b_maptype b =? 1) || (b_maptype b =? 2)
                then wr 32 (b_qmin b) ++ wr 32 (b_qdelta b) ++ wr 4 (b_qquant b - 1) ++ wr 1 (b_qseq b) ++
                     flat_map (fun q => wr (Z.to_nat (b_qquant b)) q) (b_quantlist b)
                else []) ++ rest).
  assert (8 <= length tail)%nat as Ltail by (unfold tail; rewrite !app_length, wr_length; lia).
  pose proof (unpack_pack_lengths (b_entries b) (b_lengths b) tail Ll He Fl Hord Ltail) as HL.
  destruct (rd 1 (pack_lengths (b_entries b) (b_lengths b) ++ tail)) as [[ordered r3]|] eqn:E1; [|discriminate HL].
  rewrite HL. clear HL E1.
  unfold tail. assoc.
  destruct Hq as [(Hm & Hq1 & Hq2 & Hq3 & Hq4 & Hq5)|(Hm & Hq1 & Hq2 & Hq3 & Hq4 & Lq & Fq)].
  - rewrite Hm. rewrite rd_wr by (pow2; lia). cbn [Z.eqb orb app]. destruct b; cbn in *; subst; reflexivity.
  - rewrite rd_wr by (pow2; lia).
    assert ((b_maptype b =? 0) = false) as E0 by lia. rewrite E0.
    assert ((b_maptype b =? 1) || (b_maptype b =? 2) = true) as E12 by lia. rewrite E12. assoc.
    rewrite rd_wr by (pow2; lia). rewrite rd_wr by (pow2; lia). rewrite rd_wr by (pow2; lia). rewrite rd_wr by (pow2; lia).
    replace (b_qquant b - 1 + 1) with (b_qquant b) by lia.
    fold (quantvals_of b). 
    set (qbody := flat_map (fun q => wr (Z.to_nat (b_qquant b)) q) (b_quantlist b)).
    assert (length qbody = (Z.to_nat (b_qquant b) * length (b_quantlist b))%nat) as Lqb by (unfold qbody; apply flat_map_length_const; intros; apply wr_length).
    assert (0 <= quantvals_of b) as Hqv by lia.
    destruct ((quantvals_of b * b_qquant b + 7) / 8 >? bytes_left (qbody ++ rest)) eqn:Eb.
    { exfalso. unfold bytes_left in Eb. rewrite app_length in Eb. nia. }
    replace (Z.to_nat (quantvals_of b)) with (length (b_quantlist b)) by lia.
    unfold qbody. rewrite rd_list_wr by (rewrite Z2Nat.id by lia; exact Fq).
    destruct b; cbn in *; subst; reflexivity.
Qed.

(* ------------------------------------------------------------------ *)
(* the whole set-up header                                             *)
(* ------------------------------------------------------------------ *)
Lemma pack_book_long b tl : (8 <= length (pack_book b ++ tl))%nat.
Proof. unfold pack_book. rewrite !app_length, wr_length. lia. Qed.

Lemma rd_books_pack : forall l rest, Forall book_ok l -> (8 <= length rest)%nat ->
  rd_books (length l) (flat_map pack_book l ++ rest) = Some (l, rest).
Proof.
  induction l as [|b r IH]; intros rest Hf Hr; [reflexivity|].
  inversion Hf; subst. cbn [length rd_books flat_map]. rewrite <- app_assoc.
  rewrite unpack_pack_book; [|assumption|].
  - rewrite IH by assumption. reflexivity.
  - destruct r as [|b2 r2]; [exact Hr|]. cbn [flat_map]. rewrite <- app_assoc. apply pack_book_long.
Qed.

Definition floor_ok (books : list book) (f : Setup.floor) : Prop :=
  match f with
  | Floor0 _ _ _ _ _ _ => False                       (* the encoder has no packer for floor 0 *)
  | Floor1 pc classes mult rb posts => floor1_ok books pc classes mult rb posts
  end.

Lemma rd_floors_pack books : forall l rest, Forall (floor_ok books) l ->
  rd_floors (length l) books (flat_map pack_floor l ++ rest) = Some (l, rest).
Proof.
  induction l as [|f r IH]; intros rest Hf; [reflexivity|].
  inversion Hf as [|? ? Hok Hr]; subst. destruct f as [o ra bm ab ad bl|pc cl mu rb po]; [destruct Hok|].
  cbn [length rd_floors flat_map pack_floor]. assoc. rewrite rd_wr by (pow2; lia).
  change (1 >=? VI_FLOORB) with false. change (1 =? 0) with false. cbv iota.
  rewrite unpack_pack_floor1 by exact Hok. rewrite IH by assumption. reflexivity.
Qed.

Lemma rd_residues_pack books : forall l rest, Forall (fun r => residue_ok books r /\ r_type r < VI_RESB) l ->
  rd_residues (length l) books (flat_map pack_residue l ++ rest) = Some (l, rest).
Proof.
  induction l as [|x r IH]; intros rest Hf; [reflexivity|].
  inversion Hf as [|? ? [Hok Ht] Hr]; subst. cbn [length rd_residues flat_map]. unfold pack_residue at 1. assoc.
  assert (0 <= r_type x) as Ht0 by (destruct Hok as [Hwf _]; destruct Hwf as [H0 _]; exact H0).
  rewrite rd_wr by (pow2; unfold VI_RESB in Ht; lia).
  destruct (r_type x >=? VI_RESB) eqn:E; [lia|].
  rewrite unpack_pack_residue by exact Hok. rewrite IH by assumption. reflexivity.
Qed.

Lemma rd_maps_pack channels floors residues : forall l rest, Forall (mapping_ok channels floors residues) l ->
  rd_maps (length l) channels floors residues (flat_map (pack_mapping channels) l ++ rest) = Some (l, rest).
Proof.
  induction l as [|m r IH]; intros rest Hf; [reflexivity|].
  inversion Hf; subst. cbn [length rd_maps flat_map]. unfold pack_mapping at 1. assoc. rewrite rd_wr by (pow2; lia).
  change (0 >=? VI_MAPB) with false. cbv iota.
  rewrite unpack_pack_mapping by assumption. rewrite IH by assumption. reflexivity.
Qed.

Definition setup_ok (channels : Z) (s : setup) : Prop :=
  (1 <= length (s_books s) <= 256)%nat /\ Forall book_ok (s_books s) /\
  (1 <= length (s_floors s) <= 64)%nat /\ Forall (floor_ok (s_books s)) (s_floors s) /\
  (1 <= length (s_residues s) <= 64)%nat /\ Forall (fun r => residue_ok (s_books s) r /\ r_type r < VI_RESB) (s_residues s) /\
  (1 <= length (s_maps s) <= 64)%nat /\
  Forall (mapping_ok channels (Z.of_nat (length (s_floors s))) (Z.of_nat (length (s_residues s)))) (s_maps s) /\
  (1 <= length (s_modes s) <= 64)%nat /\ Forall (mode_ok (Z.of_nat (length (s_maps s)))) (s_modes s).

(* what the parser reads from the packed set-up is the set-up *)
Theorem unpack_pack_setup channels s pad : setup_ok channels s -> unpack_setup channels (pack_setup channels s ++ pad) = Some s.
Proof.
  intros (Lb & Fb & Lf & Ff & Lr & Fr & Lm & Fm & Lmo & Fmo).
  unfold pack_setup, unpack_setup. assoc.
  rewrite rd_wr by (pow2; lia).
  replace (Z.to_nat (Z.of_nat (length (s_books s)) - 1 + 1)) with (length (s_books s)) by lia.
  rewrite rd_books_pack by (try assumption; rewrite !app_length, !wr_length; lia).
  rewrite rd_wr by (pow2; lia). change (Z.to_nat (0 + 1)) with 1%nat. cbn [rd_times].
  rewrite rd_wr by (pow2; lia). change (0 >=? VI_TIMEB) with false. cbv iota.
  rewrite rd_wr by (pow2; lia).
  replace (Z.to_nat (Z.of_nat (length (s_floors s)) - 1 + 1)) with (length (s_floors s)) by lia.
  rewrite rd_floors_pack by assumption.
  rewrite rd_wr by (pow2; lia).
  replace (Z.to_nat (Z.of_nat (length (s_residues s)) - 1 + 1)) with (length (s_residues s)) by lia.
  rewrite rd_residues_pack by assumption.
  rewrite rd_wr by (pow2; lia).
  replace (Z.to_nat (Z.of_nat (length (s_maps s)) - 1 + 1)) with (length (s_maps s)) by lia.
  rewrite rd_maps_pack by assumption.
  rewrite rd_wr by (pow2; lia).
  replace (Z.to_nat (Z.of_nat (length (s_modes s)) - 1 + 1)) with (length (s_modes s)) by lia.
  rewrite rd_modes_pack by (try assumption; lia).
  rewrite rd_wr by (pow2; lia). cbn [Z.eqb Pos.eqb]. destruct s; reflexivity.
Qed.

(* identification header *)
Definition ident_ok (i : ident) : Prop :=
  1 <= i_channels i <= 255 /\ 1 <= i_rate i < 4294967296 /\
  -2147483648 <= i_upper i < 2147483648 /\ -2147483648 <= i_nominal i < 2147483648 /\ -2147483648 <= i_lower i < 2147483648 /\
  (exists a, 6 <= a <= 13 /\ i_bs0 i = 2 ^ a) /\ (exists b, 6 <= b <= 13 /\ i_bs1 i = 2 ^ b) /\ i_bs0 i <= i_bs1 i.

Lemma ilog_pow2m1 a : 6 <= a <= 13 -> ilog (2 ^ a - 1) = a.
Proof.
  intros Ha. assert (a = 6 \/ a = 7 \/ a = 8 \/ a = 9 \/ a = 10 \/ a = 11 \/ a = 12 \/ a = 13) as H by lia.
  destruct H as [->|[->|[->|[->|[->|[->|[->| ->]]]]]]]; reflexivity.
Qed.
Lemma wr_s32 v rest : -2147483648 <= v < 2147483648 -> rd 32 (wr 32 v ++ rest) = Some (v mod 4294967296, rest).
Proof. intros _. rewrite rd_wr_mod. reflexivity. Qed.
Lemma s32_mod v : -2147483648 <= v < 2147483648 -> s32 (v mod 4294967296) = v.
Proof. intros Hv. unfold s32. destruct (v mod 4294967296 <? 2147483648) eqn:E; lia. Qed.

Theorem unpack_pack_ident i pad : ident_ok i -> unpack_ident (pack_ident i ++ pad) = (HOk, Some i).
Proof.
  intros (Hc & Hr & Hu & Hn & Hl & (a & Ha & Ea) & (b & Hb & Eb) & Hle).
  unfold pack_ident, unpack_ident. assoc.
  rewrite rd_wr by (pow2; lia). cbn [Z.eqb negb].
  rewrite rd_wr by (pow2; lia). rewrite rd_wr by (pow2; lia).
  rewrite wr_s32 by exact Hu. rewrite wr_s32 by exact Hn. rewrite wr_s32 by exact Hl.
  rewrite Ea, Eb, !ilog_pow2m1 by assumption.
  rewrite rd_wr by (pow2; lia). rewrite rd_wr by (pow2; lia). rewrite rd_wr by (pow2; lia).
  rewrite !s32_mod by assumption.
  assert (2 ^ a <= 2 ^ b) as Hab by lia.
  assert (64 <= 2 ^ a) by (change 64 with (2 ^ 6); apply Z.pow_le_mono_r; lia).
  assert (2 ^ b <= 8192) by (change 8192 with (2 ^ 13); apply Z.pow_le_mono_r; lia).
  destruct ((i_rate i <? 1) || (i_channels i <? 1) || (2 ^ a <? 64) || (2 ^ b <? 2 ^ a) || (2 ^ b >? 8192) || negb (1 =? 1)) eqn:E; [cbn [Z.eqb Pos.eqb negb] in E; lia|].
  rewrite <- Ea, <- Eb. destruct i; reflexivity.
Qed.
