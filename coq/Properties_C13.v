(* C13  Clear functions release everything on success and on every error path.
   Proved (Ledger.v): the data source's close callback runs exactly once per
   source the library came to own, at ov_clear, never after a failed open, and
   clearing twice is clearing once - for every sequence of open / test / use /
   clear calls.  The heap itself (which allocation is released by which clear,
   on which error exit) is C-level state that the models do not contain: it is
   decided per run with LeakSanitizer after each of several thousand scenarios
   (every encoder template family, rejected set-ups, header prefixes and
   corruptions, failing opens and seeks). *)
From VV Require Import Ledger Ledger_lemmas.

Theorem C13_close_exactly_once_per_owned_source :
  forall ops, h_closes (hrun ops) = owned Zeroed ops.
Proof. exact closes_count. Qed.
Print Assumptions C13_close_exactly_once_per_owned_source.

Theorem C13_clear_idempotent : forall h, hstep (hstep h Clear) Clear = hstep h Clear.
Proof. exact clear_idempotent. Qed.
Print Assumptions C13_clear_idempotent.

Theorem C13_failed_open_never_closes :
  forall h, hinv h -> h_state h = Zeroed -> h_closes (hstep (hstep h OpenFail) Clear) = h_closes h.
Proof. exact failed_open_then_clear_no_close. Qed.
Print Assumptions C13_failed_open_never_closes.

Theorem C13_closes_only_at_clear : forall h o, o <> Clear -> h_closes (hstep h o) = h_closes h.
Proof. exact hstep_no_close_unless_clear. Qed.
Print Assumptions C13_closes_only_at_clear.

Example C13_nonvacuous :
  h_closes (hrun [OpenOk; Use; Clear; Clear; OpenFail; Clear; TestOk; TestOpenOk; Clear]) = 2%nat.
Proof. vm_compute. reflexivity. Qed.
