
val xorb : bool -> bool -> bool

val negb : bool -> bool

type nat =
| O
| S of nat

type ('a, 'b) sum =
| Inl of 'a
| Inr of 'b

val fst : ('a1 * 'a2) -> 'a1

val snd : ('a1 * 'a2) -> 'a2

val length : 'a1 list -> nat

val app : 'a1 list -> 'a1 list -> 'a1 list

type comparison =
| Eq
| Lt
| Gt

val compOpp : comparison -> comparison

val add : nat -> nat -> nat

val sub : nat -> nat -> nat

module Nat :
 sig
  val eqb : nat -> nat -> bool

  val leb : nat -> nat -> bool
 end

val tl : 'a1 list -> 'a1 list

val nth : nat -> 'a1 list -> 'a1 -> 'a1

val last : 'a1 list -> 'a1 -> 'a1

val rev : 'a1 list -> 'a1 list

val map : ('a1 -> 'a2) -> 'a1 list -> 'a2 list

val flat_map : ('a1 -> 'a2 list) -> 'a1 list -> 'a2 list

val fold_left : ('a1 -> 'a2 -> 'a1) -> 'a2 list -> 'a1 -> 'a1

val existsb : ('a1 -> bool) -> 'a1 list -> bool

val forallb : ('a1 -> bool) -> 'a1 list -> bool

val filter : ('a1 -> bool) -> 'a1 list -> 'a1 list

val combine : 'a1 list -> 'a2 list -> ('a1 * 'a2) list

val firstn : nat -> 'a1 list -> 'a1 list

val skipn : nat -> 'a1 list -> 'a1 list

val seq : nat -> nat -> nat list

val repeat : 'a1 -> nat -> 'a1 list

type positive =
| XI of positive
| XO of positive
| XH

type n =
| N0
| Npos of positive

type z =
| Z0
| Zpos of positive
| Zneg of positive

module Pos :
 sig
  type mask =
  | IsNul
  | IsPos of positive
  | IsNeg
 end

module Coq_Pos :
 sig
  val succ : positive -> positive

  val add : positive -> positive -> positive

  val add_carry : positive -> positive -> positive

  val pred_double : positive -> positive

  val pred_N : positive -> n

  type mask = Pos.mask =
  | IsNul
  | IsPos of positive
  | IsNeg

  val succ_double_mask : mask -> mask

  val double_mask : mask -> mask

  val double_pred_mask : positive -> mask

  val sub_mask : positive -> positive -> mask

  val sub_mask_carry : positive -> positive -> mask

  val mul : positive -> positive -> positive

  val iter : ('a1 -> 'a1) -> 'a1 -> positive -> 'a1

  val div2 : positive -> positive

  val div2_up : positive -> positive

  val size : positive -> positive

  val compare_cont : comparison -> positive -> positive -> comparison

  val compare : positive -> positive -> comparison

  val eqb : positive -> positive -> bool

  val coq_Nsucc_double : n -> n

  val coq_Ndouble : n -> n

  val coq_lor : positive -> positive -> positive

  val coq_land : positive -> positive -> n

  val ldiff : positive -> positive -> n

  val testbit : positive -> n -> bool

  val iter_op : ('a1 -> 'a1 -> 'a1) -> positive -> 'a1 -> 'a1

  val to_nat : positive -> nat

  val of_succ_nat : nat -> positive
 end

module N :
 sig
  val succ_double : n -> n

  val double : n -> n

  val succ_pos : n -> positive

  val add : n -> n -> n

  val sub : n -> n -> n

  val mul : n -> n -> n

  val compare : n -> n -> comparison

  val eqb : n -> n -> bool

  val leb : n -> n -> bool

  val ltb : n -> n -> bool

  val div2 : n -> n

  val even : n -> bool

  val odd : n -> bool

  val pos_div_eucl : positive -> n -> n * n

  val div_eucl : n -> n -> n * n

  val div : n -> n -> n

  val modulo : n -> n -> n

  val coq_lor : n -> n -> n

  val coq_land : n -> n -> n

  val ldiff : n -> n -> n

  val testbit : n -> n -> bool

  val to_nat : n -> nat

  val of_nat : nat -> n

  val b2n : bool -> n
 end

module Z :
 sig
  val double : z -> z

  val succ_double : z -> z

  val pred_double : z -> z

  val pos_sub : positive -> positive -> z

  val add : z -> z -> z

  val opp : z -> z

  val sub : z -> z -> z

  val mul : z -> z -> z

  val pow_pos : z -> positive -> z

  val pow : z -> z -> z

  val compare : z -> z -> comparison

  val leb : z -> z -> bool

  val ltb : z -> z -> bool

  val geb : z -> z -> bool

  val gtb : z -> z -> bool

  val eqb : z -> z -> bool

  val max : z -> z -> z

  val min : z -> z -> z

  val abs : z -> z

  val to_nat : z -> nat

  val to_N : z -> n

  val of_nat : nat -> z

  val of_N : n -> z

  val pos_div_eucl : positive -> z -> z * z

  val div_eucl : z -> z -> z * z

  val div : z -> z -> z

  val modulo : z -> z -> z

  val quotrem : z -> z -> z * z

  val quot : z -> z -> z

  val even : z -> bool

  val odd : z -> bool

  val div2 : z -> z

  val log2 : z -> z

  val testbit : z -> z -> bool

  val shiftl : z -> z -> z

  val shiftr : z -> z -> z

  val coq_lor : z -> z -> z

  val coq_land : z -> z -> z
 end

val general_vendor_string : n list

val encode_vendor_string : n list

val vIF_POSIT : z

val vI_TIMEB : z

val vI_FLOORB : z

val vI_RESB : z

val vI_MAPB : z

val setup_templates :
  (((((((z * z) * z) * z) * z list) * z list) * z list) * z list) list

val floor1_fromdB_bits : z list

type bits = bool list

val bits_of : nat -> n -> bits

val val_of : bits -> n

type reader = bits option

val bread : nat -> reader -> n option * reader

val blook : nat -> reader -> n option

val badv : nat -> reader -> reader

val byte_bits : n -> bits

val bits_of_bytes : n list -> bits

val bytes_of_bits_fuel : nat -> bits -> n list

val bytes_of_bits : bits -> n list

val le32 : n -> n list

val read32 : n list -> (n * n list) option

val to_int32 : n -> z

val take : nat -> 'a1 list -> ('a1 list * 'a1 list) option

val list_eqb : n list -> n list -> bool

type cstr = n list

val toupper : n -> n

type cmp =
| Match
| Mismatch
| OutOfBuffer

val tagcompare : n list -> n list -> cmp

val cbuf : cstr -> n list

val fulltag : n list -> n list

val matches : n list -> cstr -> bool

val query_from : n -> cstr list -> n list -> nat -> (n * n) option

val query : cstr list -> n list -> nat -> (n * n) option

val query_count : cstr list -> n list -> nat

val query_value : cstr list -> n list -> nat -> cstr option

val comment_add : cstr list -> cstr -> cstr list

val comment_add_tag : cstr list -> n list -> n list -> cstr list

val vorbis_magic : n list

val pack_entries : cstr list -> n list

val pack_comment : cstr -> cstr list -> n list

type verdict =
| ENotVorbis
| EBadHeader

val unpack_entries : z -> nat -> n list -> (cstr list * n list) option

val unpack_comment_body : z -> n list -> (cstr * cstr list) option

val headerin_comment : n list -> (verdict, cstr * cstr list) sum

type cfg = { bs0 : z; bs1 : z; hs : z }

val bsz : cfg -> bool -> z

type enc = { e_centerW : z; e_cur : z; e_storage : z; e_eof : z; e_gran : 
             z; e_lW : bool; e_W : bool; e_nW : bool; e_seq : z; e_pre : 
             bool }

val enc_init : cfg -> enc

val enc_buffer : enc -> z -> enc

val enc_wrote : cfg -> enc -> z -> z * enc

type eblock = { b_lW : bool; b_W : bool; b_nW : bool; b_seq : z; b_gran : 
                z; b_eof : bool }

val enc_blockout : cfg -> enc -> z -> enc * eblock option

val enc_drain :
  cfg -> nat -> enc -> z list -> eblock list -> ((enc * z list) * eblock
  list) option

val drain_fuel : enc -> nat

val enc_feed :
  cfg -> enc -> z list -> z list -> eblock list -> ((enc * z list) * eblock
  list) option

val enc_run : cfg -> z list -> z list -> (enc * eblock list) option

type dec = { d_lW : bool; d_W : bool; d_centerW : z; d_cur : z; d_ret : 
             z; d_gran : z; d_seq : z; d_count : z; d_eof : bool;
             d_fresh : bool }

type dblock = { k_W : bool; k_gran : z; k_seq : z; k_eof : bool; k_pcm : bool }

val dec_restart : cfg -> dec -> dec

val dec_init : cfg -> dec

val dec_pcmpart : cfg -> dec -> dblock -> z -> (z * z) * z

val trim_first : z -> z -> dblock -> z -> z -> z * z

val trim_tracked : z -> z -> dblock -> z -> z -> z * z

val dec_granule : z -> z -> z -> z -> dblock -> z -> z -> (z * z) * z

val dec_blockin : cfg -> dec -> dblock -> z * dec

val dec_pcmout : dec -> z

val dec_read : dec -> z -> z * dec

val dec_step : cfg -> (dec * z) -> dblock -> dec * z

val dec_run : cfg -> dblock list -> dec * z

val to_dblock : eblock -> dblock

val dec_lapout : cfg -> dec -> z * dec

type sexp =
| SInit of z
| SPcm of z * z
| SLap of sexp * z * sexp * z * z

val half : cfg -> bool -> z

val blockin_buf : cfg -> dec -> dblock -> z -> (z -> sexp) -> z -> sexp

val spec_out : z -> z -> bool -> bool -> z -> z -> z -> sexp

val pkts : sexp -> z list

val lapout_buf : cfg -> dec -> (z -> sexp) -> z -> sexp

type f32 =
| Finite of z * z
| PInf
| NInf
| NaN

val decode_b32 : z -> f32

val rne : z -> z -> z

val dy_ge : z -> z -> z -> bool

val iNT_MIN : z

val iNT_MAX : z

val ftoi : z -> f32 -> z

val clip : z -> z -> z -> z

val pack_sample : z -> bool -> bool -> f32 -> z list

val frame_at : f32 list list -> nat -> f32 list

val pack_frames : z -> bool -> bool -> f32 list list -> nat -> z list

val cdiv : z -> z -> z

val read_frames : z -> z -> z -> z -> z * z

type pkt = { pk_W : bool option; pk_gran : z; pk_eos : bool }

type page = { pg_off : z; pg_len : z; pg_serial : z; pg_gran : z;
              pg_bos : bool; pg_eos : bool; pg_cont : bool; pg_pkts : 
              pkt list }

type linfo = { li_serial : z; li_bs0 : z; li_bs1 : z; li_off : z;
               li_dataoff : z; li_end : z; li_init : z; li_len : z }

val oPENED : z

val sTREAMSET : z

val iNITSET : z

val oV_EOF_ : z

val oV_EINVAL_ : z

val oUT_OF_FUEL : z

val blocksize : linfo -> bool -> z

val init_scan_pkts : linfo -> pkt list -> z -> z option -> z * z option

val init_scan : linfo -> page list -> z -> z option -> z

val initial_pcmoffset : linfo -> page list -> z

val last_gran : z -> page list -> z -> z

type vfs = { v_pages : page list; v_links : linfo list; v_rem : page list;
             v_rs : z; v_link : z; v_serial : z; v_q : pkt list;
             v_fresh : bool; v_pno : z; v_pcm : z; v_dec : dec; v_hs : 
             z }

val nth_link : vfs -> z -> linfo

val cur_link : vfs -> linfo

val cfg_of : linfo -> z -> cfg

val cur_cfg : vfs -> cfg

val sum_len : linfo list -> nat -> z

val base_of : vfs -> z -> z

val pcm_total : vfs -> z

val file_end : vfs -> z

val raw_tell : vfs -> z

val find_link : linfo list -> z -> z -> z option

val set_q : vfs -> pkt list -> bool -> z -> vfs

val set_rem : vfs -> page list -> vfs

val set_rs : vfs -> z -> vfs

val set_pcm : vfs -> z -> vfs

val set_dec : vfs -> dec -> vfs

val set_link : vfs -> z -> z -> vfs

val set_hs : vfs -> z -> vfs

val os_reset : vfs -> vfs

val os_pagein : vfs -> page -> vfs

val decode_clear : vfs -> vfs

val make_ready : vfs -> vfs

val process_audio : vfs -> pkt -> bool -> vfs

val fetch : nat -> vfs -> z * vfs

val pkt_count : page list -> nat

val fetch_fuel : vfs -> nat

val read_float : nat -> vfs -> z -> (z * z) * vfs

val read_fuel : vfs -> nat

val pages_from : page list -> z -> page list

type rscan = { r_last : z; r_acc : z; r_lastflag : bool; r_firstflag : 
               bool; r_wq : pkt list; r_wfresh : bool }

val work_pagein : rscan -> page -> bool -> bool -> rscan

val raw_scan : nat -> vfs -> rscan -> vfs

val raw_seek : vfs -> z -> z * vfs

val link_of_pos : linfo list -> z -> z -> nat -> z * z

val best_page :
  page list -> linfo -> z -> page list option -> page list option

val drop_to_gran : pkt list -> z -> ((pkt list * z) * z) option

val rewind_page : page list -> linfo -> z option

val pages_before : page list -> z -> page list -> page list

val enter_link : vfs -> z -> vfs

val pcm_seek_page : vfs -> z -> z * vfs

val seek_discard : nat -> vfs -> z -> z -> vfs

val seek_skip : nat -> vfs -> z -> vfs

val pcm_seek : vfs -> z -> z * vfs

val halfrate : vfs -> bool -> z * vfs

val opened : page list -> linfo list -> z -> vfs

val split_links :
  page list -> page list -> page list list -> bool -> page list list

val is_header : pkt -> bool

val skip_headers : page list -> z -> nat -> page list

val mk_link : page list -> ((z * z) * z) -> z -> z option -> linfo

val mk_links : page list list -> ((z * z) * z) list -> z -> linfo list

val open_file : page list -> ((z * z) * z) list -> z -> vfs

type bparams = { p_min : z; p_max : z; p_spl : z; p_res : z; p_fill : z }

val nblobs : z

val size_at : z list -> z -> z

val cdiv8 : z -> z

val up_loop : nat -> z list -> z -> z -> z -> z -> z * z

val down_loop : nat -> z list -> z -> z -> z -> z -> z -> z * z

val stage1 : bparams -> z -> z list -> z -> z -> z -> z * z

val stage2 : bparams -> z -> z list -> z -> z -> z -> z * z

val stage3 : bparams -> z -> z list -> z -> z -> z -> z -> z * z

val update : bparams -> z -> z -> z -> z -> z

val addblock : bparams -> z -> z list -> bool -> z -> (z * z) * z

type d64 =
| DFin of z * z
| DPInf
| DNInf
| DNaN

val decode_b64 : z -> d64

val fin_lt : z -> z -> z -> z -> bool

val dlt : d64 -> d64 -> bool

val dge : d64 -> d64 -> bool

type template = { t_coupling : z; t_smin : z; t_smax : z; t_mappings : 
                  z; t_qmap : d64 list; t_rmap : d64 list; t_short : 
                  z list; t_long : z list }

val mk_template :
  (((((((z * z) * z) * z) * z list) * z list) * z list) * z list) -> template

val dnth : d64 list -> z -> d64

val find_j : nat -> d64 list -> d64 -> z -> z -> z

type bumpfn = z -> z -> bool

val pick_is : bool -> bumpfn -> z -> z -> z -> z

val lookup :
  bumpfn -> template list -> z -> z -> z -> d64 -> bool -> (z * z) option

val oV_EINVAL_0 : z

val oV_EIMPL_ : z

val setup_init : template list -> z -> (z * z) option -> z * (z * z) option

val ctl_gate : bool -> z -> z option

val dle : d64 -> d64 -> bool

val dzero : d64

val done0 : d64

type sst = { s_tmpl : (z * z) option; s_ch : z; s_rate : z; s_managed : 
             z; s_coupling : z; s_stone : bool; s_min : z; s_av : z;
             s_max : z; s_res : z; s_blocks : (z * z) option; s_cleared : 
             bool }

val s_init : sst

val s_clear : sst

val nominal_eff : z -> z -> z -> z option

type sop =
| OVbr of z * z * d64
| OManaged of z * z * z * z * z * d64
| OInit
| OneVbr of z * z * d64
| OneManaged of z * z * z * z * z * d64
| OCoupling of z * d64
| OManage2Set of bool * z * z * z * z * d64 * z * d64
| OManage2Get of bool
| OCtlOther of z

val with_tmpl : sst -> (z * z) -> z -> z -> sst

val step_vbr : bumpfn -> template list -> sst -> z -> z -> d64 -> sst * z

val step_managed :
  bumpfn -> template list -> sst -> z -> z -> z -> z -> z -> d64 -> sst * z

val step_init : template list -> sst -> sst * z

val one_step : (sst * z) -> template list -> sst * z

val known_ctl : z -> bool

val sstep : bumpfn -> template list -> sst -> sop -> sst * z

val zbits : z -> z

val round_gen : z -> z -> z -> z -> z -> f32

val r32 : z -> z -> f32

val r64 : z -> z -> f32

val fadd_gen : (z -> z -> f32) -> f32 -> f32 -> f32

val fneg : f32 -> f32

val fmul_gen : (z -> z -> f32) -> f32 -> f32 -> f32

val fadd32 : f32 -> f32 -> f32

val fsub32 : f32 -> f32 -> f32

val fmul32 : f32 -> f32 -> f32

val fadd64 : f32 -> f32 -> f32

val fmul64 : f32 -> f32 -> f32

val to32 : f32 -> f32

val fzero : f32

val of_int : z -> f32

val fpos : f32 -> bool

val encode_b32 : f32 -> z

val float32_unpack : z -> f32

val rd_acc : nat -> bits -> z -> z -> (z * bits) option

val rd : nat -> bits -> (z * bits) option

val ilog_fuel : nat -> z -> z

val ilog : z -> z

val ilogn : z -> nat

val bytes_left : bits -> z

type book = { b_dim : z; b_entries : z; b_lengths : z list; b_maptype : 
              z; b_qmin : z; b_qdelta : z; b_qquant : z; b_qseq : z;
              b_quantlist : z list }

val pow_le : z -> z -> z -> bool

val iroot_fuel : nat -> z -> z -> z -> z -> z

val quantvals1 : z -> z -> z

val rd_list : nat -> nat -> bits -> (z list * bits) option

val rd_lengths_sparse : nat -> bits -> (z list * bits) option

val rd_ordered : nat -> z -> z -> z -> bits -> (z list * bits) option

val unpack_book : bits -> (book * bits) option

type fclass = { c_dim : z; c_subs : z; c_book : z; c_subbook : z list }

type floor =
| Floor0 of z * z * z * z * z * z list
| Floor1 of z list * fclass list * z * z * z list

val bk : book list -> z -> book

val nbooks : book list -> z

val rd_floor0_books : nat -> book list -> bits -> (z list * bits) option

val unpack_floor0 : book list -> bits -> (floor * bits) option

val rd_subbooks : nat -> z -> bits -> (z list * bits) option

val rd_classes : nat -> z -> bits -> (fclass list * bits) option

val cls : fclass list -> z -> fclass

val rd_posts :
  z list -> fclass list -> nat -> z -> bits -> (z list * bits) option

val zmax_list : z list -> z -> z

val zmem : z -> z list -> bool

val nodupb : z list -> bool

val unpack_floor1 : book list -> bits -> (floor * bits) option

type residue = { r_type : z; r_begin : z; r_end : z; r_grouping : z;
                 r_partitions : z; r_groupbook : z; r_secondstages : 
                 z list; r_booklist : z list; r_partvals : z }

val icount_fuel : nat -> z -> z

val icount : z -> z

val rd_cascade : nat -> bits -> (z list * bits) option

val partvals_fuel : nat -> z -> z -> z -> z -> z option

val unpack_residue : z -> book list -> bits -> (residue * bits) option

type mapping = { m_submaps : z; m_coupling : (z * z) list; m_mux : z list;
                 m_floor : z list; m_residue : z list }

type mode = { md_blockflag : z; md_mapping : z }

val rd_coupling : nat -> z -> bits -> ((z * z) list * bits) option

val rd_mux : nat -> z -> bits -> (z list * bits) option

val rd_submaps : nat -> z -> z -> bits -> ((z * z) list * bits) option

val unpack_mapping : z -> z -> z -> bits -> (mapping * bits) option

type setup = { s_books : book list; s_floors : floor list;
               s_residues : residue list; s_maps : mapping list;
               s_modes : mode list }

val rd_books : nat -> bits -> (book list * bits) option

val rd_times : nat -> bits -> (unit * bits) option

val rd_floors : nat -> book list -> bits -> (floor list * bits) option

val rd_residues : nat -> book list -> bits -> (residue list * bits) option

val rd_maps : nat -> z -> z -> z -> bits -> (mapping list * bits) option

val rd_modes : nat -> z -> bits -> (mode list * bits) option

val unpack_setup : z -> bits -> setup option

type ident = { i_channels : z; i_rate : z; i_upper : z; i_nominal : z;
               i_lower : z; i_bs0 : z; i_bs1 : z }

val s32 : z -> z

type hverdict =
| HOk
| HNotVorbis
| HBadHeader
| HVersion
| HFault

val unpack_ident : bits -> hverdict * ident option

type hstate = { h_cleared : bool; h_ident : ident option; h_comment : 
                bool; h_setup : setup option }

val h_init : hstate

val vorbis_str : n list

val headerin : hstate -> bool -> n list -> hverdict * hstate

val u32 : z -> z

val mget : z list -> z -> z

val lset : 'a1 list -> nat -> 'a1 -> 'a1 list

val mset : z list -> z -> z -> z list

val mw_up : nat -> z list -> z -> z list

val mw_prune : nat -> z list -> z -> z -> z list

val mw_assign : z list -> z -> z list -> (((z * z) * z) list * z list) option

val under_populated : nat -> z list -> z -> bool

val make_words : z list -> ((z * z) * z) list option

type htree =
| HEmpty
| HLeaf of z
| HNode of htree * htree

val cw_bits : nat -> z -> bool list

val hinsert : htree -> bool list -> z -> htree

val build_tree : ((z * z) * z) list -> htree

val hwalk : htree -> bits -> (z * bits) option

type dbook = { d_src : book; d_used : z; d_single : bool; d_first : z;
               d_tree : htree; d_qv : z; d_min : f32; d_delta : f32 }

val init_book : book -> dbook option

val book_decode : dbook -> bits -> z option * bits

val unq : dbook -> nat -> z list -> f32 -> f32 list

val lattice_idx : nat -> z -> z -> z -> z list

val book_vector : dbook -> z -> f32 list

val empty_book : book

val empty_dbook : dbook

type dsetup = { ds_ident : ident; ds_setup : setup; ds_books : dbook list }

val init_books : book list -> dbook list option

val synthesis_init : ident -> setup -> dsetup option

val dbk : dsetup -> z -> dbook

type prd = bits * bool

val rdm : nat -> prd -> z * prd

val bdec : dbook -> prd -> z option * prd

val zn : z list -> z -> z

val f1_quantq : z -> z

val neigh_scan : z list -> z -> z -> z -> z -> z -> z -> z * z

val neighbors : z list -> z -> z * z

val render_point : z -> z -> z -> z -> z -> z

val f1_sub : dsetup -> fclass -> nat -> z -> prd -> z list option * prd

val f1_parts : dsetup -> fclass list -> z list -> prd -> z list option * prd

val f1_unwrap : nat -> z list -> z -> z -> z list -> z list

val floor1_inverse1 :
  dsetup -> z list -> fclass list -> z -> z -> z list -> prd -> z list
  option * prd

val line_ys : nat -> z -> z -> z -> z -> z -> z -> z list

val render_line : z -> z -> z -> z -> z -> z list

val clamp255 : z -> z

val ins_by : z list -> z -> z list -> z list

val forward_index : z list -> z list

val f1_lines :
  z -> z list -> z list -> z -> z list -> z -> z -> (z list * z) * z

val floor1_curve : z -> z -> z -> z list -> z list -> z list

val decodev_set : nat -> dbook -> z -> z -> prd -> f32 list option * prd

val lsp_accumulate : nat -> nat -> f32 list -> f32 -> f32 list

type memo =
| MNone
| MFloor1 of z list
| MFloor0 of z * f32 list

val floor0_inverse1 : dsetup -> z -> z -> z list -> prd -> memo * prd

val floor_inverse1 : dsetup -> floor -> prd -> memo * prd

val add_at : nat -> f32 list -> f32 list -> f32 list

val decodev_add :
  nat -> dbook -> f32 list -> z -> z -> z -> prd -> (f32 list * prd) * bool

val decode_n : nat -> dbook -> prd -> z list option * prd

val decodevs_add :
  dbook -> f32 list -> z -> z -> prd -> (f32 list * prd) * bool

val vv_scatter :
  f32 list list -> z -> f32 list -> z -> z -> z -> (f32 list list * z) * z

val decodevv_add :
  nat -> dbook -> f32 list list -> z -> z -> z -> z -> prd -> (f32 list
  list * prd) * bool

val stage_index : z list -> z -> z -> z -> z option

val res_stages : residue -> z

val pw_digit : residue -> z -> z -> z -> z

type rstate = { rs_vecs : f32 list list; rs_bits : prd; rs_pw : z list list;
                rs_go : bool }

val r01_chan :
  dsetup -> residue -> z -> z -> z -> z -> z -> nat -> nat -> rstate -> rstate

val r01_k :
  dsetup -> residue -> z -> z -> z -> nat -> z -> z -> z -> nat -> rstate ->
  rstate * z

val r01_fetch : dsetup -> residue -> nat -> nat -> rstate -> rstate

val r01_parts :
  nat -> dsetup -> residue -> z -> z -> z -> nat -> z -> z -> rstate -> rstate

val r01_stages :
  dsetup -> residue -> z -> z -> nat -> z -> nat -> rstate -> rstate

val res01_inverse :
  dsetup -> residue -> z -> f32 list list -> prd -> f32 list list * prd

val r2_k :
  dsetup -> residue -> z -> z -> z -> z -> z -> z -> z -> nat -> rstate ->
  rstate * z

val r2_parts :
  nat -> dsetup -> residue -> z -> z -> z -> z -> z -> z -> rstate -> rstate

val r2_stages :
  dsetup -> residue -> z -> z -> z -> z -> nat -> rstate -> rstate

val res2_inverse :
  dsetup -> residue -> z -> f32 list list -> bool list -> prd -> f32 list
  list * prd

val floors_in : dsetup -> mapping -> z list -> prd -> memo list * prd

val is_used : memo -> bool

val bnth : bool list -> z -> bool

val couple_nonzero : (z * z) list -> bool list -> bool list

val chans_of : z list -> z -> nat list

val put_back : nat list -> 'a1 list -> 'a1 list -> 'a1 list

val residues_in :
  dsetup -> mapping -> z -> bool list -> z -> nat -> f32 list list -> prd ->
  f32 list list * prd

val couple_one : f32 -> f32 -> f32 * f32

val uncouple : (z * z) list -> f32 list list -> f32 list list

val fromdB : z -> f32

type chan_out =
| CSpectrum of f32 list
| CFloor0 of z * f32 list * f32 list

val apply_floor :
  dsetup -> mapping -> z -> nat -> memo -> f32 list -> chan_out

type pverdict =
| POk
| PNotAudio
| PBadPacket

type pout = { po_verdict : pverdict; po_mode : z; po_W : z; po_lW : z;
              po_nW : z; po_left : z; po_chans : chan_out list }

val synthesis : dsetup -> n list -> pout

val wr : nat -> z -> bits

val ordered_from : z -> z list -> bool

val is_ordered : z list -> bool

val pack_ordered_runs : z -> z list -> z -> z -> z -> bits

val pack_lengths : z -> z list -> bits

val pack_book : book -> bits

val pack_class : fclass -> bits

val pack_floor1_body : z list -> fclass list -> z -> z -> z list -> bits

val pack_floor : floor -> bits

val pack_cascade : z -> bits

val pack_residue_body : residue -> bits

val pack_residue : residue -> bits

val pack_mapping_body : z -> mapping -> bits

val pack_mapping : z -> mapping -> bits

val pack_mode : mode -> bits

val pack_setup : z -> setup -> bits

val pack_ident : ident -> bits

val head : n -> n list

val setup_packet : z -> setup -> n list

val ident_packet : ident -> n list

val fallback : vfs -> z -> bool

val run_split : z -> page list -> page list * page list

val auto_tail : vfs -> page list

val rem1 : page list -> vfs -> page list

val stream : page list -> vfs -> pkt list

val intactSb : linfo -> bool -> z -> bool -> pkt list -> bool

val reachesb : linfo -> bool -> z -> bool -> pkt list -> z -> bool

val file_intactb : page list -> vfs -> z -> bool

val seek_hyps : vfs -> z -> bool

val file_intactb_h : page list -> vfs -> z -> bool

val seek_hyps_h : vfs -> z -> bool
