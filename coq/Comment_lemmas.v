(* Proofs about M12 (Comment.v). *)
From VV Require Import Bits Comment.
From Coq Require Import ZifyBool ZifyNat ZifyN.
Local Open Scope N_scope.
Ltac Zify.zify_post_hook ::= Z.div_mod_to_equations.

(* ---- byte-level packer facts ------------------------------------------ *)

Lemma read32_le32 v r : v < 4294967296 -> read32 (le32 v ++ r) = Some (v, r).
Proof.
  intros Hv. unfold le32, read32. cbn [app].
  f_equal. f_equal. lia.
Qed.

Lemma to_int32_small v : v < 2147483648 -> to_int32 v = Z.of_N v.
Proof. intros H. unfold to_int32. destruct (v <? 2147483648) eqn:E; lia. Qed.

Lemma take_app {A} (a b : list A) : take (length a) (a ++ b) = Some (a, b).
Proof.
  unfold take. rewrite app_length.
  destruct (Nat.leb (length a) (length a + length b)) eqn:E.
  - rewrite firstn_app, Nat.sub_diag, firstn_all, skipn_app, Nat.sub_diag, skipn_all.
    cbn. rewrite app_nil_r. reflexivity.
  - apply Nat.leb_gt in E. lia.
Qed.

Lemma le32_length v : length (le32 v) = 4%nat.
Proof. reflexivity. Qed.

Lemma pack_entries_length cs : (4 * length cs <= length (pack_entries cs))%nat.
Proof.
  induction cs as [|c r IH]; cbn [pack_entries length]; [lia|].
  rewrite !app_length, le32_length. lia.
Qed.

(* ---- round trip --------------------------------------------------------- *)

Definition len_ok (c : cstr) : Prop := (Z.of_nat (length c) < 2147483648)%Z.

Lemma unpack_pack_entries storage cs tail :
  Forall len_ok cs ->
  unpack_entries storage (length cs) (pack_entries cs ++ tail) = Some (cs, tail).
Proof.
  induction cs as [|c r IH]; intros H; cbn [pack_entries unpack_entries length app].
  - reflexivity.
  - inversion H as [|? ? Hc Hr]; subst. unfold len_ok in Hc.
    rewrite <- !app_assoc.
    rewrite read32_le32 by lia.
    rewrite to_int32_small by lia.
    rewrite nat_N_Z.
    destruct (Z.of_nat (length c) <? 0)%Z eqn:E1; [lia|].
    destruct (Z.of_nat (length c) >? Z.of_nat (length (c ++ pack_entries r ++ tail)))%Z eqn:E2.
    { rewrite app_length in E2. lia. }
    rewrite Nat2Z.id, take_app, IH by assumption. reflexivity.
Qed.

Lemma unpack_pack_body vendor cs :
  len_ok vendor -> Forall len_ok cs -> (Z.of_nat (length cs) < 2147483648)%Z ->
  unpack_comment_body (Z.of_nat (length (pack_comment vendor cs)))
    (le32 (N.of_nat (length vendor)) ++ vendor ++
     le32 (N.of_nat (length cs)) ++ pack_entries cs ++ [1]) = Some (vendor, cs).
Proof.
  intros Hv Hcs Hn. unfold len_ok in Hv. unfold unpack_comment_body.
  rewrite read32_le32 by lia. rewrite to_int32_small by lia. rewrite nat_N_Z.
  destruct (Z.of_nat (length vendor) <? 0)%Z eqn:E1; [lia|].
  destruct (Z.of_nat (length vendor) >? _)%Z eqn:E2.
  { unfold pack_comment, vorbis_magic, le32 in E2. rewrite !app_length in E2. cbn [length] in E2. lia. }
  rewrite Nat2Z.id, take_app.
  rewrite read32_le32 by lia. rewrite to_int32_small by lia. rewrite nat_N_Z.
  destruct (Z.of_nat (length cs) <? 0)%Z eqn:E3; [lia|].
  destruct (Z.of_nat (length cs) >? _)%Z eqn:E4.
  { rewrite Z.shiftr_div_pow2 in E4 by lia. rewrite app_length in E4.
    pose proof (pack_entries_length cs). cbn [length] in E4.
    change (2 ^ 2)%Z with 4%Z in E4. lia. }
  rewrite Nat2Z.id, unpack_pack_entries by assumption.
  reflexivity.
Qed.

Lemma comment_roundtrip vendor cs :
  len_ok vendor -> Forall len_ok cs -> (Z.of_nat (length cs) < 2147483648)%Z ->
  headerin_comment (pack_comment vendor cs) = inr (vendor, cs).
Proof.
  intros Hv Hcs Hn.
  pose proof (unpack_pack_body vendor cs Hv Hcs Hn) as H.
  unfold headerin_comment.
  change (pack_comment vendor cs) with
    (3 :: 118 :: 111 :: 114 :: 98 :: 105 :: 115 ::
     (le32 (N.of_nat (length vendor)) ++ vendor ++
      le32 (N.of_nat (length cs)) ++ pack_entries cs ++ [1])) in *.
  cbv beta iota.
  change (list_eqb [118; 111; 114; 98; 105; 115] vorbis_magic) with true.
  change (3 =? 3) with true. cbv beta iota.
  rewrite H. reflexivity.
Qed.

(* a packet the parser accepts is never read beyond its end, and what it
   returns are sub-strings of the packet: lengths are bounded by the packet *)
Lemma unpack_entries_bound storage n rest cs rest' :
  unpack_entries storage n rest = Some (cs, rest') ->
  (length rest' <= length rest)%nat /\ Forall (fun c => (length c <= length rest)%nat) cs /\ length cs = n.
Proof.
  revert rest cs rest'. induction n as [|k IH]; intros rest cs rest' H; cbn [unpack_entries] in H.
  - inversion H; subst. auto.
  - destruct (read32 rest) as [[v rest1]|] eqn:E; [|discriminate].
    destruct (to_int32 v <? 0)%Z eqn:E1; [discriminate|].
    destruct (to_int32 v >? Z.of_nat (length rest1))%Z eqn:E2; [discriminate|].
    destruct (take (Z.to_nat (to_int32 v)) rest1) as [[c rest2]|] eqn:E3; [|discriminate].
    destruct (unpack_entries storage k rest2) as [[cs0 rest3]|] eqn:E4; [|discriminate].
    inversion H; subst. apply IH in E4. destruct E4 as (L1 & L2 & L3).
    assert (length rest1 + 4 = length rest)%nat as Hr.
    { unfold read32 in E. destruct rest as [|a [|b [|c0 [|d r]]]]; try discriminate.
      inversion E; subst. cbn [length]. lia. }
    unfold take in E3. destruct (Nat.leb _ _) eqn:E5 in E3; [|discriminate].
    inversion E3; subst. apply Nat.leb_le in E5.
    rewrite skipn_length in L1, L2.
    repeat split.
    + lia.
    + constructor.
      * rewrite firstn_length. lia.
      * eapply Forall_impl; [|exact L2]. cbv beta. intros a Ha. lia.
Qed.

(* ---- case folding ------------------------------------------------------- *)

Lemma toupper_lower c : 97 <= c <= 122 -> toupper c = c - 32.
Proof. intros H. unfold toupper. destruct ((97 <=? c) && (c <=? 122)) eqn:E; lia. Qed.

Lemma toupper_other c : c < 97 \/ 122 < c -> toupper c = c.
Proof. intros H. unfold toupper. destruct ((97 <=? c) && (c <=? 122)) eqn:E; lia. Qed.

Lemma toupper_idem c : toupper (toupper c) = toupper c.
Proof.
  unfold toupper. destruct ((97 <=? c) && (c <=? 122)) eqn:E.
  - destruct ((97 <=? c - 32) && (c - 32 <=? 122)) eqn:E2; lia.
  - rewrite E. reflexivity.
Qed.

(* two bytes fold together iff equal or the two cases of one ASCII letter *)
Lemma toupper_eq_iff a b :
  toupper a = toupper b <->
  a = b \/ (97 <= a <= 122 /\ b = a - 32) \/ (97 <= b <= 122 /\ a = b - 32).
Proof.
  unfold toupper.
  destruct ((97 <=? a) && (a <=? 122)) eqn:Ea; destruct ((97 <=? b) && (b <=? 122)) eqn:Eb; lia.
Qed.

Lemma toupper_zero c : toupper c = 0 <-> c = 0.
Proof. unfold toupper. destruct ((97 <=? c) && (c <=? 122)) eqn:E; lia. Qed.

(* ---- tagcompare never leaves the comment's buffer ----------------------- *)

Definition nonzero (l : list N) : Prop := Forall (fun b => b <> 0) l.

Lemma tagcompare_in_buffer c ft : nonzero ft -> tagcompare (cbuf c) ft <> OutOfBuffer.
Proof.
  unfold cbuf. revert ft. induction c as [|b bs IH]; intros ft Hft.
  - destruct ft as [|t ts]; cbn [app tagcompare]; [discriminate|].
    inversion Hft; subst.
    destruct (toupper 0 =? toupper t) eqn:E; [|discriminate].
    apply N.eqb_eq in E. symmetry in E. change (toupper 0) with 0 in E.
    apply (proj1 (toupper_zero t)) in E. contradiction.
  - destruct ft as [|t ts]; cbn [app tagcompare]; [discriminate|].
    inversion Hft; subst.
    destruct (toupper b =? toupper t); [apply IH; assumption|discriminate].
Qed.

Lemma fulltag_nonzero tag : nonzero tag -> nonzero (fulltag tag).
Proof.
  intros H. unfold fulltag, nonzero. apply Forall_app. split; [exact H|].
  constructor; [discriminate|constructor].
Qed.

(* matching = the comment starts with TAG= up to ASCII case *)
Fixpoint fold_eq (a b : list N) : Prop :=
  match a, b with
  | [], [] => True
  | x :: a', y :: b' => toupper x = toupper y /\ fold_eq a' b'
  | _, _ => False
  end.

Lemma tagcompare_match_iff buf ft :
  tagcompare buf ft = Match <->
  exists p s, buf = p ++ s /\ fold_eq p ft.
Proof.
  revert buf. induction ft as [|t ts IH]; intros buf; cbn [tagcompare].
  - split; [intros _; exists [], buf; split; [reflexivity|exact I]|reflexivity].
  - destruct buf as [|b bs].
    + split; [discriminate|]. intros (p & s & E & F).
      destruct p; cbn in F; [contradiction|discriminate].
    + destruct (toupper b =? toupper t) eqn:E.
      * apply N.eqb_eq in E. rewrite IH. split.
        -- intros (p & s & E1 & F). exists (b :: p), s. subst. split; [reflexivity|]. cbn. auto.
        -- intros (p & s & E1 & F). destruct p as [|x p]; cbn in F; [contradiction|].
           inversion E1; subst. exists p, s. split; [reflexivity|apply F].
      * apply N.eqb_neq in E. split; [discriminate|].
        intros (p & s & E1 & F). destruct p as [|x p]; cbn in F; [contradiction|].
        inversion E1; subst. destruct F as [F _]. contradiction.
Qed.

(* ---- queries ------------------------------------------------------------- *)

Lemma query_from_index i cs tag n j off :
  query_from i cs tag n = Some (j, off) ->
  i <= j /\ (N.to_nat (j - i) < length cs)%nat /\ off = N.of_nat (length tag) + 1 /\
  matches tag (nth (N.to_nat (j - i)) cs []) = true.
Proof.
  revert i n. induction cs as [|c r IH]; intros i n H; cbn [query_from] in H; [discriminate|].
  destruct (matches tag c) eqn:M.
  - destruct n as [|k].
    + inversion H; subst. rewrite N.sub_diag. cbn. repeat split; try lia. exact M.
    + apply IH in H. destruct H as (H1 & H2 & H3 & H4).
      replace (N.to_nat (j - i)) with (S (N.to_nat (j - (i + 1)))) by lia.
      cbn [nth length]. repeat split; try lia. exact H4.
  - apply IH in H. destruct H as (H1 & H2 & H3 & H4).
    replace (N.to_nat (j - i)) with (S (N.to_nat (j - (i + 1)))) by lia.
    cbn [nth length]. repeat split; try lia. exact H4.
Qed.

(* the n-th successful query is the n-th matching comment in insertion order *)
Lemma query_from_nth i cs tag n :
  query_from i cs tag n =
  match nth_error (filter (fun p => matches tag (snd p)) (combine (map (fun k => i + N.of_nat k) (seq 0 (length cs))) cs)) n with
  | Some (j, _) => Some (j, N.of_nat (length tag) + 1)
  | None => None
  end.
Proof.
  revert i n. induction cs as [|c r IH]; intros i n; cbn [query_from length seq map combine filter].
  - destruct n; reflexivity.
  - cbn [snd]. rewrite <- seq_shift, map_map.
    assert (map (fun k => i + N.of_nat (S k)) (seq 0 (length r)) =
            map (fun k => (i + 1) + N.of_nat k) (seq 0 (length r))) as Hm.
    { apply map_ext. intros k. lia. }
    rewrite Hm.
    destruct (matches tag c) eqn:M.
    + destruct n as [|k]; cbn [nth_error].
      * f_equal. f_equal. lia.
      * apply IH.
    + apply IH.
Qed.

Lemma query_count_filter cs tag :
  query_count cs tag = length (filter (matches tag) cs).
Proof.
  induction cs as [|c r IH]; cbn [query_count filter]; [reflexivity|].
  destruct (matches tag c); cbn [length]; lia.
Qed.

Lemma filter_combine_length {A} (f : A -> bool) (ks : list N) (cs : list A) :
  length ks = length cs ->
  length (filter (fun p => f (snd p)) (combine ks cs)) = length (filter f cs).
Proof.
  revert ks. induction cs as [|c r IH]; intros ks H; destruct ks as [|k ks]; cbn in *; try reflexivity; try discriminate.
  destruct (f c); cbn; rewrite IH by lia; reflexivity.
Qed.

Lemma query_some_iff cs tag n :
  query cs tag n <> None <-> (n < query_count cs tag)%nat.
Proof.
  unfold query. rewrite query_from_nth, query_count_filter.
  rewrite <- (filter_combine_length (matches tag) (map (fun k => 0 + N.of_nat k) (seq 0 (length cs))) cs)
    by (rewrite map_length, seq_length; reflexivity).
  set (l := filter _ _).
  destruct (nth_error l n) as [[j c]|] eqn:E.
  - split; [intros _|discriminate]. apply nth_error_Some. congruence.
  - split; [congruence|]. intros H. apply nth_error_None in E. lia.
Qed.

(* comment_add_tag then query finds the new value at index = previous match count *)
Lemma matches_add_tag tag contents : nonzero tag -> matches tag (tag ++ [61] ++ contents) = true.
Proof.
  intros _. unfold matches.
  assert (tagcompare (cbuf (tag ++ [61] ++ contents)) (fulltag tag) = Match) as H.
  { apply tagcompare_match_iff. exists (fulltag tag), (contents ++ [0]).
    split.
    - unfold cbuf, fulltag. rewrite <- !app_assoc. reflexivity.
    - induction (fulltag tag) as [|x l IHl]; cbn; auto. }
  rewrite H. reflexivity.
Qed.

Lemma query_from_app_miss i cs c tag n :
  (n = query_count cs tag)%nat -> matches tag c = true ->
  query_from i (cs ++ [c]) tag n = Some (i + N.of_nat (length cs), N.of_nat (length tag) + 1).
Proof.
  revert i n. induction cs as [|d r IH]; intros i n Hn M; cbn [app query_from query_count length] in *.
  - subst n. rewrite M. f_equal. f_equal. lia.
  - destruct (matches tag d) eqn:Md.
    + subst n. cbn [Nat.add]. rewrite IH by auto. f_equal. f_equal. lia.
    + cbn in Hn. rewrite IH by auto. f_equal. f_equal. lia.
Qed.

Lemma query_add_tag cs tag contents :
  nonzero tag ->
  query_value (comment_add_tag cs tag contents) tag (query_count cs tag) = Some contents.
Proof.
  intros Ht. unfold query_value, query, comment_add_tag, comment_add.
  rewrite (query_from_app_miss 0 cs (tag ++ [61] ++ contents) tag _ eq_refl (matches_add_tag tag contents Ht)).
  rewrite N.add_0_l, Nat2N.id, app_nth2, Nat.sub_diag by lia. cbn [nth].
  replace (N.to_nat (N.of_nat (length tag) + 1)) with (length (tag ++ [61])) by (rewrite app_length; cbn; lia).
  rewrite app_assoc, skipn_app, skipn_all, Nat.sub_diag. reflexivity.
Qed.
