(* C12  I/O failures surface as error codes and leave the handle usable.
   What is proved (models Ledger.v, VFile.v): the close callback runs only in
   ov_clear, once per source the library came to own, never after a failed
   open; no read/seek operation of the model ever modifies the tables built at
   open (link table, page table) - the data every later seek is computed from.
   That each faulted call returns a documented code, terminates, and that a
   seek after the fault behaves exactly like on a clean twin is established by
   systematic fault injection on every run (fault at callback invocation k, five
   fault kinds, one-shot and persisting). *)
From VV Require Import Ledger Ledger_lemmas Blocking VFile VFile_lemmas.
Local Open Scope Z_scope.

Theorem C12_source_closed_only_by_clear :
  forall h o, o <> Clear -> h_closes (hstep h o) = h_closes h.
Proof. exact hstep_no_close_unless_clear. Qed.
Print Assumptions C12_source_closed_only_by_clear.

Theorem C12_close_count_is_owned_sources_cleared :
  forall ops, h_closes (hrun ops) = owned Zeroed ops.
Proof. exact closes_count. Qed.
Print Assumptions C12_close_count_is_owned_sources_cleared.

Theorem C12_failed_open_never_closes :
  forall h, hinv h -> h_state h = Zeroed -> h_closes (hstep (hstep h OpenFail) Clear) = h_closes h.
Proof. exact failed_open_then_clear_no_close. Qed.
Print Assumptions C12_failed_open_never_closes.

(* the tables a recovery seek is computed from survive every operation *)
Theorem C12_tables_survive_every_operation :
  forall s,
    (forall fuel len, same_tables s (snd (read_float fuel s len))) /\
    (forall pos, same_tables s (snd (raw_seek s pos))) /\
    (forall pos, same_tables s (snd (pcm_seek_page s pos))) /\
    (forall pos, same_tables s (snd (pcm_seek s pos))) /\
    (forall flag, same_tables s (snd (halfrate s flag))).
Proof.
  intros s. split; [intros; apply st_read_float|]. split; [intros; apply st_raw_seek|].
  split; [intros; apply st_pcm_seek_page|]. split; [intros; apply st_pcm_seek|intros; apply st_halfrate].
Qed.
Print Assumptions C12_tables_survive_every_operation.

Example C12_nonvacuous :
  h_closes (hrun [OpenFail; Clear; OpenOk; Use; Use; Clear; Clear; TestOk; TestOpenFail; Clear]) = 1%nat.
Proof. vm_compute. reflexivity. Qed.
