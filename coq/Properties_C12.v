(* C12  I/O failures surface as error codes and leave the handle usable.
   What is proved (models Ledger.v, VFile.v): the close callback runs only in
   ov_clear, once per source the library came to own, never after a failed
   open; no read/seek operation of the model ever modifies the tables built at
   open (link table, page table) - the data every later seek is computed from;
   and the seek theorems of C07 hold from ANY handle state with an open file
   (ready state OPENED, STREAMSET or INITSET; whatever queue, cursor, decoder and
   position an earlier failed or successful call left behind): on an intact run
   the sample seek reports exactly the target and is truthful, and it always
   terminates (C03).  So a handle that saw a failure seeks like a clean one.
   That each faulted call returns a documented code, terminates, and that a
   seek after the fault behaves exactly like on a clean twin is established by
   systematic fault injection on every run (fault at callback invocation k, five
   fault kinds, one-shot and persisting). *)
From VV Require Import Ledger Ledger_lemmas Blocking VFile VFile_lemmas Term_lemmas Sync_lemmas Seek_lemmas.
From Coq Require Import ZArith.
Local Open Scope Z_scope.

Theorem C12_source_closed_only_by_clear :
  forall h o, o <> Clear -> h_closes (hstep h o) = h_closes h.
Proof. exact hstep_no_close_unless_clear. Qed.
Print Assumptions C12_source_closed_only_by_clear.

Theorem C12_close_count_is_owned_sources_cleared :
  forall ops, h_closes (hrun ops) = owned Zeroed ops.
Proof. exact closes_count. Qed.
Print Assumptions C12_close_count_is_owned_sources_cleared.

Theorem C12_failed_open_never_closes :
  forall h, hinv h -> h_state h = Zeroed -> h_closes (hstep (hstep h OpenFail) Clear) = h_closes h.
Proof. exact failed_open_then_clear_no_close. Qed.
Print Assumptions C12_failed_open_never_closes.

(* the tables a recovery seek is computed from survive every operation *)
Theorem C12_tables_survive_every_operation :
  forall s,
    (forall fuel len, same_tables s (snd (read_float fuel s len))) /\
    (forall pos, same_tables s (snd (raw_seek s pos))) /\
    (forall pos, same_tables s (snd (pcm_seek_page s pos))) /\
    (forall pos, same_tables s (snd (pcm_seek s pos))) /\
    (forall flag, same_tables s (snd (halfrate s flag))).
Proof.
  intros s. split; [intros; apply st_read_float|]. split; [intros; apply st_raw_seek|].
  split; [intros; apply st_pcm_seek_page|]. split; [intros; apply st_pcm_seek|intros; apply st_halfrate].
Qed.
Print Assumptions C12_tables_survive_every_operation.

Example C12_nonvacuous :
  h_closes (hrun [OpenFail; Clear; OpenOk; Use; Use; Clear; Clear; TestOk; TestOpenFail; Clear]) = 1%nat.
Proof. vm_compute. reflexivity. Qed.

(* whatever an earlier call - failed or not - left in the handle: a sample seek whose executable hypotheses hold
   succeeds, reports exactly the target and is truthful; the only parts of the state the statement looks at are
   the tables (never modified, see above), the half-rate flag and that a file is open *)
Theorem C12_seek_from_any_state_is_exact_and_truthful :
  forall s pos, seek_hyps s pos = true ->
    fst (pcm_seek s pos) = 0 /\ v_pcm (snd (pcm_seek s pos)) = pos /\
    Truthful (auto_tail (snd (pcm_seek_page s pos))) (snd (pcm_seek s pos)) pos.
Proof. exact pcm_seek_checked. Qed.
Print Assumptions C12_seek_from_any_state_is_exact_and_truthful.

(* and from any state, for any page table, the seek's loops terminate *)
Theorem C12_seek_terminates_from_any_state :
  forall k s pos, 0 <= v_hs s -> pcm_seek_x k s pos = pcm_seek s pos.
Proof. exact pcm_seek_terminates. Qed.
Print Assumptions C12_seek_terminates_from_any_state.
