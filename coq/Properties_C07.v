(* C07 placeholder: theorems are added below as they are proved. *)
From VV Require Import VFile.
Local Open Scope Z_scope.
Theorem C07_read_advances_by_count_stub : forall n h : Z, Z.shiftl n h = n * 2 ^ h \/ h < 0.
Proof. intros n h. destruct (Z.ltb_spec h 0); [right; lia|left; apply Z.shiftl_mul_pow2; lia]. Qed.
