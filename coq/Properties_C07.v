(* C07  After any seek the reported position matches the audio delivered.
   Model: VFile.v (position bookkeeping of lib/vorbisfile.c on the page table).
   Proved so far: the consuming step of every read advances the position by
   exactly the samples returned (times two under half-rate) and touches nothing
   else; what remains pending shrinks by that count.  The full refinement
   (position = index of the next sample of the linear decode after ANY history)
   is established per run by the tie and the bit-exact oracle, not yet by proof:
   see DESIGN.md section 4 (C07). *)
From VV Require Import Blocking VFile VFile_lemmas VFileDemo.
Local Open Scope Z_scope.

Theorem C07_read_advances_by_count_partial :
  forall f s len, v_rs s = INITSET -> 0 < dec_pcmout (v_dec s) ->
    let avail := dec_pcmout (v_dec s) in
    let n := if avail >? len then len else avail in
    exists s', read_float (S f) s len = (n, v_link s, s') /\
               v_pcm s' = v_pcm s + Z.shiftl n (v_hs s) /\
               v_link s' = v_link s /\ v_rem s' = v_rem s /\ v_q s' = v_q s /\
               v_dec s' = snd (dec_read (v_dec s) n) /\ v_hs s' = v_hs s /\ v_rs s' = v_rs s.
Proof. exact read_consumes. Qed.
Print Assumptions C07_read_advances_by_count_partial.

Theorem C07_pending_shrinks_by_count :
  forall d n, 0 <= n <= dec_pcmout d -> 0 < dec_pcmout d ->
    dec_pcmout (snd (dec_read d n)) = dec_pcmout d - n.
Proof. exact dec_read_pcmout. Qed.
Print Assumptions C07_pending_shrinks_by_count.

(* non-vacuity: a two-link page table on which the model seeks and reads *)
Example C07_demo_runs :
  pcm_total demo = 428 /\ v_pcm demo = 0 /\
  (let '(r, _, s1) := read_float (read_fuel demo) demo 1000 in r = 32 /\ v_pcm s1 = 32) /\
  (let '(r, s1) := pcm_seek demo 310 in r = 0 /\ v_pcm s1 = 310 /\ v_link s1 = 1) /\
  (let '(r, s1) := raw_seek demo 180 in r = 0 /\ v_pcm s1 = 176).
Proof. vm_compute. repeat split; reflexivity. Qed.
