(* C07  After any seek the reported position matches the audio delivered.
   Model: VFile.v (position bookkeeping of lib/vorbisfile.c on the page table).
   Proved: (1) the consuming step of every read advances the position by exactly
   the samples returned (times two under half-rate) and touches nothing else;
   (2) TRUTHFULNESS on intact streams, full rate: if the handle is in sync (the
   reported position is the position of the next sample inside the link, the
   decoder's own tracking agrees, everything decoded has been read), then after
   ANY number of further packets of the link - each with or without a granule
   position, as the stream's page layout dictates - every packet makes exactly
   its block step available, the reported position has advanced by exactly the
   samples delivered, and the handle is in sync again.  So positions stay
   truthful for the whole linear decode from any synchronised point, whatever
   the page layout.  NOT proved: that every seek re-establishes that invariant
   (the seek loops are tied per run by the bit-exact oracle), half-rate, the
   end-of-stream trim: see DESIGN.md section 13. *)
From VV Require Import Blocking VFile VFile_lemmas VFileDemo Sync_lemmas.
From Coq Require Import ZArith List.
Import ListNotations.
Local Open Scope Z_scope.

Theorem C07_read_advances_by_count_partial :
  forall f s len, v_rs s = INITSET -> 0 < dec_pcmout (v_dec s) ->
    let avail := dec_pcmout (v_dec s) in
    let n := if avail >? len then len else avail in
    exists s', read_float (S f) s len = (n, v_link s, s') /\
               v_pcm s' = v_pcm s + Z.shiftl n (v_hs s) /\
               v_link s' = v_link s /\ v_rem s' = v_rem s /\ v_q s' = v_q s /\
               v_dec s' = snd (dec_read (v_dec s) n) /\ v_hs s' = v_hs s /\ v_rs s' = v_rs s.
Proof. exact read_consumes. Qed.
Print Assumptions C07_read_advances_by_count_partial.

Theorem C07_pending_shrinks_by_count :
  forall d n, 0 <= n <= dec_pcmout d -> 0 < dec_pcmout d ->
    dec_pcmout (snd (dec_read d n)) = dec_pcmout d - n.
Proof. exact dec_read_pcmout. Qed.
Print Assumptions C07_pending_shrinks_by_count.

(* one packet: the position reported after it is the position of the first sample it made pending *)
Theorem C07_position_truthful_per_packet :
  forall s here p w, SyncInv s here -> intact s here p w ->
    let stp := bsz (cur_cfg s) (d_W (v_dec s)) / 4 + bsz (cur_cfg s) w / 4 in
    let '(n, s2) := drain (feed s p w) in
    n = stp /\ SyncInv s2 (here + stp) /\ d_W (v_dec s2) = w.
Proof. exact feed_drain_sync. Qed.
Print Assumptions C07_position_truthful_per_packet.

(* any number of packets: position = start + samples delivered, and still in sync *)
Theorem C07_linear_read_positions_truthful :
  forall ps s here, SyncInv s here -> intact_seq s here ps ->
    let '(s', ns) := run_link s ps in
    let total := fold_right Z.add 0 ns in
    SyncInv s' (here + total) /\ v_pcm s' = v_pcm s + total /\ Forall (fun n => 0 <= n) ns.
Proof. exact linear_read_sync. Qed.
Print Assumptions C07_linear_read_positions_truthful.

(* non-vacuity of the hypotheses: the demo handle after its first read is in sync at
   position 32 and its next packet (long block, granule 176 = 32 + 64/4 + 512/4) is intact *)
Example C07_sync_nonvacuous :
  let s1 := snd (read_float (read_fuel demo) demo 1000) in
  SyncInv s1 32 /\ intact s1 32 {| pk_W := Some true; pk_gran := 176; pk_eos := false |} true.
Proof.
  split.
  - unfold SyncInv. vm_compute. repeat split; try discriminate; try reflexivity; try (intros H; discriminate H). right. reflexivity.
  - unfold intact. vm_compute. split; [reflexivity|right; reflexivity].
Qed.

(* non-vacuity: a two-link page table on which the model seeks and reads *)
Example C07_demo_runs :
  pcm_total demo = 428 /\ v_pcm demo = 0 /\
  (let '(r, _, s1) := read_float (read_fuel demo) demo 1000 in r = 32 /\ v_pcm s1 = 32) /\
  (let '(r, s1) := pcm_seek demo 310 in r = 0 /\ v_pcm s1 = 310 /\ v_link s1 = 1) /\
  (let '(r, s1) := raw_seek demo 180 in r = 0 /\ v_pcm s1 = 176).
Proof. vm_compute. repeat split; reflexivity. Qed.
