(* C07  After any seek the reported position matches the audio delivered.
   Model: VFile.v (position bookkeeping of lib/vorbisfile.c on the page table).
   Proved: (1) the consuming step of every read advances the position by exactly
   the samples returned (times two under half-rate) and touches nothing else;
   (2) TRUTHFULNESS on intact streams, full rate: if the handle is in sync (the
   reported position is the position of the next sample inside the link, the
   decoder's own tracking agrees, everything decoded has been read), then after
   ANY number of further packets of the link - each with or without a granule
   position, as the stream's page layout dictates - every packet makes exactly
   its block step available, the reported position has advanced by exactly the
   samples delivered, and the handle is in sync again.  So positions stay
   truthful for the whole linear decode from any synchronised point, whatever
   the page layout; (3) SAMPLE SEEKS (ov_pcm_seek, full rate, any opened handle,
   any page layout): if the page seek succeeds without the continued-packet
   fallback and the packets from the landing point on form an intact run of the
   link that reaches the target (block sizes multiples of four, no end-of-stream
   packet in the run, every granule position that is present equals the link's
   initial offset plus the position where its block ends), then ov_pcm_seek
   returns 0, reports EXACTLY the target, and is truthful: the decoder is either
   quiet with the next packet ending at the reported position, or holds pending
   samples that are the samples at the reported position onwards, with its own
   tracking in agreement with every later granule position.  The hypotheses are
   an executable test (seek_hyps); the per-run harness evaluates it for every
   sample seek it performs and demands position = target from the real code.
   (4) PAGE SEEKS (ov_pcm_seek_page) under the same hypotheses: the position
   reported is at or below the target and is where the first following packet
   ends; the next fetch delivers nothing and leaves the handle in sync there.
   (5) BYTE SEEKS (ov_raw_seek) into the link being decoded, onto a page that is
   not the link's last and carries a granule position, followed by an intact
   run: the position reported is where the first packet of that run ends, and
   the handle is landed as after a page seek - also when the byte seek leaves
   the link being decoded or starts without decoder.  NOT proved: byte seeks
   that land on a link's last page, the continued-packet fallback, seeks that finish inside the last page (end-of-
   stream trim): tied per run by the bit-exact oracle; half rate: Properties_C20.v.  See DESIGN.md
   section 13. *)
From VV Require Import Blocking VFile VFile_lemmas VFileDemo Sync_lemmas Seek_lemmas SeekE_lemmas.
From Coq Require Import ZArith List Lia.
Import ListNotations.
Local Open Scope Z_scope.

Theorem C07_read_advances_by_count_partial :
  forall f s len, v_rs s = INITSET -> 0 < dec_pcmout (v_dec s) ->
    let avail := dec_pcmout (v_dec s) in
    let n := if avail >? len then len else avail in
    exists s', read_float (S f) s len = (n, v_link s, s') /\
               v_pcm s' = v_pcm s + Z.shiftl n (v_hs s) /\
               v_link s' = v_link s /\ v_rem s' = v_rem s /\ v_q s' = v_q s /\
               v_dec s' = snd (dec_read (v_dec s) n) /\ v_hs s' = v_hs s /\ v_rs s' = v_rs s.
Proof. exact read_consumes. Qed.
Print Assumptions C07_read_advances_by_count_partial.

Theorem C07_pending_shrinks_by_count :
  forall d n, 0 <= n <= dec_pcmout d -> 0 < dec_pcmout d ->
    dec_pcmout (snd (dec_read d n)) = dec_pcmout d - n.
Proof. exact dec_read_pcmout. Qed.
Print Assumptions C07_pending_shrinks_by_count.

(* one packet: the position reported after it is the position of the first sample it made pending *)
Theorem C07_position_truthful_per_packet :
  forall s here p w, SyncInv s here -> intact s here p w ->
    let stp := bsz (cur_cfg s) (d_W (v_dec s)) / 4 + bsz (cur_cfg s) w / 4 in
    let '(n, s2) := drain (feed s p w) in
    n = stp /\ SyncInv s2 (here + stp) /\ d_W (v_dec s2) = w.
Proof. exact feed_drain_sync. Qed.
Print Assumptions C07_position_truthful_per_packet.

(* any number of packets: position = start + samples delivered, and still in sync *)
Theorem C07_linear_read_positions_truthful :
  forall ps s here, SyncInv s here -> intact_seq s here ps ->
    let '(s', ns) := run_link s ps in
    let total := fold_right Z.add 0 ns in
    SyncInv s' (here + total) /\ v_pcm s' = v_pcm s + total /\ Forall (fun n => 0 <= n) ns.
Proof. exact linear_read_sync. Qed.
Print Assumptions C07_linear_read_positions_truthful.

(* non-vacuity of the hypotheses: the demo handle after its first read is in sync at
   position 32 and its next packet (long block, granule 176 = 32 + 64/4 + 512/4) is intact *)
Example C07_sync_nonvacuous :
  let s1 := snd (read_float (read_fuel demo) demo 1000) in
  SyncInv s1 32 /\ intact s1 32 {| pk_W := Some true; pk_gran := 176; pk_eos := false |} true.
Proof.
  split.
  - unfold SyncInv. vm_compute. repeat split; try discriminate; try reflexivity; try (intros H; discriminate H). right. reflexivity.
  - unfold intact. vm_compute. split; [reflexivity|right; reflexivity].
Qed.

(* sample seek on an intact run: exact and truthful *)
Theorem C07_pcm_seek_truthful_on_intact_run :
  forall (tail : list page) s pos s1,
    v_hs s = 0 -> OPENED <= v_rs s <= INITSET ->
    pcm_seek_page s pos = (0, s1) -> fallback s pos = false -> FileIntact tail s1 pos ->
    fst (pcm_seek s pos) = 0 /\ Truthful tail (snd (pcm_seek s pos)) pos /\ v_pcm (snd (pcm_seek s pos)) = pos.
Proof. exact pcm_seek_intact. Qed.
Print Assumptions C07_pcm_seek_truthful_on_intact_run.

(* the same with the hypotheses as one executable test *)
Theorem C07_pcm_seek_checked :
  forall s pos, seek_hyps s pos = true ->
    fst (pcm_seek s pos) = 0 /\ v_pcm (snd (pcm_seek s pos)) = pos /\
    Truthful (auto_tail (snd (pcm_seek_page s pos))) (snd (pcm_seek s pos)) pos.
Proof. exact pcm_seek_checked. Qed.
Print Assumptions C07_pcm_seek_checked.

(* page-granularity seek on an intact run: the position it reports (at or below the target) is where the
   first packet that follows ends; the first fetch after it delivers nothing and leaves the handle in sync
   exactly at the reported position, with the rest of the run intact from there *)
Theorem C07_page_seek_truthful_on_intact_run :
  forall (tail : list page) s pos s1,
    v_hs s = 0 -> OPENED <= v_rs s <= INITSET ->
    pcm_seek_page s pos = (0, s1) -> fallback s pos = false -> FileIntact tail s1 pos ->
    let s2 := make_ready s1 in
    let e := v_pcm s1 - base_of s1 (v_link s1) in
    v_pcm s1 <= pos /\
    exists p r w s0,
      stream tail s2 = p :: r /\ pk_W p = Some w /\
      fetch (fetch_fuel s2) s2 = (1, feed s0 p w) /\
      SyncInv (feed s0 p w) e /\ dec_pcmout (v_dec (feed s0 p w)) = 0 /\ v_pcm (feed s0 p w) = v_pcm s1 /\
      IntactS (cur_link s1) false e w r.
Proof. exact pcm_seek_page_truthful. Qed.
Print Assumptions C07_page_seek_truthful_on_intact_run.

(* byte-position seek (ov_raw_seek) into the link being decoded, onto a page of that link that is not its last
   one and carries a granule position, the packets from there on forming an intact run whose first packet ends at
   e0: the seek reports exactly base + e0 and leaves the handle landed (restarted decoder, the queue holding that
   run); by the next theorem the first fetch then leaves it in sync at that position *)
Theorem C07_raw_seek_truthful_on_intact_run :
  forall (tail : list page) s pos pg (r1 : list page) e0,
    let l := cur_link s in
    let pk := if pg_cont pg then tl (pg_pkts pg) else pg_pkts pg in
    v_hs s = 0 -> v_rs s >= STREAMSET -> v_rs s <= INITSET ->
    0 <= pos <= file_end s -> li_off l <= pos < li_end l ->
    pages_from (v_pages s) pos = pg :: r1 ++ tail ->
    plain (v_serial s) pg -> pg_eos pg = false -> Forall (plain (v_serial s)) r1 ->
    0 < li_bs0 l -> 0 < li_bs1 l -> li_bs0 l <= li_bs1 l -> li_bs0 l mod 4 = 0 -> li_bs1 l mod 4 = 0 -> 0 <= li_init l ->
    0 <= e0 -> IntactS l true e0 false (pk ++ flat_map pg_pkts r1) -> scan_acc l 0 0 pk <> None ->
    let s' := snd (raw_seek s pos) in
    fst (raw_seek s pos) = 0 /\ v_pcm s' = base_of s (v_link s) + e0 /\ Landed tail s' (v_pcm s').
Proof. exact raw_seek_truthful. Qed.
Print Assumptions C07_raw_seek_truthful_on_intact_run.

(* the same when the byte seek leaves the link being decoded, or starts from a handle without decoder *)
Theorem C07_raw_seek_truthful_other_link :
  forall (tail : list page) s pos pg (r1 : list page) j e0,
    let l := nth_link s j in
    let pk := if pg_cont pg then tl (pg_pkts pg) else pg_pkts pg in
    v_hs s = 0 -> OPENED <= v_rs s <= INITSET ->
    0 <= pos <= file_end s ->
    (v_rs s = OPENED \/ pos < li_off (cur_link s) \/ li_end (cur_link s) <= pos) ->
    pages_from (v_pages s) pos = pg :: r1 ++ tail ->
    find_link (v_links s) (pg_serial pg) 0 = Some j -> 0 <= j ->
    pg_eos pg = false -> Forall (plain (pg_serial pg)) r1 ->
    0 < li_bs0 l -> 0 < li_bs1 l -> li_bs0 l <= li_bs1 l -> li_bs0 l mod 4 = 0 -> li_bs1 l mod 4 = 0 -> 0 <= li_init l ->
    0 <= e0 -> IntactS l true e0 false (pk ++ flat_map pg_pkts r1) -> scan_acc l 0 0 pk <> None ->
    let s' := snd (raw_seek s pos) in
    fst (raw_seek s pos) = 0 /\ v_link s' = j /\ v_pcm s' = base_of s j + e0 /\ Landed tail s' (v_pcm s').
Proof. exact raw_seek_truthful_other_link. Qed.
Print Assumptions C07_raw_seek_truthful_other_link.

Theorem C07_landed_then_fetch_in_sync :
  forall (tail : list page) s1 pos, Landed tail s1 pos ->
    let s2 := make_ready s1 in
    let e := v_pcm s1 - base_of s1 (v_link s1) in
    exists p r w s0,
      stream tail s2 = p :: r /\ pk_W p = Some w /\
      fetch (fetch_fuel s2) s2 = (1, feed s0 p w) /\
      SyncInv (feed s0 p w) e /\ dec_pcmout (v_dec (feed s0 p w)) = 0 /\ v_pcm (feed s0 p w) = v_pcm s1 /\
      IntactS (cur_link s1) false e w r.
Proof. exact landed_fetch. Qed.
Print Assumptions C07_landed_then_fetch_in_sync.

(* non-vacuity: the demo handle after a read, byte seek onto its third audio page (offset 238): all hypotheses
   hold with e0 = 96, so the seek reports 96 and lands *)
Example C07_raw_seek_nonvacuous :
  let s := snd (read_float (read_fuel demo2) demo2 10) in
  fst (raw_seek s 238) = 0 /\ v_pcm (snd (raw_seek s 238)) = 96 /\
  Landed (skipn 7 demo2_pages) (snd (raw_seek s 238)) (v_pcm (snd (raw_seek s 238))).
Proof.
  cbv zeta.
  pose proof (raw_seek_truthful (skipn 7 demo2_pages) (snd (read_float (read_fuel demo2) demo2 10)) 238
                (demo2_nth 4) [demo2_nth 5; demo2_nth 6] 96) as H. cbv zeta in H.
  destruct H as (A & B & C).
  - reflexivity.
  - vm_compute. discriminate.
  - vm_compute. discriminate.
  - vm_compute. split; discriminate.
  - vm_compute. split; [discriminate|reflexivity].
  - vm_compute. reflexivity.
  - split; vm_compute; reflexivity.
  - reflexivity.
  - repeat constructor.
  - vm_compute. reflexivity.
  - vm_compute. reflexivity.
  - vm_compute. discriminate.
  - vm_compute. reflexivity.
  - vm_compute. reflexivity.
  - vm_compute. discriminate.
  - lia.
  - apply intactSb_ok. vm_compute. reflexivity.
  - vm_compute. discriminate.
  - split; [exact A|]. split; [rewrite B; vm_compute; reflexivity|exact C].
Qed.

(* what "truthful" means for the samples delivered next: with samples pending, draining them
   delivers n samples, the position advances by n and the handle is in sync there (so theorem
   C07_linear_read_positions_truthful applies from then on); with a quiet decoder the next
   packet delivers nothing and leaves the handle in sync at the reported position *)
Theorem C07_truthful_pending :
  forall (tail : list page) s pos, NReady tail s pos ->
    exists e, v_pcm s = base_of s (v_link s) + e /\
      let '(n, s2) := drain s in
      0 <= n /\ SyncInv s2 (e + n) /\ v_pcm s2 = v_pcm s + n /\
      IntactS (cur_link s) false (e + n) (d_W (v_dec s2)) (stream tail s2).
Proof. exact nready_drain. Qed.
Print Assumptions C07_truthful_pending.
Theorem C07_truthful_quiet :
  forall s e p w, Core s -> PreSync s e p w ->
    SyncInv (feed s p w) e /\ dec_pcmout (v_dec (feed s p w)) = 0 /\ d_W (v_dec (feed s p w)) = w.
Proof. exact feed_presync. Qed.
Print Assumptions C07_truthful_quiet.

(* non-vacuity: on the demo link the hypotheses hold for EVERY target up to the last granule position
   before the final page (673 targets), and fail - as they must - inside the final page *)
Example C07_seek_hyps_nonvacuous :
  forallb (fun k => seek_hyps demo2 (Z.of_nat k)) (seq 0 673) = true /\ seek_hyps demo2 673 = false.
Proof. split; vm_compute; reflexivity. Qed.

(* non-vacuity: a two-link page table on which the model seeks and reads *)
Example C07_demo_runs :
  pcm_total demo = 428 /\ v_pcm demo = 0 /\
  (let '(r, _, s1) := read_float (read_fuel demo) demo 1000 in r = 32 /\ v_pcm s1 = 32) /\
  (let '(r, s1) := pcm_seek demo 310 in r = 0 /\ v_pcm s1 = 310 /\ v_link s1 = 1) /\
  (let '(r, s1) := raw_seek demo 180 in r = 0 /\ v_pcm s1 = 176).
Proof. vm_compute. repeat split; reflexivity. Qed.

(* up to the very end of the link: the run may close with the link's end-of-stream packet, whose granule
   position cuts the last block short (SeekE_lemmas.v; the landing packet carries a granule position, as it
   does for every landing except the beginning-of-link one) *)
Theorem C07_pcm_seek_truthful_to_link_end :
  forall (tail : list page) (gend : Z) s pos s1,
    v_hs s = 0 -> OPENED <= v_rs s <= INITSET ->
    pcm_seek_page s pos = (0, s1) -> fallback s pos = false -> FileIntactE tail s1 pos ->
    fst (pcm_seek s pos) = 0 /\ TruthfulE tail (snd (pcm_seek s pos)) pos /\ v_pcm (snd (pcm_seek s pos)) = pos /\
    (EndE tail gend s1 -> EndE tail gend (snd (pcm_seek s pos))).
Proof. exact pcm_seek_intact_e. Qed.
Print Assumptions C07_pcm_seek_truthful_to_link_end.

Theorem C07_pcm_seek_checked_to_link_end :
  forall s pos, seek_hyps_e s pos = true ->
    fst (pcm_seek s pos) = 0 /\ v_pcm (snd (pcm_seek s pos)) = pos /\
    TruthfulE (auto_tail_e (snd (pcm_seek_page s pos))) (snd (pcm_seek s pos)) pos /\
    forall gend, EndE (auto_tail_e (snd (pcm_seek_page s pos))) gend (snd (pcm_seek_page s pos)) ->
                 EndE (auto_tail_e (snd (pcm_seek_page s pos))) gend (snd (pcm_seek s pos)).
Proof. exact pcm_seek_checked_e. Qed.
Print Assumptions C07_pcm_seek_checked_to_link_end.

(* what that buys: the samples pending after such a seek are those at the reported position; taking them
   leaves the handle in sync, the decoder knowing its granule position, the rest of the run intact *)
Theorem C07_truthful_pending_to_link_end :
  forall (tail : list page) s pos, NReadyE tail s pos ->
    exists e, v_pcm s = base_of s (v_link s) + e /\
      let '(n, s2) := drain s in
      0 <= n /\ SyncInv s2 (e + n) /\ v_pcm s2 = v_pcm s + n /\ d_gran (v_dec s2) = li_init (cur_link s) + (e + n) /\
      IntactE (cur_link s) false (e + n) (d_W (v_dec s2)) (stream tail s2) /\ stream tail s2 = stream tail s.
Proof. exact nready_e_drain. Qed.
Print Assumptions C07_truthful_pending_to_link_end.

(* non-vacuity: every position of the demo link, 0..700 (its end), meets one of the two executable tests *)
Example C07_every_target_of_demo2_covered :
  forallb (fun k => seek_hyps demo2 (Z.of_nat k) || seek_hyps_e demo2 (Z.of_nat k)) (seq 0 701) = true /\
  seek_hyps_e demo2 700 = true /\ seek_hyps demo2 700 = false.
Proof. vm_compute. repeat split. Qed.
