(* Lapped seeks (ov_pcm_seek_lap and friends, VFile.seek_lap): set up, take the lapping data, plain seek,
   prime, expose the buffer.  Proved here: priming without spanning links (_ov_initprime) after a truthful
   seek succeeds and keeps the reported position, so a lapped sample seek whose executable hypotheses hold
   returns 0 and reports exactly the target - the position the plain seek reports.  C19. *)
From VV Require Import Blocking Blocking_lemmas VFile VFile_lemmas Decoder_lemmas Sync_lemmas Seek_lemmas Term_lemmas Read_lemmas Prime_lemmas Cross_lemmas.
From Coq Require Import ZArith List Bool Lia ZifyBool.
Import ListNotations.
Local Open Scope Z_scope.
Ltac Zify.zify_post_hook ::= Z.div_mod_to_equations.

Section TailL.
Variable tail : list page.

(* _fetch_and_process_packet inside the intact run: takes the next packet of the stream, whatever the page layout *)
Lemma fetch_ns_plain : forall fuel s p r,
  v_rs s = INITSET -> PlainRem tail s -> Forall audio (stream tail s) -> (length (rem1 tail s) < fuel)%nat ->
  stream tail s = p :: r ->
  exists w s0, pk_W p = Some w /\ fetch_ns fuel s = (1, feed s0 p w) /\ view s0 = view s /\
               stream tail s0 = r /\ PlainRem tail s0.
Proof.
  induction fuel as [|f IH]; intros s p r Hrs Hpl Hau Hf Hst; [lia|].
  cbn [fetch_ns]. rewrite (make_ready_initset s Hrs). rewrite Hrs. cbn [Z.eqb Pos.eqb andb].
  destruct (v_q s) as [|p0 q'] eqn:Eq.
  - (* queue empty: next page *)
    destruct Hpl as (Hfr & Hsplit & Hall).
    destruct (rem1 tail s) as [|pg r1] eqn:E1.
    + unfold stream in Hst. rewrite Eq, E1 in Hst. discriminate Hst.
    + cbn [app] in Hsplit. rewrite Hsplit.
      inversion Hall as [|x y [Hser Hbos] Hrest]; subst x y.
      cbn [v_rs set_rem v_serial]. rewrite Hrs, Hser. rewrite !Z.eqb_refl. change (INITSET <? STREAMSET) with false. cbn [negb andb].
      assert (os_pagein (set_rem s (r1 ++ tail)) pg = set_q (set_rem s (r1 ++ tail)) (pg_pkts pg) false (v_pno s)) as Hpi.
      { unfold os_pagein. cbn [v_serial set_rem v_fresh v_q v_pno]. rewrite Hser, Z.eqb_refl, Hfr, Eq. reflexivity. }
      rewrite Hpi.
      set (s1 := set_q (set_rem s (r1 ++ tail)) (pg_pkts pg) false (v_pno s)).
      assert (rem1 tail s1 = r1) as Hr1 by (apply rem1_app; reflexivity).
      assert (stream tail s1 = stream tail s) as Hst1 by (unfold stream; rewrite Hr1, E1, Eq; unfold s1; cbn; reflexivity).
      assert (view s1 = view s) as Hv by reflexivity.
      destruct (IH s1 p r) as (w & s0 & A & B & C & D & E); try assumption.
      * split; [reflexivity|]. split; [rewrite Hr1; reflexivity|rewrite Hr1; exact Hrest].
      * rewrite Hst1. exact Hau.
      * rewrite Hr1. cbn [length] in Hf. lia.
      * rewrite Hst1. exact Hst.
      * exists w, s0. split; [exact A|]. split; [exact B|]. split; [rewrite C; exact Hv|]. split; [exact D|exact E].
  - unfold stream in Hst. rewrite Eq in Hst. cbn [app] in Hst. injection Hst as <- Hr.
    assert (audio p0) as [w Hw] by (unfold stream in Hau; rewrite Eq in Hau; inversion Hau; assumption).
    rewrite Hw. exists w, (set_q s q' (v_fresh s) (v_pno s)).
    split; [reflexivity|]. split; [reflexivity|]. split; [reflexivity|].
    split; [exact Hr|]. exact Hpl.
Qed.

Lemma pcmout_core s : Core s -> (v_rs s =? INITSET) = true.
Proof. intros (_ & Hrs & _). rewrite Hrs. reflexivity. Qed.

(* a synchronised handle with nothing pending: one fetch makes the next block step pending, position unchanged *)
Lemma initprime_from_sync : forall f s e p r,
  Core s -> PlainRem tail s -> SyncInv s e -> dec_pcmout (v_dec s) = 0 ->
  stream tail s = p :: r -> IntactS (cur_link s) false e (d_W (v_dec s)) (p :: r) ->
  exists sp, initprime (S (S f)) s = (0, sp) /\ v_pcm sp = v_pcm s /\ 0 < dec_pcmout (v_dec sp) /\
             cur_link sp = cur_link s /\ v_hs sp = v_hs s.
Proof.
  intros f s e p r Hc Hpl Hsy Hout Hst Hin.
  cbn [IntactS] in Hin. destruct Hin as (w & Hw & Heos & Hg & Hrest).
  pose proof Hc as (Hhs & Hrs & Hb0 & Hb1 & Hb01 & Hm0 & Hm1 & Hi & Hpno).
  assert (Forall audio (stream tail s)) as Hau.
  { rewrite Hst. constructor; [exists w; exact Hw|]. eapply intact_audio. exact Hrest. }
  destruct (fetch_ns_plain (fetch_fuel s) s p r Hrs Hpl Hau) as (w' & s0 & Hw' & Hfe & Hv0 & Hst0 & Hpl0);
    [unfold fetch_fuel; destruct (stream_bound tail s Hpl) as [B1 B2]; lia|exact Hst|].
  rewrite Hw in Hw'. injection Hw' as <-.
  destruct (view_link _ _ Hv0) as (L1 & L2 & L5 & L6 & L7 & L8 & L9).
  assert (SyncInv s0 e) as Hsy0 by (eapply view_sync; [symmetry; exact Hv0|exact Hsy]).
  assert (intact s0 e p w) as Hint.
  { unfold intact. rewrite L5, L6, L1. rewrite !bsz_blocksize. split; [exact Heos|]. destruct Hg as [Hg|Hg]; [left; exact Hg|right; lia]. }
  pose proof (feed_sync_pending s0 e p w Hsy0 Hint) as Hfs. cbv zeta in Hfs.
  destruct Hfs as (G1 & G2 & G3 & G4 & G5 & G6 & G7).
  assert (Core s0) as Hc0 by (eapply view_core; [symmetry; exact Hv0|exact Hc]).
  assert (0 < bsz (cur_cfg s0) (d_W (v_dec s0)) / 4 + bsz (cur_cfg s0) w / 4) as Hpos.
  { rewrite !bsz_blocksize. destruct Hc0 as (_ & _ & C0 & C1 & _ & M0 & M1 & _). unfold blocksize. destruct (d_W (v_dec s0)), w; lia. }
  assert (dec_pcmout (v_dec (feed s0 p w)) = bsz (cur_cfg s0) (d_W (v_dec s0)) / 4 + bsz (cur_cfg s0) w / 4) as Hp.
  { unfold dec_pcmout. destruct ((d_ret (v_dec (feed s0 p w)) >? -1) && (d_ret (v_dec (feed s0 p w)) <? d_cur (v_dec (feed s0 p w)))) eqn:E; lia. }
  pose proof (core_feed s0 p w Hc0) as Hcf.
  destruct (link_feed s0 p w) as (L3 & _).
  destruct (feed_fields s0 p w) as (_ & _ & _ & _ & _ & _ & _ & F8 & _).
  exists (feed s0 p w). split; [|split; [|split; [|split]]].
  - cbn [initprime]. rewrite (pcmout_core s Hc), Hout. change (true && negb (0 =? 0)) with false. cbv iota.
    rewrite Hfe. change (1 <? 0) with false. cbv iota.
    rewrite (pcmout_core _ Hcf), Hp.
    assert (negb (bsz (cur_cfg s0) (d_W (v_dec s0)) / 4 + bsz (cur_cfg s0) w / 4 =? 0) = true) as -> by lia. reflexivity.
  - rewrite G5. exact L8.
  - rewrite Hp. exact Hpos.
  - rewrite L3. exact L1.
  - rewrite F8. unfold view in Hv0. injection Hv0 as V1 _. exact V1.
Qed.

(* _ov_initprime after a truthful seek succeeds and leaves the reported position where it is *)
Theorem initprime_keeps_position s pos :
  Truthful tail s pos -> (2 <= length (stream tail s))%nat ->
  forall fuel, (3 <= fuel)%nat ->
  exists sp, initprime fuel s = (0, sp) /\ v_pcm sp = v_pcm s /\ 0 < dec_pcmout (v_dec sp) /\
             cur_link sp = cur_link s /\ v_hs sp = v_hs s.
Proof.
  intros HT Hlen fuel Hfuel.
  assert (exists f, fuel = S (S (S f))) as [f Hf] by (exists (fuel - 3)%nat; lia).
  rewrite Hf.
  destruct HT as [(p & q' & w & e & Eq & Hw & Hps & Hin & Hcore & Hpl & _)|(e & Hcore & Hpl & Hr0 & Hrc & Hs0 & Hs1 & Hpcm & He0 & Htr & Hin & _)].
  - (* quiet decoder: the first fetch brings it in sync, the second makes a block step pending *)
    pose proof Hcore as (Hhs & Hrs & Hb0 & Hb1 & Hb01 & Hm0 & Hm1 & Hi & Hpno).
    pose proof Hps as (Hret & Hpc & _).
    assert (dec_pcmout (v_dec s) = 0) as Hp0 by (unfold dec_pcmout; rewrite Hret; reflexivity).
    assert (stream tail s = p :: q' ++ flat_map pg_pkts (rem1 tail s)) as Hst by (unfold stream; rewrite Eq; reflexivity).
    assert (Forall audio (stream tail s)) as Hau.
    { rewrite Hst. constructor; [exists w; exact Hw|]. eapply intact_audio. exact Hin. }
    destruct (fetch_ns_plain (fetch_fuel s) s p (q' ++ flat_map pg_pkts (rem1 tail s)) Hrs Hpl Hau) as (w' & s0 & Hw' & Hfe & Hv0 & Hst0 & Hpl0);
      [unfold fetch_fuel; destruct (stream_bound tail s Hpl) as [B1 B2]; lia|exact Hst|].
    rewrite Hw in Hw'. injection Hw' as <-.
    assert (Core s0) as Hc0 by (eapply view_core; [symmetry; exact Hv0|exact Hcore]).
    assert (PreSync s0 e p w) as Hps0 by (eapply view_presync; [symmetry; exact Hv0|exact Hps]).
    destruct (feed_presync s0 e p w Hc0 Hps0) as (Hsync & Hout' & HW').
    destruct (view_link _ _ Hv0) as (L1 & L2 & _). destruct (link_feed s0 p w) as (L3 & L4).
    destruct (feed_fields s0 p w) as (_ & _ & _ & _ & _ & _ & _ & F8 & _).
    destruct (q' ++ flat_map pg_pkts (rem1 tail s)) as [|p2 r2] eqn:Erest; [rewrite Hst in Hlen; cbn in Hlen; lia|].
    destruct (initprime_from_sync f (feed s0 p w) e p2 r2) as (sp & Hpr & Hpc2 & Hpend & Hlk & Hh).
    + apply core_feed. exact Hc0.
    + apply plain_feed. exact Hpl0.
    + exact Hsync.
    + exact Hout'.
    + rewrite (stream_feed tail), Hst0. reflexivity.
    + rewrite L3, L1, HW'. exact Hin.
    + exists sp. split; [|split; [|split; [exact Hpend|split]]].
      * cbn [initprime]. rewrite (pcmout_core s Hcore), Hp0. change (true && negb (0 =? 0)) with false. cbv iota.
        rewrite Hfe. change (1 <? 0) with false. cbv iota. exact Hpr.
      * rewrite Hpc2. destruct Hsync as (_ & _ & _ & _ & _ & _ & _ & _ & S9 & _). rewrite S9, L4, L2. lia.
      * rewrite Hlk, L3. exact L1.
      * rewrite Hh, F8. unfold view in Hv0. injection Hv0 as V1 _. exact V1.
  - cbv zeta in *. set (d := v_dec s) in *. set (l := cur_link s) in *.
    destruct (Z.eq_dec (d_cur d - d_ret d) 0) as [Hz|Hnz].
    + (* nothing pending: one fetch *)
      pose proof Hcore as (Hhs & Hrs & Hb0 & Hb1 & Hb01 & Hm0 & Hm1 & Hi & Hpno).
      destruct (stream tail s) as [|p r] eqn:Est; [cbn in Hlen; lia|].
      rewrite Hz, Z.add_0_r in Htr, Hin.
      assert (SyncInv s e) as Hsy.
      { unfold SyncInv. unfold l, d in *. repeat split; try assumption; try lia. }
      assert (dec_pcmout d = 0) as Hout by (unfold dec_pcmout; destruct ((d_ret d >? -1) && (d_ret d <? d_cur d)) eqn:E; lia).
      destruct (initprime_from_sync (S f) s e p r Hcore Hpl Hsy Hout Est Hin) as (sp & A & B & C & D & E).
      exists sp. repeat split; assumption.
    + exists s. assert (0 < dec_pcmout d) as Hpd by (unfold dec_pcmout; destruct ((d_ret d >? -1) && (d_ret d <? d_cur d)) eqn:E; lia).
      split; [|split; [reflexivity|split; [exact Hpd|split; reflexivity]]].
      cbn [initprime]. rewrite (pcmout_core s Hcore). fold d. assert (negb (dec_pcmout d =? 0) = true) as -> by lia. reflexivity.
Qed.

(* fetch_ns looks at its argument only through make_ready *)
Lemma fetch_ns_make_ready f s : fetch_ns (S f) (make_ready s) = fetch_ns (S f) s.
Proof. cbn [fetch_ns]. rewrite Cross_lemmas.make_ready_idem. reflexivity. Qed.

(* _ov_initprime right after a page or byte seek has landed (decoder dumped or restarted, the first queued
   packet ends at the reported position): two fetches, the position stays *)
Theorem initprime_from_landed s1 pos :
  Landed tail s1 pos -> (2 <= length (stream tail s1))%nat ->
  forall fuel, (3 <= fuel)%nat ->
  exists sp, initprime fuel s1 = (0, sp) /\ v_pcm sp = v_pcm s1 /\ 0 < dec_pcmout (v_dec sp).
Proof.
  intros Hland Hlen fuel Hfuel.
  assert (exists f, fuel = S (S (S f))) as [f Hf] by (exists (fuel - 3)%nat; lia). rewrite Hf.
  destruct (landed_ready tail s1 pos Hland) as (Hc2 & Hpl2 & Hd2 & Hst2 & Hr2 & Hq2).
  set (s2 := make_ready s1) in *.
  destruct Hd2 as (He0 & Hret & Hph).
  assert (cur_link s2 = cur_link s1 /\ base_of s2 (v_link s2) = base_of s1 (v_link s1) /\ v_pcm s2 = v_pcm s1) as (L1 & L2 & L3).
  { unfold s2, make_ready. destruct (v_rs s1 =? STREAMSET); repeat split; reflexivity. }
  rewrite L1, L2, L3 in Hph. rewrite L2, L3 in He0.
  set (e := v_pcm s1 - base_of s1 (v_link s1)) in *.
  destruct Hph as [(_ & Hseq & Hin2 & Hre2 & _)|(Hlb & _)].
  2: { exfalso. destruct Hc2 as (_ & _ & B0 & B1 & _). rewrite L1 in B0, B1. unfold blocksize in Hlb. destruct (d_W (v_dec s2)); lia. }
  destruct (stream tail s2) as [|p r] eqn:Est; [exfalso; exact Hre2|].
  cbn [IntactS] in Hin2. destruct Hin2 as (w & Hw & Heos & Hg & Hrest).
  assert (Forall audio (stream tail s2)) as Hau.
  { rewrite Est. constructor; [exists w; exact Hw|]. eapply intact_audio. exact Hrest. }
  pose proof Hc2 as (_ & Hrs2 & _).
  destruct (fetch_ns_plain (fetch_fuel s2) s2 p r Hrs2 Hpl2 Hau) as (w' & s0 & Hw' & Hfe & Hv0 & Hst0 & Hpl0);
    [unfold fetch_fuel; destruct (stream_bound tail s2 Hpl2) as [B1 B2]; lia|exact Est|].
  rewrite Hw in Hw'. injection Hw' as <-.
  assert (Core s0) as Hc0 by (eapply view_core; [symmetry; exact Hv0|exact Hc2]).
  assert (PreSync s2 e p w) as Hps.
  { unfold PreSync. rewrite L1, L2, L3. repeat split; try assumption; try (unfold e; lia). }
  assert (PreSync s0 e p w) as Hps0 by (eapply view_presync; [symmetry; exact Hv0|exact Hps]).
  destruct (feed_presync s0 e p w Hc0 Hps0) as (Hsync & Hout & HW).
  destruct (link_feed s0 p w) as (L3' & L4). destruct (view_link _ _ Hv0) as (L5 & L6 & _).
  (* the first round of initprime: nothing pending, fetch *)
  assert (fetch_ns (fetch_fuel s1) s1 = (1, feed s0 p w)) as Hfe1.
  { assert (fetch_fuel s1 = fetch_fuel s2) as -> by (unfold fetch_fuel; rewrite Hr2, Hq2; reflexivity).
    unfold fetch_fuel in *. rewrite Nat.add_succ_r in *. rewrite <- fetch_ns_make_ready. exact Hfe. }
  assert ((v_rs s1 =? INITSET) && negb (dec_pcmout (v_dec s1) =? 0) = false) as Hc1.
  { destruct Hland as (_ & [Hrs|(Hrs & Hr1 & _)] & _); rewrite Hrs; [reflexivity|].
    unfold dec_pcmout. rewrite Hr1. reflexivity. }
  destruct r as [|p2 r2]; [rewrite <- Hst2 in Hlen; cbn in Hlen; lia|].
  destruct (initprime_from_sync f (feed s0 p w) e p2 r2) as (sp & Hpr & Hpc2 & Hpend & _).
  - apply core_feed. exact Hc0.
  - apply plain_feed. exact Hpl0.
  - exact Hsync.
  - exact Hout.
  - rewrite (stream_feed tail), Hst0. reflexivity.
  - rewrite L3', L5, L1, HW. exact Hrest.
  - exists sp. split; [|split; [|exact Hpend]].
    + cbn [initprime]. rewrite Hc1, Hfe1. change (1 <? 0) with false. cbv iota. exact Hpr.
    + rewrite Hpc2. destruct Hsync as (_ & _ & _ & _ & _ & _ & _ & _ & S9 & _). rewrite S9, L4, L6, L2. unfold e. lia.
Qed.

End TailL.

(* the state a lapped seek hands to the plain seek, when setting up succeeds: decoder set up, lapping data taken *)
Definition lap_pre (s : vfs) : option vfs :=
  match initset (lap_fuel s) s with
  | (rc, s1) =>
      if negb (rc =? 0) then None
      else
        let n1 := Z.shiftr (li_bs0 (cur_link s1)) (1 + v_hs s1) in
        let '(s2, cnt) := getlap (lap_fuel s1 + Z.to_nat n1) s1 0 n1 in
        Some (if cnt <? n1 then set_dec s2 (snd (dec_lapout (cur_cfg s2) (v_dec s2))) else s2)
  end.

Lemma seek_lap_pre seek s pos s2 : lap_pre s = Some s2 ->
  seek_lap seek s pos =
  match seek s2 pos with
  | (rc, s3) => if negb (rc =? 0) then (rc, s3)
                else match initprime (lap_fuel s3) s3 with
                     | (rc, s4) => if negb (rc =? 0) then (rc, s4)
                                   else (0, set_dec s4 (snd (dec_lapout (cur_cfg s4) (v_dec s4))))
                     end
  end.
Proof.
  unfold lap_pre, seek_lap. destruct (initset (lap_fuel s) s) as [rc s1].
  destruct (negb (rc =? 0)); [discriminate|].
  destruct (getlap _ s1 0 _) as [s2a cnt]. intros H. injection H as <-. reflexivity.
Qed.

(* a lapped sample seek lands where the plain seek lands: exactly on the target *)
Theorem lap_seek_lands s pos s2 :
  OPENED <= v_rs s -> 0 <= pos <= pcm_total s -> lap_pre s = Some s2 -> seek_hyps s2 pos = true ->
  (2 <= length (stream (auto_tail (snd (pcm_seek_page s2 pos))) (snd (pcm_seek s2 pos))))%nat ->
  fst (pcm_seek_lap s pos) = 0 /\ v_pcm (snd (pcm_seek_lap s pos)) = pos.
Proof.
  intros Hrs Hpos Hpre Hhyp Hlen.
  unfold pcm_seek_lap. destruct (v_rs s <? OPENED) eqn:E0; [lia|].
  destruct ((pos <? 0) || (pos >? pcm_total s)) eqn:E1; [lia|].
  rewrite (seek_lap_pre pcm_seek s pos s2 Hpre).
  destruct (pcm_seek_checked s2 pos Hhyp) as (A & B & T).
  destruct (pcm_seek s2 pos) as [rc s3] eqn:Es. cbn [fst snd] in *. subst rc. change (negb (0 =? 0)) with false. cbv iota.
  destruct (initprime_keeps_position _ s3 pos T Hlen (lap_fuel s3)) as (sp & Hip & Hpc & Hpend & _); [unfold lap_fuel; lia|].
  rewrite Hip. change (negb (0 =? 0)) with false. cbv iota. cbn [fst snd v_pcm set_dec].
  split; [reflexivity|lia].
Qed.

(* a lapped seek fails with the plain seek's code wherever that seek, applied after the set-up, fails; and
   rejects out-of-range targets as the plain seek does, leaving the state alone *)
Theorem lap_seek_fails_like_plain s pos s2 rc s3 :
  OPENED <= v_rs s -> 0 <= pos <= pcm_total s -> lap_pre s = Some s2 ->
  pcm_seek s2 pos = (rc, s3) -> rc <> 0 -> pcm_seek_lap s pos = (rc, s3).
Proof.
  intros Hrs Hpos Hpre Hs Hrc.
  unfold pcm_seek_lap. destruct (v_rs s <? OPENED) eqn:E0; [lia|].
  destruct ((pos <? 0) || (pos >? pcm_total s)) eqn:E1; [lia|].
  rewrite (seek_lap_pre pcm_seek s pos s2 Hpre), Hs.
  destruct (negb (rc =? 0)) eqn:E; [reflexivity|lia].
Qed.
Theorem lap_seek_rejects_out_of_range s pos :
  pos < 0 \/ pos > pcm_total s -> pcm_seek_lap s pos = (OV_EINVAL_, s) /\ pcm_seek_page_lap s pos = (OV_EINVAL_, s).
Proof.
  intros H. unfold pcm_seek_lap, pcm_seek_page_lap. destruct (v_rs s <? OPENED); [split; reflexivity|].
  destruct ((pos <? 0) || (pos >? pcm_total s)) eqn:E; [split; reflexivity|lia].
Qed.

(* the hypotheses of lap_seek_lands as one executable test *)
Definition lap_hyps (s : vfs) (pos : Z) : bool :=
  (OPENED <=? v_rs s) && (0 <=? pos) && (pos <=? pcm_total s) &&
  match lap_pre s with
  | None => false
  | Some s2 => seek_hyps s2 pos &&
               (2 <=? Z.of_nat (length (stream (auto_tail (snd (pcm_seek_page s2 pos))) (snd (pcm_seek s2 pos)))))
  end.
Theorem lap_seek_checked s pos : lap_hyps s pos = true ->
  fst (pcm_seek_lap s pos) = 0 /\ v_pcm (snd (pcm_seek_lap s pos)) = pos.
Proof.
  unfold lap_hyps. intros H. repeat (apply andb_prop in H; let H' := fresh "C" in destruct H as [H H']).
  destruct (lap_pre s) as [s2|] eqn:Ep; [|discriminate]. apply andb_prop in C. destruct C as [C3 C4].
  apply (lap_seek_lands s pos s2); try lia; try assumption; try reflexivity.
Qed.

(* any lapped seek whose plain seek (after the set-up) lands on an intact run with two packets to prime from:
   it returns 0 and reports the position that seek reports - page and byte seeks land this way
   (Seek_lemmas.pcm_seek_page_truthful, raw_seek_truthful, raw_seek_truthful_other_link) *)
Theorem lap_seek_lands_where_plain_lands (tail : list page) seek s pos s2 s3 pos' :
  lap_pre s = Some s2 -> seek s2 pos = (0, s3) -> Landed tail s3 pos' -> (2 <= length (stream tail s3))%nat ->
  fst (seek_lap seek s pos) = 0 /\ v_pcm (snd (seek_lap seek s pos)) = v_pcm s3.
Proof.
  intros Hpre Hs Hland Hlen.
  rewrite (seek_lap_pre seek s pos s2 Hpre), Hs. change (negb (0 =? 0)) with false. cbv iota.
  destruct (initprime_from_landed tail s3 pos' Hland Hlen (lap_fuel s3)) as (sp & Hip & Hpc & _); [unfold lap_fuel; lia|].
  rewrite Hip. change (negb (0 =? 0)) with false. cbv iota. cbn [fst snd v_pcm set_dec]. split; [reflexivity|exact Hpc].
Qed.
