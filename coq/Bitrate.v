(* M10: the hard min/max part of vorbis_bitrate_addblock (lib/bitrate.c) over
   integers.  The candidate packet sizes (PACKETBLOBS of them, in bytes), the
   block flag and the choice left by the average-bitrate floater (a double
   computation in the C code) are inputs: the theorems hold for all of them.
   Definitions only. *)
From Coq Require Export List ZArith Bool Lia.
Export ListNotations.
Local Open Scope Z_scope.

Record bparams := {
  p_min : Z;            (* min_bitsper: bits per short half-block, 0 = no hard minimum *)
  p_max : Z;            (* max_bitsper, 0 = no hard maximum *)
  p_spl : Z;            (* short_per_long *)
  p_res : Z;            (* reservoir_bits *)
  p_fill : Z }.         (* desired_fill = reservoir_bits * reservoir_bias *)

Definition nblobs : Z := 15.
Definition size_at (sizes : list Z) (i : Z) : Z := nth (Z.to_nat i) sizes 0.
Definition cdiv8 (x : Z) : Z := Z.quot x 8.

(* force the bitrate up: while(reservoir-(min_target-this)<0){choice++; if(choice>=PACKETBLOBS)break; this=...} *)
Fixpoint up_loop (fuel : nat) (sizes : list Z) (r mint : Z) (choice this : Z) : Z * Z :=
  match fuel with
  | O => (choice, this)
  | S f =>
      if r - (mint - this) <? 0 then
        let c := choice + 1 in
        if c >=? nblobs then (c, this) else up_loop f sizes r mint c (8 * size_at sizes c)
      else (choice, this)
  end.

Fixpoint down_loop (fuel : nat) (sizes : list Z) (r maxt res : Z) (choice this : Z) : Z * Z :=
  match fuel with
  | O => (choice, this)
  | S f =>
      if r + (this - maxt) >? res then
        let c := choice - 1 in
        if c <? 0 then (c, this) else down_loop f sizes r maxt res c (8 * size_at sizes c)
      else (choice, this)
  end.

Definition stage1 (p : bparams) (r : Z) (sizes : list Z) (mint : Z) (c0 this0 : Z) : Z * Z :=
  if (p_min p >? 0) && (this0 <? mint) then up_loop 16 sizes r mint c0 this0 else (c0, this0).

Definition stage2 (p : bparams) (r : Z) (sizes : list Z) (maxt : Z) (c1 this1 : Z) : Z * Z :=
  if (p_max p >? 0) && (this1 >? maxt) then down_loop 16 sizes r maxt (p_res p) c1 this1 else (c1, this1).

(* boundary handling: truncate the smallest candidate, or pad the chosen one *)
Definition stage3 (p : bparams) (r : Z) (sizes : list Z) (mint maxt : Z) (c2 this2 : Z) : Z * Z :=
  if c2 <? 0 then
    let maxsize := cdiv8 (maxt + (p_res p - r)) in
    (0, if size_at sizes 0 >? maxsize then 8 * maxsize else this2)
  else
    let minsize := cdiv8 (mint - r + 7) in
    let c := if c2 >=? nblobs then nblobs - 1 else c2 in
    let bytes := size_at sizes c in
    (c, 8 * (if minsize >? bytes then minsize else bytes)).

Definition update (p : bparams) (r mint maxt this : Z) : Z :=
  if (p_min p >? 0) || (p_max p >? 0) then
    if (maxt >? 0) && (this >? maxt) then r + (this - maxt)
    else if (mint >? 0) && (this <? mint) then r + (this - mint)
    else if r >? p_fill p then
      if maxt >? 0 then (let x := r + (this - maxt) in if x <? p_fill p then p_fill p else x) else p_fill p
    else
      if mint >? 0 then (let x := r + (this - mint) in if x >? p_fill p then p_fill p else x) else p_fill p
  else r.

(* one block: returns (choice stored in bm->choice, final packet bits, new minmax_reservoir) *)
Definition addblock (p : bparams) (r : Z) (sizes : list Z) (w : bool) (c0 : Z) : Z * Z * Z :=
  let mint := if w then p_min p * p_spl p else p_min p in
  let maxt := if w then p_max p * p_spl p else p_max p in
  let (c1, this1) := stage1 p r sizes mint c0 (8 * size_at sizes c0) in
  let (c2, this2) := stage2 p r sizes maxt c1 this1 in
  let (choice, this) := stage3 p r sizes mint maxt c2 this2 in
  (choice, this, update p r mint maxt this).

(* a whole run: blocks = list of (sizes, W, floater choice); returns the final
   reservoir and per block (bits emitted, min target, max target) *)
Fixpoint run (p : bparams) (r : Z) (blocks : list (list Z * bool * Z)) : Z * list (Z * Z * Z) :=
  match blocks with
  | [] => (r, [])
  | (sizes, w, c0) :: rest =>
      let '(_, this, r') := addblock p r sizes w c0 in
      let '(rf, out) := run p r' rest in
      (rf, (this, (if w then p_min p * p_spl p else p_min p), (if w then p_max p * p_spl p else p_max p)) :: out)
  end.

Definition sum_bits (out : list (Z * Z * Z)) : Z := fold_right (fun x a => fst (fst x) + a) 0 out.
Definition sum_min (out : list (Z * Z * Z)) : Z := fold_right (fun x a => snd (fst x) + a) 0 out.
Definition sum_max (out : list (Z * Z * Z)) : Z := fold_right (fun x a => snd x + a) 0 out.
