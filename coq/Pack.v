(* M2b: the header packers of lib/info.c, lib/codebook.c, lib/floor1.c,
   lib/res0.c, lib/mapping0.c (what the encoder writes).  Definitions only.
   Floor 0 has no packer in the reference code (the encoder cannot emit it). *)
From VV Require Import SrcFacts Bits Comment Setup.
From Coq Require Import ZArith List Bool.
Import ListNotations.
Local Open Scope Z_scope.

(* oggpack_write(v, w): the low w bits of v, least significant first *)
Definition wr (w : nat) (v : Z) : bits := bits_of w (Z.to_N (v mod 2 ^ Z.of_nat w)).

(* is the length list written in the ordered form?  for(i=1;i<entries;i++) if(l[i-1]==0 || l[i]<l[i-1]) break; *)
Fixpoint ordered_from (prev : Z) (l : list Z) : bool :=
  match l with
  | [] => true
  | x :: r => if (prev =? 0) || (x <? prev) then false else ordered_from x r
  end.
Definition is_ordered (lens : list Z) : bool :=
  match lens with [] => false | x :: r => ordered_from x r end.    (* entries = 0: i=1 <> entries, unordered *)

(* the run counts of the ordered form: for every length step from last to this a count is written *)
Fixpoint pack_ordered_runs (entries : Z) (l : list Z) (i count last : Z) : bits :=
  match l with
  | [] => wr (ilogn (entries - count)) (i - count)
  | this :: r =>
      (if this >? last then
         (* first the real count, then empty runs for the skipped lengths *)
         wr (ilogn (entries - count)) (i - count) ++
         flat_map (fun _ => wr (ilogn (entries - i)) 0) (seq 0 (Z.to_nat (this - last - 1)))
       else []) ++
      pack_ordered_runs entries r (i + 1) (if this >? last then i else count) this
  end.

Definition pack_lengths (entries : Z) (lens : list Z) : bits :=
  if is_ordered lens then
    match lens with
    | [] => []
    | l0 :: r => wr 1 1 ++ wr 5 (l0 - 1) ++ pack_ordered_runs entries r 1 0 l0
    end
  else
    wr 1 0 ++
    (if existsb (fun l => l =? 0) lens then
       wr 1 1 ++ flat_map (fun l => if l =? 0 then wr 1 0 else wr 1 1 ++ wr 5 (l - 1)) lens
     else wr 1 0 ++ flat_map (fun l => wr 5 (l - 1)) lens).

Definition pack_book (b : book) : bits :=
  wr 24 5653314 ++ wr 16 (b_dim b) ++ wr 24 (b_entries b) ++
  pack_lengths (b_entries b) (b_lengths b) ++
  wr 4 (b_maptype b) ++
  (if (b_maptype b =? 1) || (b_maptype b =? 2) then
     wr 32 (b_qmin b) ++ wr 32 (b_qdelta b) ++ wr 4 (b_qquant b - 1) ++ wr 1 (b_qseq b) ++
     flat_map (fun q => wr (Z.to_nat (b_qquant b)) q) (b_quantlist b)
   else []).

Definition pack_class (c : fclass) : bits :=
  wr 3 (c_dim c - 1) ++ wr 2 (c_subs c) ++
  (if c_subs c =? 0 then [] else wr 8 (c_book c)) ++
  flat_map (fun s => wr 8 (s + 1)) (c_subbook c).

Definition pack_floor1_body (pc : list Z) (classes : list fclass) (mult rangebits : Z) (posts : list Z) : bits :=
  wr 5 (Z.of_nat (length pc)) ++ flat_map (wr 4) pc ++
  flat_map pack_class classes ++
  wr 2 (mult - 1) ++ wr 4 rangebits ++ flat_map (wr (Z.to_nat rangebits)) posts.
Definition pack_floor (f : Setup.floor) : bits :=
  match f with
  | Floor0 _ _ _ _ _ _ => []          (* not packable *)
  | Floor1 pc classes mult rangebits posts => wr 16 1 ++ pack_floor1_body pc classes mult rangebits posts
  end.

Definition pack_cascade (c : Z) : bits :=
  if ilog c >? 3 then wr 3 c ++ wr 1 1 ++ wr 5 (Z.shiftr c 3) else wr 4 c.

Definition pack_residue_body (r : residue) : bits :=
  wr 24 (r_begin r) ++ wr 24 (r_end r) ++ wr 24 (r_grouping r - 1) ++ wr 6 (r_partitions r - 1) ++ wr 8 (r_groupbook r) ++
  flat_map pack_cascade (r_secondstages r) ++ flat_map (wr 8) (r_booklist r).
Definition pack_residue (r : residue) : bits := wr 16 (r_type r) ++ pack_residue_body r.

Definition pack_mapping_body (channels : Z) (m : mapping) : bits :=
  (if m_submaps m >? 1 then wr 1 1 ++ wr 4 (m_submaps m - 1) else wr 1 0) ++
  (match m_coupling m with
   | [] => wr 1 0
   | cp => wr 1 1 ++ wr 8 (Z.of_nat (length cp) - 1) ++
           flat_map (fun p => wr (ilogn (channels - 1)) (fst p) ++ wr (ilogn (channels - 1)) (snd p)) cp
   end) ++
  wr 2 0 ++
  (if m_submaps m >? 1 then flat_map (wr 4) (m_mux m) else []) ++
  flat_map (fun p => wr 8 0 ++ wr 8 (fst p) ++ wr 8 (snd p)) (combine (m_floor m) (m_residue m)).
Definition pack_mapping (channels : Z) (m : mapping) : bits := wr 16 0 ++ pack_mapping_body channels m.

Definition pack_mode (m : mode) : bits :=
  wr 1 (md_blockflag m) ++ wr 16 0 ++ wr 16 0 ++ wr 8 (md_mapping m).

(* the set-up header body (after the 7-byte head) *)
Definition pack_setup (channels : Z) (s : setup) : bits :=
  wr 8 (Z.of_nat (length (s_books s)) - 1) ++ flat_map pack_book (s_books s) ++
  wr 6 0 ++ wr 16 0 ++
  wr 6 (Z.of_nat (length (s_floors s)) - 1) ++ flat_map pack_floor (s_floors s) ++
  wr 6 (Z.of_nat (length (s_residues s)) - 1) ++ flat_map pack_residue (s_residues s) ++
  wr 6 (Z.of_nat (length (s_maps s)) - 1) ++ flat_map (pack_mapping channels) (s_maps s) ++
  wr 6 (Z.of_nat (length (s_modes s)) - 1) ++ flat_map pack_mode (s_modes s) ++
  wr 1 1.

Definition pack_ident (i : ident) : bits :=
  wr 32 0 ++ wr 8 (i_channels i) ++ wr 32 (i_rate i) ++ wr 32 (i_upper i) ++ wr 32 (i_nominal i) ++ wr 32 (i_lower i) ++
  wr 4 (ilog (i_bs0 i - 1)) ++ wr 4 (ilog (i_bs1 i - 1)) ++ wr 1 1.

(* whole packets, as bytes *)
Definition head (t : N) : list N := t :: vorbis_str.
Definition setup_packet (channels : Z) (s : setup) : list N := head 5 ++ bytes_of_bits (pack_setup channels s).
Definition ident_packet (i : ident) : list N := head 1 ++ bytes_of_bits (pack_ident i).
