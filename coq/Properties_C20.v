(* C20  Half-rate decoding halves the sample count and keeps positions truthful.
   Besides the count (ceil(N/2) per link, Blocking.v) and the bookkeeping facts below, SeekH_lemmas.v redoes
   the synchronisation and seek proofs of C07 with the half-rate flag set: linear reading of intact packets
   delivers half the block step per packet and advances the position by two per sample; ov_pcm_seek on an
   intact run reports a position at or below the target, less than one output sample below it, and truthful. *)
From VV Require Import Blocking Blocking_lemmas VFile VFile_lemmas Term_lemmas VFileDemo Sync_lemmas Seek_lemmas SeekH_lemmas.
From Coq Require Import List.
Import ListNotations.
From Coq Require Import ZArith Lia.
Local Open Scope Z_scope.

(* every link of N samples (any well-formed final sequence of blocks: all block
   sizes divisible by 8, all window sequences) yields ceil(N/2) samples *)
Theorem C20_half_count :
  forall c N bl, WFh c -> hs c = 1 -> 0 <= N -> FinalSeq c N bl ->
    snd (dec_run c (map to_dblock bl)) = (N + 1) / 2.
Proof. exact dec_run_final_half. Qed.
Print Assumptions C20_half_count.

(* positions stay in full-rate samples: a read of n samples advances by 2n *)
Theorem C20_positions_advance_by_two :
  forall f s len, v_rs s = INITSET -> v_hs s = 1 -> 0 < dec_pcmout (v_dec s) ->
    let avail := dec_pcmout (v_dec s) in
    let n := if avail >? len then len else avail in
    exists s', read_float (S f) s len = (n, v_link s, s') /\ v_pcm s' = v_pcm s + 2 * n.
Proof.
  intros f s len Hrs Hhs Hav. cbv zeta.
  destruct (read_consumes f s len Hrs Hav) as (s' & E & P & _).
  exists s'. split; [exact E|]. rewrite P, Hhs. rewrite Z.shiftl_mul_pow2 by lia. change (2 ^ 1) with 2. lia.
Qed.
Print Assumptions C20_positions_advance_by_two.

(* switching on is refused - nothing at all changes - when a link has 64-sample short blocks *)
Theorem C20_refused_with_64_sample_blocks :
  forall s, existsb (fun l => li_bs0 l <=? 64) (v_links s) = true -> halfrate s true = (OV_EINVAL_, s).
Proof. intros s H. unfold halfrate. rewrite H. reflexivity. Qed.
Print Assumptions C20_refused_with_64_sample_blocks.

(* totals are unaffected by the flag *)
Theorem C20_totals_unchanged :
  forall s flag, pcm_total (snd (halfrate s flag)) = pcm_total s.
Proof. exact halfrate_total. Qed.
Print Assumptions C20_totals_unchanged.

(* any page table, any handle state, half rate: a sample seek that reports success lands less than one output
   sample (two positions) below the target - at worst on the position just below an even target when the
   link's positions sit on the odd grid; and the loops it runs terminate (C03_pcm_seek_terminates) *)
Theorem C20_half_rate_seek_within_one_sample :
  forall s pos, v_hs s = 1 -> fst (pcm_seek s pos) = 0 -> pos - 2 < v_pcm (snd (pcm_seek s pos)).
Proof. intros s pos Hh H. pose proof (pcm_seek_not_short s pos ltac:(lia) H) as B. rewrite Hh in B. exact B. Qed.
Print Assumptions C20_half_rate_seek_within_one_sample.

(* half rate, any number of intact packets of a link: each delivers half its block step, the position advances
   by two per sample delivered, and the handle stays in sync *)
Theorem C20_half_rate_linear_read_truthful :
  forall ps s here, SyncInvH s here -> intact_seq_h s here ps ->
    let '(s', ns) := run_link_h s ps in
    let total := fold_right Z.add 0 ns in
    SyncInvH s' (here + 2 * total) /\ v_pcm s' = v_pcm s + 2 * total /\ Forall (fun n => 0 <= n) ns.
Proof. exact linear_read_sync_h. Qed.
Print Assumptions C20_half_rate_linear_read_truthful.

(* half rate, sample seek on an intact run *)
Theorem C20_half_rate_seek_truthful_on_intact_run :
  forall (tail : list page) s pos s1,
    v_hs s = 1 -> OPENED <= v_rs s <= INITSET ->
    pcm_seek_page s pos = (0, s1) -> fallback s pos = false -> FileIntactH tail s1 pos ->
    fst (pcm_seek s pos) = 0 /\ TruthfulH tail (snd (pcm_seek s pos)) pos /\ pos - 2 < v_pcm (snd (pcm_seek s pos)) <= pos.
Proof. exact pcm_seek_intact_h. Qed.
Print Assumptions C20_half_rate_seek_truthful_on_intact_run.

Theorem C20_half_rate_seek_checked :
  forall s pos, seek_hyps_h s pos = true ->
    fst (pcm_seek s pos) = 0 /\ pos - 2 < v_pcm (snd (pcm_seek s pos)) <= pos /\
    TruthfulH (auto_tail (snd (pcm_seek_page s pos))) (snd (pcm_seek s pos)) pos.
Proof. exact pcm_seek_checked_h. Qed.
Print Assumptions C20_half_rate_seek_checked.

(* half rate: page seek and byte seek land the handle; the first fetch after landing is in sync at the reported position *)
Theorem C20_half_rate_page_seek_lands :
  forall (tail : list page) s pos s1,
    v_hs s = 1 -> OPENED <= v_rs s <= INITSET ->
    pcm_seek_page s pos = (0, s1) -> fallback s pos = false -> FileIntactH tail s1 pos ->
    v_pcm s1 <= pos /\ LandedH tail s1 pos.
Proof. exact pcm_seek_page_truthful_h. Qed.
Print Assumptions C20_half_rate_page_seek_lands.

Theorem C20_half_rate_landed_then_fetch_in_sync :
  forall (tail : list page) s1 pos, LandedH tail s1 pos ->
    let s2 := make_ready s1 in
    let e := v_pcm s1 - base_of s1 (v_link s1) in
    exists p r w s0,
      stream tail s2 = p :: r /\ pk_W p = Some w /\
      fetch (fetch_fuel s2) s2 = (1, feed s0 p w) /\
      SyncInvH (feed s0 p w) e /\ dec_pcmout (v_dec (feed s0 p w)) = 0 /\ v_pcm (feed s0 p w) = v_pcm s1 /\
      IntactS (cur_link s1) false e w r.
Proof. exact landed_fetch_h. Qed.
Print Assumptions C20_half_rate_landed_then_fetch_in_sync.

Theorem C20_half_rate_raw_seek_lands :
  forall (tail : list page) s pos pg (r1 : list page) e0,
    let l := cur_link s in
    let pk := if pg_cont pg then tl (pg_pkts pg) else pg_pkts pg in
    v_hs s = 1 -> v_rs s >= STREAMSET -> v_rs s <= INITSET ->
    0 <= pos <= file_end s -> li_off l <= pos < li_end l ->
    pages_from (v_pages s) pos = pg :: r1 ++ tail ->
    plain (v_serial s) pg -> pg_eos pg = false -> Forall (plain (v_serial s)) r1 ->
    0 < li_bs0 l -> 0 < li_bs1 l -> li_bs0 l <= li_bs1 l -> li_bs0 l mod 8 = 0 -> li_bs1 l mod 8 = 0 -> 0 <= li_init l ->
    0 <= e0 -> IntactS l true e0 false (pk ++ flat_map pg_pkts r1) -> scan_acc l 0 0 pk <> None ->
    let s' := snd (raw_seek s pos) in
    fst (raw_seek s pos) = 0 /\ v_pcm s' = base_of s (v_link s) + e0 /\ LandedH tail s' (v_pcm s').
Proof. exact raw_seek_truthful_h. Qed.
Print Assumptions C20_half_rate_raw_seek_lands.

Theorem C20_truthful_pending_half_rate :
  forall (tail : list page) s pos, NReadyH tail s pos ->
    exists e, v_pcm s = base_of s (v_link s) + e /\
      let '(n, s2) := drainH s in 0 <= n /\ SyncInvH s2 (e + 2 * n) /\ v_pcm s2 = v_pcm s + 2 * n.
Proof. exact nready_drain_h. Qed.
Print Assumptions C20_truthful_pending_half_rate.

(* non-vacuity: the half-rate demo link: the hypotheses hold for every target up to the last granule position
   before the final page, and the seek lands on the even position at or below the target *)
Example C20_seek_hyps_nonvacuous :
  forallb (fun k => seek_hyps_h demo3 (Z.of_nat k) && (v_pcm (snd (pcm_seek demo3 (Z.of_nat k))) =? 2 * (Z.of_nat k / 2))) (seq 0 2689) = true.
Proof. vm_compute. reflexivity. Qed.

Example C20_demo_refused : fst (halfrate demo true) = OV_EINVAL_.
Proof. vm_compute. reflexivity. Qed.
Example C20_nonvacuous_wfh : WFh {| bs0 := 256; bs1 := 2048; hs := 1 |}.
Proof. unfold WFh, WF; cbn. split; [lia|right; repeat split; reflexivity]. Qed.
