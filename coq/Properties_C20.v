(* C20  Half-rate decoding halves the sample count and keeps positions truthful. *)
From VV Require Import Blocking Blocking_lemmas VFile VFile_lemmas Term_lemmas VFileDemo.
From Coq Require Import ZArith Lia.
Local Open Scope Z_scope.

(* every link of N samples (any well-formed final sequence of blocks: all block
   sizes divisible by 8, all window sequences) yields ceil(N/2) samples *)
Theorem C20_half_count :
  forall c N bl, WFh c -> hs c = 1 -> 0 <= N -> FinalSeq c N bl ->
    snd (dec_run c (map to_dblock bl)) = (N + 1) / 2.
Proof. exact dec_run_final_half. Qed.
Print Assumptions C20_half_count.

(* positions stay in full-rate samples: a read of n samples advances by 2n *)
Theorem C20_positions_advance_by_two :
  forall f s len, v_rs s = INITSET -> v_hs s = 1 -> 0 < dec_pcmout (v_dec s) ->
    let avail := dec_pcmout (v_dec s) in
    let n := if avail >? len then len else avail in
    exists s', read_float (S f) s len = (n, v_link s, s') /\ v_pcm s' = v_pcm s + 2 * n.
Proof.
  intros f s len Hrs Hhs Hav. cbv zeta.
  destruct (read_consumes f s len Hrs Hav) as (s' & E & P & _).
  exists s'. split; [exact E|]. rewrite P, Hhs. rewrite Z.shiftl_mul_pow2 by lia. change (2 ^ 1) with 2. lia.
Qed.
Print Assumptions C20_positions_advance_by_two.

(* switching on is refused - nothing at all changes - when a link has 64-sample short blocks *)
Theorem C20_refused_with_64_sample_blocks :
  forall s, existsb (fun l => li_bs0 l <=? 64) (v_links s) = true -> halfrate s true = (OV_EINVAL_, s).
Proof. intros s H. unfold halfrate. rewrite H. reflexivity. Qed.
Print Assumptions C20_refused_with_64_sample_blocks.

(* totals are unaffected by the flag *)
Theorem C20_totals_unchanged :
  forall s flag, pcm_total (snd (halfrate s flag)) = pcm_total s.
Proof. exact halfrate_total. Qed.
Print Assumptions C20_totals_unchanged.

(* any page table, any handle state, half rate: a sample seek that reports success lands less than one output
   sample (two positions) below the target - at worst on the position just below an even target when the
   link's positions sit on the odd grid; and the loops it runs terminate (C03_pcm_seek_terminates) *)
Theorem C20_half_rate_seek_within_one_sample :
  forall s pos, v_hs s = 1 -> fst (pcm_seek s pos) = 0 -> pos - 2 < v_pcm (snd (pcm_seek s pos)).
Proof. intros s pos Hh H. pose proof (pcm_seek_not_short s pos ltac:(lia) H) as B. rewrite Hh in B. exact B. Qed.
Print Assumptions C20_half_rate_seek_within_one_sample.

Example C20_demo_refused : fst (halfrate demo true) = OV_EINVAL_.
Proof. vm_compute. reflexivity. Qed.
Example C20_nonvacuous_wfh : WFh {| bs0 := 256; bs1 := 2048; hs := 1 |}.
Proof. unfold WFh, WF; cbn. split; [lia|right; repeat split; reflexivity]. Qed.
