(* C20  Half-rate decoding halves the sample count and keeps positions truthful. *)
From VV Require Import Blocking Blocking_lemmas VFile VFile_lemmas VFileDemo.
Local Open Scope Z_scope.

(* every link of N samples (any well-formed final sequence of blocks: all block
   sizes divisible by 8, all window sequences) yields ceil(N/2) samples *)
Theorem C20_half_count :
  forall c N bl, WFh c -> hs c = 1 -> 0 <= N -> FinalSeq c N bl ->
    snd (dec_run c (map to_dblock bl)) = (N + 1) / 2.
Proof. exact dec_run_final_half. Qed.
Print Assumptions C20_half_count.

(* positions stay in full-rate samples: a read of n samples advances by 2n *)
Theorem C20_positions_advance_by_two :
  forall f s len, v_rs s = INITSET -> v_hs s = 1 -> 0 < dec_pcmout (v_dec s) ->
    let avail := dec_pcmout (v_dec s) in
    let n := if avail >? len then len else avail in
    exists s', read_float (S f) s len = (n, v_link s, s') /\ v_pcm s' = v_pcm s + 2 * n.
Proof.
  intros f s len Hrs Hhs Hav. cbv zeta.
  destruct (read_consumes f s len Hrs Hav) as (s' & E & P & _).
  exists s'. split; [exact E|]. rewrite P, Hhs. rewrite Z.shiftl_mul_pow2 by lia. change (2 ^ 1) with 2. lia.
Qed.
Print Assumptions C20_positions_advance_by_two.

(* switching on is refused - nothing at all changes - when a link has 64-sample short blocks *)
Theorem C20_refused_with_64_sample_blocks :
  forall s, existsb (fun l => li_bs0 l <=? 64) (v_links s) = true -> halfrate s true = (OV_EINVAL_, s).
Proof. intros s H. unfold halfrate. rewrite H. reflexivity. Qed.
Print Assumptions C20_refused_with_64_sample_blocks.

(* totals are unaffected by the flag *)
Theorem C20_totals_unchanged :
  forall s flag, pcm_total (snd (halfrate s flag)) = pcm_total s.
Proof. exact halfrate_total. Qed.
Print Assumptions C20_totals_unchanged.

Example C20_demo_refused : fst (halfrate demo true) = OV_EINVAL_.
Proof. vm_compute. reflexivity. Qed.
Example C20_nonvacuous_wfh : WFh {| bs0 := 256; bs1 := 2048; hs := 1 |}.
Proof. unfold WFh, WF; cbn. split; [lia|right; repeat split; reflexivity]. Qed.
