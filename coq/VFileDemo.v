(* a small two-link page table used by the non-vacuity examples *)
From VV Require Import Blocking VFile.
Local Open Scope Z_scope.
Definition demo_pages : list page :=
  let a w g e := {| pk_W := Some w; pk_gran := g; pk_eos := e |} in
  let h g := {| pk_W := None; pk_gran := g; pk_eos := false |} in
  [ {| pg_off := 0; pg_len := 58; pg_serial := 1; pg_gran := 0; pg_bos := true; pg_eos := false; pg_cont := false; pg_pkts := [h 0] |};
    {| pg_off := 58; pg_len := 100; pg_serial := 1; pg_gran := 0; pg_bos := false; pg_eos := false; pg_cont := false; pg_pkts := [h (-1); h 0] |};
    {| pg_off := 158; pg_len := 30; pg_serial := 1; pg_gran := 32; pg_bos := false; pg_eos := false; pg_cont := false; pg_pkts := [a false (-1) false; a false 32 false] |};
    {| pg_off := 188; pg_len := 30; pg_serial := 1; pg_gran := 176; pg_bos := false; pg_eos := false; pg_cont := false; pg_pkts := [a true 176 false] |};
    {| pg_off := 218; pg_len := 30; pg_serial := 1; pg_gran := 300; pg_bos := false; pg_eos := true; pg_cont := false; pg_pkts := [a false 300 true] |};
    {| pg_off := 248; pg_len := 58; pg_serial := 2; pg_gran := 0; pg_bos := true; pg_eos := false; pg_cont := false; pg_pkts := [h 0] |};
    {| pg_off := 306; pg_len := 100; pg_serial := 2; pg_gran := 0; pg_bos := false; pg_eos := false; pg_cont := false; pg_pkts := [h (-1); h 0] |};
    {| pg_off := 406; pg_len := 40; pg_serial := 2; pg_gran := 128; pg_bos := false; pg_eos := true; pg_cont := false; pg_pkts := [a false (-1) false; a false (-1) false; a false 128 true] |} ].
Definition demo : vfs := open_file demo_pages [(1, 64, 512); (2, 256, 256)] 0.
