(* a small two-link page table used by the non-vacuity examples *)
From VV Require Import Blocking VFile.
Local Open Scope Z_scope.
Definition demo_pages : list page :=
  let a w g e := {| pk_W := Some w; pk_gran := g; pk_eos := e |} in
  let h g := {| pk_W := None; pk_gran := g; pk_eos := false |} in
  [ {| pg_off := 0; pg_len := 58; pg_serial := 1; pg_gran := 0; pg_bos := true; pg_eos := false; pg_cont := false; pg_pkts := [h 0] |};
    {| pg_off := 58; pg_len := 100; pg_serial := 1; pg_gran := 0; pg_bos := false; pg_eos := false; pg_cont := false; pg_pkts := [h (-1); h 0] |};
    {| pg_off := 158; pg_len := 30; pg_serial := 1; pg_gran := 32; pg_bos := false; pg_eos := false; pg_cont := false; pg_pkts := [a false (-1) false; a false 32 false] |};
    {| pg_off := 188; pg_len := 30; pg_serial := 1; pg_gran := 176; pg_bos := false; pg_eos := false; pg_cont := false; pg_pkts := [a true 176 false] |};
    {| pg_off := 218; pg_len := 30; pg_serial := 1; pg_gran := 300; pg_bos := false; pg_eos := true; pg_cont := false; pg_pkts := [a false 300 true] |};
    {| pg_off := 248; pg_len := 58; pg_serial := 2; pg_gran := 0; pg_bos := true; pg_eos := false; pg_cont := false; pg_pkts := [h 0] |};
    {| pg_off := 306; pg_len := 100; pg_serial := 2; pg_gran := 0; pg_bos := false; pg_eos := false; pg_cont := false; pg_pkts := [h (-1); h 0] |};
    {| pg_off := 406; pg_len := 40; pg_serial := 2; pg_gran := 128; pg_bos := false; pg_eos := true; pg_cont := false; pg_pkts := [a false (-1) false; a false (-1) false; a false 128 true] |} ].
Definition demo : vfs := open_file demo_pages [(1, 64, 512); (2, 256, 256)] 0.

(* a single link with enough blocks for sample seeks: short/long blocks of 64/512, granule positions on the
   last packet completed on each page, end-of-stream packet alone on the last page *)
Definition demo2_pages : list page :=
  let a w g e := {| pk_W := Some w; pk_gran := g; pk_eos := e |} in
  let h g := {| pk_W := None; pk_gran := g; pk_eos := false |} in
  let pgm off g pk := {| pg_off := off; pg_len := 40; pg_serial := 7; pg_gran := g; pg_bos := false; pg_eos := false; pg_cont := false; pg_pkts := pk |} in
  [ {| pg_off := 0; pg_len := 58; pg_serial := 7; pg_gran := 0; pg_bos := true; pg_eos := false; pg_cont := false; pg_pkts := [h 0] |};
    {| pg_off := 58; pg_len := 100; pg_serial := 7; pg_gran := 0; pg_bos := false; pg_eos := false; pg_cont := false; pg_pkts := [h (-1); h 0] |};
    pgm 158 32 [a false (-1) false; a false 32 false];
    pgm 198 64 [a false 64 false];
    pgm 238 240 [a false (-1) false; a true 240 false];
    pgm 278 496 [a true 496 false];
    pgm 318 672 [a false (-1) false; a false 672 false];
    {| pg_off := 358; pg_len := 40; pg_serial := 7; pg_gran := 700; pg_bos := false; pg_eos := true; pg_cont := false; pg_pkts := [a false 700 true] |} ].
Definition demo2 : vfs := open_file demo2_pages [(7, 64, 512)] 0.
Definition demo2_nth (k : nat) : page :=
  nth k demo2_pages {| pg_off := 0; pg_len := 0; pg_serial := 0; pg_gran := 0; pg_bos := false; pg_eos := false; pg_cont := false; pg_pkts := [] |}.

(* a link for half-rate decoding: block sizes 256/2048, opened with the half-rate flag set *)
Definition demo3_pages : list page :=
  let a w g e := {| pk_W := Some w; pk_gran := g; pk_eos := e |} in
  let h g := {| pk_W := None; pk_gran := g; pk_eos := false |} in
  let pgm off g pk := {| pg_off := off; pg_len := 40; pg_serial := 9; pg_gran := g; pg_bos := false; pg_eos := false; pg_cont := false; pg_pkts := pk |} in
  [ {| pg_off := 0; pg_len := 58; pg_serial := 9; pg_gran := 0; pg_bos := true; pg_eos := false; pg_cont := false; pg_pkts := [h 0] |};
    {| pg_off := 58; pg_len := 100; pg_serial := 9; pg_gran := 0; pg_bos := false; pg_eos := false; pg_cont := false; pg_pkts := [h (-1); h 0] |};
    pgm 158 128 [a false (-1) false; a false 128 false];
    pgm 198 256 [a false 256 false];
    pgm 238 960 [a false (-1) false; a true 960 false];
    pgm 278 1984 [a true 1984 false];
    pgm 318 2688 [a false (-1) false; a false 2688 false];
    {| pg_off := 358; pg_len := 40; pg_serial := 9; pg_gran := 2700; pg_bos := false; pg_eos := true; pg_cont := false; pg_pkts := [a false 2700 true] |} ].
Definition demo3 : vfs := open_file demo3_pages [(9, 256, 2048)] 1.

(* two links: the link of demo2 (serial 7, 700 samples) followed by a second link (serial 8, blocks 256/256,
   200 samples) whose audio spans two pages *)
Definition demo4_pages : list page :=
  let a w g e := {| pk_W := Some w; pk_gran := g; pk_eos := e |} in
  let h g := {| pk_W := None; pk_gran := g; pk_eos := false |} in
  demo2_pages ++
  [ {| pg_off := 398; pg_len := 58; pg_serial := 8; pg_gran := 0; pg_bos := true; pg_eos := false; pg_cont := false; pg_pkts := [h 0] |};
    {| pg_off := 456; pg_len := 100; pg_serial := 8; pg_gran := 0; pg_bos := false; pg_eos := false; pg_cont := false; pg_pkts := [h (-1); h 0] |};
    {| pg_off := 556; pg_len := 40; pg_serial := 8; pg_gran := 128; pg_bos := false; pg_eos := false; pg_cont := false; pg_pkts := [a false (-1) false; a false 128 false] |};
    {| pg_off := 596; pg_len := 40; pg_serial := 8; pg_gran := 200; pg_bos := false; pg_eos := true; pg_cont := false; pg_pkts := [a false 200 true] |} ].
Definition demo4 : vfs := open_file demo4_pages [(7, 64, 512); (8, 256, 256)] 0.
Definition demo4_nth (k : nat) : page :=
  nth k demo4_pages {| pg_off := 0; pg_len := 0; pg_serial := 0; pg_gran := 0; pg_bos := false; pg_eos := false; pg_cont := false; pg_pkts := [] |}.
