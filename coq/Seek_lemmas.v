(* ov_pcm_seek on an intact link leaves the handle truthful: lemmas for C07.
   Developed on top of Sync_lemmas.v (linear reading). *)
From VV Require Import Blocking Blocking_lemmas VFile VFile_lemmas Decoder_lemmas Sync_lemmas.
From Coq Require Import ZArith List Bool Lia ZifyBool.
Import ListNotations.
Local Open Scope Z_scope.
Ltac Zify.zify_post_hook ::= Z.div_mod_to_equations.

(* blockin on a decoder that has nothing to return (right after a restart, or
   while a seek only tracks packets): nothing becomes available, the tracking advances *)
Lemma blockin_quiet c s b :
  0 <= bs0 c -> 0 <= bs1 c -> hs c = 0 ->
  d_ret s = -1 -> k_eof b = false ->
  let stp := bsz c (d_W s) / 4 + bsz c (k_W b) / 4 in
  let lost := (d_seq s =? -1) || negb (d_seq s + 1 =? k_seq b) in
  let gran0 := if lost then -1 else d_gran s in
  let count0 := if lost then -1 else d_count s in
  let count1 := if count0 =? -1 then 0 else count0 + stp in
  (k_gran b = -1 \/ (gran0 = -1 /\ count1 <= k_gran b) \/ (gran0 <> -1 /\ gran0 + stp = k_gran b)) ->
  exists s', dec_blockin c s b = (0, s') /\ dec_pcmout s' = 0 /\
     (if k_pcm b then d_ret s' = d_cur s' /\ 0 <= d_ret s' else d_ret s' = -1) /\
     d_W s' = k_W b /\ d_seq s' = k_seq b /\ d_count s' = count1 /\
     d_gran s' = (if gran0 =? -1 then k_gran b else gran0 + stp).
Proof.
  intros Hb0 Hb1 Hhs Hr He stp lost gran0 count0 count1 Hg.
  unfold dec_blockin. rewrite Hr.
  replace ((d_cur s >? -1) && negb (-1 =? -1)) with false by (cbn; rewrite andb_false_r; reflexivity).
  unfold dec_pcmpart. rewrite Hr. cbn [Z.eqb].
  fold stp. fold lost. fold gran0. fold count0. fold count1.
  set (n1 := Z.shiftr (bs1 c) (hs c + 1)).
  assert (0 <= n1) as Hn1 by (apply Z.shiftr_nonneg; exact Hb1).
  set (thisC := if d_centerW s =? 0 then 0 else n1).
  assert (0 <= thisC) as HtC by (unfold thisC; destruct (d_centerW s =? 0); lia).
  destruct (k_pcm b) eqn:Ep.
  - assert (dec_granule (hs c) gran0 count1 stp b thisC thisC = (if gran0 =? -1 then k_gran b else gran0 + stp, thisC, thisC)) as Hdg.
    { unfold dec_granule. destruct (gran0 =? -1) eqn:Eg.
      - destruct (negb (k_gran b =? -1)) eqn:Ek.
        + rewrite Ep. unfold trim_first. destruct (count1 >? k_gran b) eqn:Ec; [lia|reflexivity].
        + f_equal. f_equal. lia.
      - destruct (negb (k_gran b =? -1) && negb (gran0 + stp =? k_gran b)) eqn:Ek; [lia|reflexivity]. }
    cbn [Pos.eqb]. rewrite Hdg. eexists. split; [reflexivity|].
    unfold dec_pcmout. cbn [d_ret d_cur d_W d_seq d_count d_gran].
    destruct ((thisC >? -1) && (thisC <? thisC)) eqn:E2; [lia|]. repeat split; try reflexivity; lia.
  - assert (dec_granule (hs c) gran0 count1 stp b (-1) (d_cur s) = (if gran0 =? -1 then k_gran b else gran0 + stp, -1, d_cur s)) as Hdg.
    { unfold dec_granule. destruct (gran0 =? -1) eqn:Eg.
      - destruct (negb (k_gran b =? -1)) eqn:Ek.
        + rewrite Ep. reflexivity.
        + f_equal. f_equal. lia.
      - destruct (negb (k_gran b =? -1) && negb (gran0 + stp =? k_gran b)) eqn:Ek; [lia|reflexivity]. }
    rewrite Hdg. eexists. split; [reflexivity|].
    unfold dec_pcmout. cbn [d_ret d_cur d_W d_seq d_count d_gran]. cbn. repeat split; reflexivity.
Qed.


(* ---- what ov_pcm_seek_page leaves behind ---- *)
Definition dflt : linfo := {| li_serial := -1; li_bs0 := 0; li_bs1 := 0; li_off := 0; li_dataoff := 0; li_end := 0; li_init := 0; li_len := 0 |}.

Lemma sum_len_S : forall ls k, (k < length ls)%nat -> sum_len ls (S k) = sum_len ls k + li_len (nth k ls dflt).
Proof.
  induction ls as [|l r IH]; intros k Hk; [cbn in Hk; lia|].
  destruct k as [|k]; [cbn; destruct r; cbn; lia|].
  cbn [length] in Hk. change (sum_len (l :: r) (S (S k))) with (li_len l + sum_len r (S k)).
  change (sum_len (l :: r) (S k)) with (li_len l + sum_len r k). cbn [nth]. rewrite IH by lia. lia.
Qed.

Lemma link_of_pos_base ls pos : forall i link t, (i <= length ls)%nat ->
  link_of_pos ls pos (sum_len ls i) i = (link, t) -> t = sum_len ls (Z.to_nat link).
Proof.
  induction i as [|k IH]; intros link t Hi H; cbn [link_of_pos] in H.
  - inversion H; subst. reflexivity.
  - fold dflt in H. rewrite sum_len_S in H by lia.
    replace (sum_len ls k + li_len (nth k ls dflt) - li_len (nth k ls dflt)) with (sum_len ls k) in H by lia.
    destruct (pos >=? sum_len ls k).
    + inversion H; subst. rewrite Nat2Z.id. reflexivity.
    + apply IH; [lia|exact H].
Qed.

Lemma drop_to_gran_spec : forall q n q' m g, drop_to_gran q n = Some (q', m, g) ->
  n <= m /\ exists p r, q' = p :: r /\ pk_gran p = g /\ g <> -1.
Proof.
  induction q as [|p r IH]; intros n q' m g H; cbn [drop_to_gran] in H; [discriminate|].
  destruct (negb (pk_gran p =? -1)) eqn:E.
  - inversion H; subst. split; [lia|]. exists p, r. repeat split. lia.
  - apply IH in H. destruct H as [H1 H2]. split; [lia|exact H2].
Qed.

(* selecting the link for a seek leaves a dumped or freshly restarted decoder *)
Lemma enter_link_fresh s0 link : OPENED <= v_rs s0 <= INITSET ->
  let s1 := enter_link s0 link in
  v_link s1 = link /\ v_links s1 = v_links s0 /\ v_hs s1 = v_hs s0 /\ v_pcm s1 = v_pcm s0 /\ v_rem s1 = v_rem s0 /\
  (v_rs s1 = STREAMSET \/ (v_rs s1 = INITSET /\ d_ret (v_dec s1) = -1 /\ d_seq (v_dec s1) = -1)).
Proof.
  intros Hrs. unfold enter_link. destruct (negb (link =? v_link s0) || (v_rs s0 <? STREAMSET)) eqn:E.
  - cbn. repeat split; try reflexivity. left. reflexivity.
  - cbn. repeat split; try reflexivity; try lia.
    unfold OPENED, STREAMSET, INITSET in *. assert (v_rs s0 = 3 \/ v_rs s0 = 4) as [H|H] by lia; [left; exact H|right].
    split; [exact H|]. split; reflexivity.
Qed.

Lemma os_pagein_keeps s pg : let t := os_pagein s pg in
  v_link t = v_link s /\ v_links t = v_links s /\ v_hs t = v_hs s /\ v_rs t = v_rs s /\ v_dec t = v_dec s /\ v_pno t = v_pno s /\ v_pcm t = v_pcm s.
Proof.
  unfold os_pagein. destruct (negb (pg_serial pg =? v_serial s)); [repeat split; reflexivity|].
  destruct (v_fresh s && pg_cont pg); [destruct (pg_pkts pg)|]; cbn; repeat split; reflexivity.
Qed.

(* does ov_pcm_seek_page take the continued-packet fallback (a raw seek to an earlier page)? *)
Definition fallback (s : vfs) (pos : Z) : bool :=
  let '(link, total) := link_of_pos (v_links s) pos (pcm_total s) (length (v_links s)) in
  let l := nth_link s link in
  let target := pos - total + li_init l in
  match best_page (v_pages s) l target None with
  | Some (pg :: rem') =>
      let s1 := enter_link (set_pcm (set_rem s rem') (-1)) link in
      let s2 := os_pagein (os_reset s1) pg in
      match drop_to_gran (v_q s2) 0 with None => true | Some _ => false end
  | _ => false
  end.

(* what a successful page seek leaves behind, whatever the file *)
Lemma page_seek_facts s pos s1 :
  pcm_seek_page s pos = (0, s1) -> fallback s pos = false -> OPENED <= v_rs s <= INITSET ->
  v_hs s1 = v_hs s /\
  (v_rs s1 = STREAMSET \/ (v_rs s1 = INITSET /\ d_ret (v_dec s1) = -1 /\ d_seq (v_dec s1) = -1)) /\
  0 <= v_pno s1 /\ base_of s1 (v_link s1) <= v_pcm s1 <= pos.
Proof.
  unfold pcm_seek_page, fallback. intros H Hfb Hrs.
  destruct (v_rs s <? OPENED) eqn:E0; [inversion H|].
  destruct ((pos <? 0) || (pos >? pcm_total s)) eqn:E1; [inversion H|].
  destruct (link_of_pos (v_links s) pos (pcm_total s) (length (v_links s))) as [link total] eqn:El.
  assert (total = base_of s link) as Htot by (unfold base_of; eapply link_of_pos_base; [|exact El]; lia).
  set (l := nth_link s link) in *.
  destruct (best_page (v_pages s) l (pos - total + li_init l) None) as [[|pg rem']|] eqn:Eb.
  - inversion H.
  - set (s0 := set_pcm (set_rem s rem') (-1)) in *.
    destruct (enter_link_fresh s0 link) as (A1 & A2 & A3 & A4 & A5 & A6); [exact Hrs|].
    set (s1' := enter_link s0 link) in *.
    set (s2 := os_pagein (os_reset s1') pg) in *.
    destruct (os_pagein_keeps (os_reset s1') pg) as (B1 & B2 & B3 & B4 & B5 & B6 & B7). fold s2 in B1, B2, B3, B4, B5, B6, B7.
    cbn [os_reset set_q v_link v_links v_hs v_rs v_dec v_pno v_pcm] in B1, B2, B3, B4, B5, B6, B7.
    destruct (drop_to_gran (v_q s2) 0) as [[[q' n] g]|] eqn:Ed; [|discriminate Hfb].
    destruct (drop_to_gran_spec _ _ _ _ _ Ed) as (Hn & _).
    set (s3 := set_pcm (set_q s2 q' (v_fresh s2) (v_pno s2 + n)) _) in *.
    destruct (v_pcm s3 >? pos) eqn:Egt; [inversion H|]. inversion H; subst s1.
    unfold s3. cbn [v_hs v_rs v_dec v_pno v_pcm v_link v_links set_pcm set_q base_of].
    unfold base_of. cbn [v_links set_pcm set_q]. rewrite B1, B2, B3, B4, B5, B6, A1, A2, A3.
    split; [reflexivity|]. split; [exact A6|]. split; [lia|].
    unfold s3 in Egt. cbn [v_pcm set_pcm] in Egt. change (v_links s0) with (v_links s). fold (base_of s link). rewrite <- Htot.
    revert Egt. destruct (g - li_init (cur_link s2) <? 0) eqn:Ex; intros Egt. all: lia.
  - (* beginning of the link *)
    destruct (pages_from (v_pages s) (li_dataoff l)) as [|pg rem'] eqn:Ep; [inversion H|].
    destruct (pg_serial pg =? li_serial l) eqn:Es; [|inversion H].
    set (s0 := set_pcm s total) in *.
    destruct (enter_link_fresh s0 link) as (A1 & A2 & A3 & A4 & A5 & A6); [exact Hrs|].
    set (s1' := enter_link s0 link) in *.
    set (s2 := os_pagein (os_reset (set_rem s1' rem')) pg) in *.
    destruct (os_pagein_keeps (os_reset (set_rem s1' rem')) pg) as (B1 & B2 & B3 & B4 & B5 & B6 & B7). fold s2 in B1, B2, B3, B4, B5, B6, B7.
    cbn [os_reset set_q set_rem v_link v_links v_hs v_rs v_dec v_pno v_pcm] in B1, B2, B3, B4, B5, B6, B7.
    destruct (v_pcm s2 >? pos) eqn:Egt; [inversion H|]. inversion H; subst s1.
    unfold base_of. rewrite B1, B2, B3, B4, B5, B6, B7, A1, A2, A3, A4. fold (base_of s link).
    split; [reflexivity|]. split; [exact A6|]. split; [lia|].
    rewrite B7, A4 in Egt. change (v_links s0) with (v_links s). change (v_pcm s0) with total in *. unfold base_of in Htot. lia.
Qed.


(* the longest run of pages after the cursor that belong to the current link and carry no end-of-stream
   packet; what follows it is the `tail` the theorems never look at *)
Fixpoint run_split (serial : Z) (pgs : list page) : list page * list page :=
  match pgs with
  | [] => ([], [])
  | pg :: r =>
      if (pg_serial pg =? serial) && negb (pg_bos pg) && forallb (fun p => negb (pk_eos p)) (pg_pkts pg)
      then let '(a, b) := run_split serial r in (pg :: a, b) else ([], pgs)
  end.
Definition auto_tail (s1 : vfs) : list page := snd (run_split (v_serial s1) (v_rem s1)).
Lemma run_split_app serial pgs : pgs = fst (run_split serial pgs) ++ snd (run_split serial pgs).
Proof.
  induction pgs as [|pg r IH]; [reflexivity|]. cbn [run_split].
  destruct ((pg_serial pg =? serial) && negb (pg_bos pg) && forallb (fun p => negb (pk_eos p)) (pg_pkts pg)); [|reflexivity].
  destruct (run_split serial r) as [a b]. cbn [fst snd] in *. rewrite IH at 1. reflexivity.
Qed.

Section Tail.
(* the pages that follow the intact run of the link (its last page, further links, ...): never looked at *)
Variable tail : list page.

(* what the position bookkeeping depends on *)
Definition view (s : vfs) := (v_hs s, v_links s, v_link s, v_serial s, v_rs s, v_dec s, v_pno s, v_pcm s).
(* the packets of the intact run still to come: queued ones, then those of the pages not yet read *)
Definition rem1 (s : vfs) : list page := firstn (length (v_rem s) - length tail) (v_rem s).
Definition stream (s : vfs) : list pkt := v_q s ++ flat_map pg_pkts (rem1 s).
Definition plain (serial : Z) (pg : page) : Prop := pg_serial pg = serial /\ pg_bos pg = false.
Definition PlainRem (s : vfs) : Prop :=
  v_fresh s = false /\ v_rem s = rem1 s ++ tail /\ Forall (plain (v_serial s)) (rem1 s).
Definition audio (p : pkt) : Prop := exists w, pk_W p = Some w.

Lemma rem1_app s r : v_rem s = r ++ tail -> rem1 s = r.
Proof.
  intros H. unfold rem1. rewrite H, app_length, Nat.add_sub, firstn_app, Nat.sub_diag, firstn_all. cbn. apply app_nil_r.
Qed.

(* static facts about the current link *)
Definition Core (s : vfs) : Prop :=
  let l := cur_link s in
  v_hs s = 0 /\ v_rs s = INITSET /\ 0 < li_bs0 l /\ 0 < li_bs1 l /\ li_bs0 l <= li_bs1 l /\
  li_bs0 l mod 4 = 0 /\ li_bs1 l mod 4 = 0 /\ 0 <= li_init l /\ 0 <= v_pno s.

(* the decoder returns nothing yet; the next packet (block flag w) ends at in-link position e *)
Definition PreSync (s : vfs) (e : Z) (p : pkt) (w : bool) : Prop :=
  let l := cur_link s in let d := v_dec s in let c := cur_cfg s in
  d_ret d = -1 /\ v_pcm s = base_of s (v_link s) + e /\ 0 <= e /\
  pk_eos p = false /\ (pk_gran p = -1 \/ pk_gran p = li_init l + e) /\
  (d_seq d = -1 \/
   (0 <= d_seq d /\ d_seq d + 1 = v_pno s /\
    let stp := bsz c (d_W d) / 4 + bsz c w / 4 in 0 <= e - stp /\ tracking l d (e - stp))).

Lemma view_core s t : view s = view t -> Core s -> Core t.
Proof.
  unfold view, Core, cur_link, nth_link. intros H. injection H as H1 H2 H3 H4 H5 H6 H7 H8.
  rewrite H1, H2, H3, H5, H7. tauto.
Qed.
Lemma view_presync s t e p w : view s = view t -> PreSync s e p w -> PreSync t e p w.
Proof.
  unfold view, PreSync, cur_cfg, cur_link, nth_link, base_of. intros H. injection H as H1 H2 H3 H4 H5 H6 H7 H8.
  rewrite H1, H2, H3, H6, H7, H8. tauto.
Qed.
Lemma view_sync s t e : view s = view t -> SyncInv s e -> SyncInv t e.
Proof.
  unfold view, SyncInv, cur_cfg, cur_link, nth_link, base_of. intros H. injection H as H1 H2 H3 H4 H5 H6 H7 H8.
  rewrite H1, H2, H3, H6, H7, H8. tauto.
Qed.

Lemma feed_fields s p w :
  let s' := feed s p w in
  v_q s' = v_q s /\ v_rem s' = v_rem s /\ v_fresh s' = v_fresh s /\ v_serial s' = v_serial s /\
  v_rs s' = v_rs s /\ v_links s' = v_links s /\ v_link s' = v_link s /\ v_hs s' = v_hs s /\ v_pno s' = v_pno s + 1 /\
  v_pages s' = v_pages s.
Proof.
  unfold feed, process_audio. destruct (dec_blockin (cur_cfg s) (v_dec s) _) as [y d1].
  destruct (negb (pk_gran p =? -1) && negb (pk_eos p)); cbn; repeat split; reflexivity.
Qed.

(* the first packet after a quiet phase: nothing comes out, and the handle is in sync at e *)
Lemma feed_presync s e p w :
  Core s -> PreSync s e p w ->
  let s' := feed s p w in
  SyncInv s' e /\ dec_pcmout (v_dec s') = 0 /\ d_W (v_dec s') = w.
Proof.
  intros (Hhs & Hrs & Hb0 & Hb1 & Hb01 & Hm0 & Hm1 & Hi & Hpno) (Hr & Hpcm & He0 & Heos & Hg & Hph).
  set (c := cur_cfg s) in *. set (d := v_dec s) in *. set (l := cur_link s) in *.
  assert (hs c = 0) as Hhc by (unfold c, cur_cfg, cfg_of; cbn; exact Hhs).
  set (b := {| k_W := w; k_gran := pk_gran p; k_seq := v_pno s; k_eof := pk_eos p; k_pcm := true |}).
  set (stp := bsz c (d_W d) / 4 + bsz c w / 4) in *.
  destruct (blockin_quiet c d b) as (d' & Eb & Hout & Hret & HW & Hsq & Hcnt & Hgrn).
  - unfold c, cur_cfg, cfg_of; cbn; fold l; lia.
  - unfold c, cur_cfg, cfg_of; cbn; fold l; lia.
  - exact Hhc.
  - exact Hr.
  - exact Heos.
  - unfold b. cbn [k_gran k_seq k_W]. fold stp.
    destruct Hg as [Hg|Hg]; [left; exact Hg|right].
    destruct Hph as [Hf|(Hs0 & Hs1 & Hst & Ht)].
    + left. rewrite Hf. cbn. split; [reflexivity|lia].
    + destruct ((d_seq d =? -1) || negb (d_seq d + 1 =? v_pno s)) eqn:El; [lia|].
      destruct Ht as [[Hgd Hc]|Hgd].
      * left. split; [exact Hgd|]. destruct (d_count d =? -1) eqn:Ec; lia.
      * right. split; lia.
  - unfold b in Hret, HW, Hsq, Hcnt, Hgrn. cbn [k_W k_gran k_seq k_pcm] in Hret, HW, Hsq, Hcnt, Hgrn. fold stp in Hcnt, Hgrn.
    destruct Hret as [Hret Hret0].
    unfold feed, process_audio. fold c d b. rewrite Eb.
    set (s1 := if negb (pk_gran p =? -1) && negb (pk_eos p) then _ else set_dec s d').
    assert (v_pcm s1 = v_pcm s /\ v_dec s1 = d' /\ v_link s1 = v_link s /\ v_links s1 = v_links s /\ v_hs s1 = v_hs s) as (P1 & P2 & P3 & P4 & P5).
    { unfold s1. destruct (negb (pk_gran p =? -1) && negb (pk_eos p)) eqn:Eg; cbn; repeat split; try reflexivity.
      rewrite Hout, Hhs, Z.shiftl_0_r. destruct Hg as [Hg|Hg]; [lia|]. fold l. rewrite Hg.
      destruct (li_init l + e - li_init l <? 0) eqn:E; [lia|]. destruct (li_init l + e - li_init l - 0 <? 0) eqn:E2; lia. }
    cbn [v_dec set_q]. rewrite P2. split; [|split; [exact Hout|exact HW]].
    unfold SyncInv, cur_link, nth_link, base_of. cbn [v_hs v_dec v_pno v_pcm v_link v_links set_q].
    rewrite P1, P2, P3, P4, P5. fold (nth_link s (v_link s)). fold (cur_link s). fold l. fold (base_of s (v_link s)).
    repeat split; try assumption; try lia.
    unfold tracking. rewrite Hgrn, Hcnt.
    destruct Hph as [Hf|(Hs0 & Hs1 & Hst & Ht)].
    + rewrite Hf. cbn. destruct Hg as [Hg|Hg]; [left; split; [exact Hg|lia]|right; exact Hg].
    + destruct ((d_seq d =? -1) || negb (d_seq d + 1 =? v_pno s)) eqn:El; [lia|].
      destruct Ht as [[Hgd Hc]|Hgd].
      * rewrite Hgd. cbn [Z.eqb]. destruct Hg as [Hg|Hg]; [left; split; [exact Hg|]|right; exact Hg].
        destruct (d_count d =? -1) eqn:Ec; lia.
      * right. destruct (d_gran d =? -1) eqn:Eq; lia.
Qed.


Lemma make_ready_initset s : v_rs s = INITSET -> make_ready s = s.
Proof. intros H. unfold make_ready. rewrite H. reflexivity. Qed.

(* _fetch_and_process_packet inside the intact run: takes the next packet of the stream, whatever the page layout *)
Lemma fetch_plain : forall fuel s p r,
  v_rs s = INITSET -> PlainRem s -> Forall audio (stream s) -> (length (rem1 s) < fuel)%nat ->
  stream s = p :: r ->
  exists w s0, pk_W p = Some w /\ fetch fuel s = (1, feed s0 p w) /\ view s0 = view s /\
               stream s0 = r /\ PlainRem s0.
Proof.
  induction fuel as [|f IH]; intros s p r Hrs Hpl Hau Hf Hst; [lia|].
  cbn [fetch]. rewrite (make_ready_initset s Hrs). rewrite Hrs. cbn [Z.eqb Pos.eqb andb].
  destruct (v_q s) as [|p0 q'] eqn:Eq.
  - (* queue empty: next page *)
    destruct Hpl as (Hfr & Hsplit & Hall).
    destruct (rem1 s) as [|pg r1] eqn:E1.
    + unfold stream in Hst. rewrite Eq, E1 in Hst. discriminate Hst.
    + cbn [app] in Hsplit. rewrite Hsplit.
      inversion Hall as [|x y [Hser Hbos] Hrest]; subst x y.
      cbn [v_rs set_rem v_serial]. rewrite Hrs, Hser. rewrite !Z.eqb_refl. change (INITSET <? STREAMSET) with false. cbn [negb andb].
      assert (os_pagein (set_rem s (r1 ++ tail)) pg = set_q (set_rem s (r1 ++ tail)) (pg_pkts pg) false (v_pno s)) as Hpi.
      { unfold os_pagein. cbn [v_serial set_rem v_fresh v_q v_pno]. rewrite Hser, Z.eqb_refl, Hfr, Eq. reflexivity. }
      rewrite Hpi.
      set (s1 := set_q (set_rem s (r1 ++ tail)) (pg_pkts pg) false (v_pno s)).
      assert (rem1 s1 = r1) as Hr1 by (apply rem1_app; reflexivity).
      assert (stream s1 = stream s) as Hst1 by (unfold stream; rewrite Hr1, E1, Eq; unfold s1; cbn; reflexivity).
      assert (view s1 = view s) as Hv by reflexivity.
      destruct (IH s1 p r) as (w & s0 & A & B & C & D & E); try assumption.
      * split; [reflexivity|]. split; [rewrite Hr1; reflexivity|rewrite Hr1; exact Hrest].
      * rewrite Hst1. exact Hau.
      * rewrite Hr1. cbn [length] in Hf. lia.
      * rewrite Hst1. exact Hst.
      * exists w, s0. split; [exact A|]. split; [exact B|]. split; [rewrite C; exact Hv|]. split; [exact D|exact E].
  - unfold stream in Hst. rewrite Eq in Hst. cbn [app] in Hst. injection Hst as <- Hr.
    assert (audio p0) as [w Hw] by (unfold stream in Hau; rewrite Eq in Hau; inversion Hau; assumption).
    rewrite Hw. exists w, (set_q s q' (v_fresh s) (v_pno s)).
    split; [reflexivity|]. split; [reflexivity|]. split; [reflexivity|].
    split; [exact Hr|]. exact Hpl.
Qed.


(* an intact run of audio packets of link l: no end-of-stream packet, and every granule
   position that is present is the link's initial offset plus the position where the block ends.
   first = the position e is already that of the first packet's end *)
Fixpoint IntactS (l : linfo) (first : bool) (e : Z) (lW : bool) (ps : list pkt) : Prop :=
  match ps with
  | [] => True
  | p :: r => exists w, pk_W p = Some w /\ pk_eos p = false /\
       let eh := if first then e else e + (blocksize l lW / 4 + blocksize l w / 4) in
       (pk_gran p = -1 \/ pk_gran p = li_init l + eh) /\ IntactS l false eh w r
  end.

Lemma intact_audio l : forall ps first e lW, IntactS l first e lW ps -> Forall audio ps.
Proof.
  induction ps as [|p r IH]; intros first e lW H; [constructor|].
  cbn in H. destruct H as (w & Hw & _ & _ & Hr). constructor; [exists w; exact Hw|]. eapply IH. exact Hr.
Qed.

Lemma bsz_blocksize s w : bsz (cur_cfg s) w = blocksize (cur_link s) w.
Proof. unfold bsz, cur_cfg, cfg_of, blocksize. cbn. reflexivity. Qed.

(* one packet into a quiet decoder, with or without PCM *)
Lemma presync_blockin s e p w (pcmflag : bool) :
  Core s -> PreSync s e p w ->
  exists d', dec_blockin (cur_cfg s) (v_dec s)
               {| k_W := w; k_gran := pk_gran p; k_seq := v_pno s; k_eof := pk_eos p; k_pcm := pcmflag |} = (0, d') /\
     dec_pcmout d' = 0 /\ (if pcmflag then d_ret d' = d_cur d' /\ 0 <= d_ret d' else d_ret d' = -1) /\
     d_W d' = w /\ d_seq d' = v_pno s /\ tracking (cur_link s) d' e.
Proof.
  intros (Hhs & Hrs & Hb0 & Hb1 & Hb01 & Hm0 & Hm1 & Hi & Hpno) (Hr & Hpcm & He0 & Heos & Hg & Hph).
  set (c := cur_cfg s) in *. set (d := v_dec s) in *. set (l := cur_link s) in *.
  assert (hs c = 0) as Hhc by (unfold c, cur_cfg, cfg_of; cbn; exact Hhs).
  set (b := {| k_W := w; k_gran := pk_gran p; k_seq := v_pno s; k_eof := pk_eos p; k_pcm := pcmflag |}).
  set (stp := bsz c (d_W d) / 4 + bsz c w / 4) in *.
  destruct (blockin_quiet c d b) as (d' & Eb & Hout & Hret & HW & Hsq & Hcnt & Hgrn).
  - unfold c, cur_cfg, cfg_of; cbn; fold l; lia.
  - unfold c, cur_cfg, cfg_of; cbn; fold l; lia.
  - exact Hhc.
  - exact Hr.
  - exact Heos.
  - unfold b. cbn [k_gran k_seq k_W]. fold stp.
    destruct Hg as [Hg|Hg]; [left; exact Hg|right].
    destruct Hph as [Hf|(Hs0 & Hs1 & Hst & Ht)].
    + left. rewrite Hf. cbn. split; [reflexivity|lia].
    + destruct ((d_seq d =? -1) || negb (d_seq d + 1 =? v_pno s)) eqn:El; [lia|].
      destruct Ht as [[Hgd Hc]|Hgd].
      * left. split; [exact Hgd|]. destruct (d_count d =? -1) eqn:Ec; lia.
      * right. split; lia.
  - unfold b in Hret, HW, Hsq, Hcnt, Hgrn. cbn [k_W k_gran k_seq k_pcm] in Hret, HW, Hsq, Hcnt, Hgrn. fold stp in Hcnt, Hgrn.
    exists d'. split; [exact Eb|]. split; [exact Hout|]. split; [exact Hret|]. split; [exact HW|]. split; [exact Hsq|].
    unfold tracking. rewrite Hgrn, Hcnt.
    destruct Hph as [Hf|(Hs0 & Hs1 & Hst & Ht)].
    + rewrite Hf. cbn. destruct Hg as [Hg|Hg]; [left; split; [exact Hg|lia]|right; exact Hg].
    + destruct ((d_seq d =? -1) || negb (d_seq d + 1 =? v_pno s)) eqn:El; [lia|].
      destruct Ht as [[Hgd Hc]|Hgd].
      * rewrite Hgd. cbn [Z.eqb]. destruct Hg as [Hg|Hg]; [left; split; [exact Hg|]|right; exact Hg].
        destruct (d_count d =? -1) eqn:Ec; lia.
      * right. destruct (d_gran d =? -1) eqn:Eq; lia.
Qed.

(* the intact run reaches the target: some block of it ends at or after it *)
Fixpoint Reaches (l : linfo) (first : bool) (e : Z) (lW : bool) (ps : list pkt) (target : Z) : Prop :=
  match ps with
  | [] => False
  | p :: r => match pk_W p with
              | None => False
              | Some w => let eh := if first then e else e + (blocksize l lW / 4 + blocksize l w / 4) in
                          target <= eh \/ Reaches l false eh w r target
              end
  end.

(* the state of ov_pcm_seek's packet-discarding loop *)
Definition DPhase (s : vfs) (lb : Z) (pos : Z) : Prop :=
  let l := cur_link s in let d := v_dec s in
  let e := v_pcm s - base_of s (v_link s) in
  let target := pos - base_of s (v_link s) in
  0 <= e /\ d_ret d = -1 /\
  ((lb = 0 /\ d_seq d = -1 /\ IntactS l true e false (stream s) /\ Reaches l true e false (stream s) target /\ v_pcm s <= pos) \/
   (lb = blocksize l (d_W d) /\ 0 <= d_seq d /\ d_seq d + 1 = v_pno s /\ tracking l d e /\
    IntactS l false e (d_W d) (stream s) /\ Reaches l false e (d_W d) (stream s) target /\
    v_pcm s + Z.shiftr (lb + li_bs1 l) 2 < pos)).

(* what the loop hands over: the decoder is quiet, the next packet ends at the reported position *)
Definition Ready (s : vfs) (pos : Z) : Prop :=
  exists p q' w e, v_q s = p :: q' /\ pk_W p = Some w /\ PreSync s e p w /\
     IntactS (cur_link s) false e w (q' ++ flat_map pg_pkts (rem1 s)) /\ Core s /\ PlainRem s /\
     (pos - base_of s (v_link s) <= e \/
      Reaches (cur_link s) false e w (q' ++ flat_map pg_pkts (rem1 s)) (pos - base_of s (v_link s))) /\
     v_pcm s <= pos.

Lemma seek_discard_ready : forall fuel s pos lb,
  (length (rem1 s) + length (stream s) < fuel)%nat ->
  Core s -> PlainRem s -> DPhase s lb pos ->
  Ready (seek_discard fuel s pos lb) pos.
Proof.
  induction fuel as [|f IH]; intros s pos lb Hfuel Hcore Hpl Hd; [lia|].
  cbn [seek_discard].
  destruct (v_q s) as [|p q'] eqn:Eq.
  - destruct Hpl as (Hfr & Hsplit & Hall).
    destruct (rem1 s) as [|pg r1] eqn:E1.
    + exfalso. destruct Hd as (_ & _ & Hph). unfold stream in Hph. rewrite Eq, E1 in Hph. cbn in Hph.
      destruct Hph as [(_ & _ & _ & F & _)|(_ & _ & _ & _ & _ & F & _)]; exact F.
    + cbn [app] in Hsplit. rewrite Hsplit.
      inversion Hall as [|x y [Hser Hbos] Hrest]; subst x y.
      rewrite Hbos.
      assert (v_rs s = INITSET) as Hrs by (destruct Hcore as (_ & H & _); exact H).
      cbn [v_rs set_rem]. rewrite Hrs. change (INITSET <? STREAMSET) with false. cbn iota.
      assert (os_pagein (set_rem s (r1 ++ tail)) pg = set_q (set_rem s (r1 ++ tail)) (pg_pkts pg) false (v_pno s)) as Hpi.
      { unfold os_pagein. cbn [v_serial set_rem v_fresh v_q v_pno]. rewrite Hser, Z.eqb_refl, Hfr, Eq. reflexivity. }
      rewrite Hpi.
      set (s1 := set_q (set_rem s (r1 ++ tail)) (pg_pkts pg) false (v_pno s)).
      assert (rem1 s1 = r1) as Hr1 by (apply rem1_app; reflexivity).
      assert (stream s1 = stream s) as Hst by (unfold stream; rewrite Hr1, E1, Eq; unfold s1; cbn; reflexivity).
      apply IH.
      * rewrite Hst, Hr1. cbn [length] in Hfuel. lia.
      * eapply view_core; [|exact Hcore]. reflexivity.
      * split; [reflexivity|]. split; [rewrite Hr1; reflexivity|rewrite Hr1; exact Hrest].
      * unfold DPhase in *. rewrite Hst. exact Hd.
  - (* a packet at the head of the queue *)
    destruct Hcore as (Hhs & Hrs & Hb0 & Hb1 & Hb01 & Hm0 & Hm1 & Hi & Hpno).
    destruct Hd as (He0 & Hret & Hph).
    set (l := cur_link s) in *. set (d := v_dec s) in *.
    set (e := v_pcm s - base_of s (v_link s)) in *.
    set (target := pos - base_of s (v_link s)) in *.
    assert (stream s = p :: q' ++ flat_map pg_pkts (rem1 s)) as Hst by (unfold stream; rewrite Eq; reflexivity).
    rewrite Hst in Hph.
    (* the head packet *)
    assert (exists w eh, pk_W p = Some w /\ pk_eos p = false /\ (pk_gran p = -1 \/ pk_gran p = li_init l + eh) /\
                         IntactS l false eh w (q' ++ flat_map pg_pkts (rem1 s)) /\
                         eh = (if lb =? 0 then e else e + Z.shiftr (lb + blocksize l w) 2) /\
                         (d_seq d = -1 \/ (0 <= d_seq d /\ d_seq d + 1 = v_pno s /\
                            0 <= eh - (blocksize l (d_W d) / 4 + blocksize l w / 4) /\
                            tracking l d (eh - (blocksize l (d_W d) / 4 + blocksize l w / 4)))) /\
                         (target <= eh \/ Reaches l false eh w (q' ++ flat_map pg_pkts (rem1 s)) target) /\
                         (if lb =? 0 then v_pcm s <= pos else v_pcm s + Z.shiftr (lb + li_bs1 l) 2 < pos))
      as (w & eh & Hw & Heos & Hg & Hrest & Heh & Hphase & Hreach & Hle).
    { destruct Hph as [(Hlb & Hsq & Hin & Hre & Hle)|(Hlb & Hs0 & Hs1 & Ht & Hin & Hre & Hle)]; cbn [IntactS] in Hin; destruct Hin as (w & Hw & Heos & Hg & Hr);
        cbn [Reaches] in Hre; rewrite Hw in Hre.
      - exists w, e. rewrite Hlb. cbn [Z.eqb]. repeat split; try assumption. left. exact Hsq.
      - assert (0 < blocksize l (d_W d)) as Hbpos by (unfold blocksize; destruct (d_W d); lia).
        exists w, (e + (blocksize l (d_W d) / 4 + blocksize l w / 4)). repeat split; try assumption.
        3: { destruct (lb =? 0) eqn:E0; [lia|exact Hle]. }
        + assert (0 < blocksize l (d_W d)) by (unfold blocksize; destruct (d_W d); lia).
          destruct (lb =? 0) eqn:E0; [lia|]. rewrite Hlb, Z.shiftr_div_pow2 by lia. change (2 ^ 2) with 4.
          assert (blocksize l (d_W d) mod 4 = 0) by (unfold blocksize; destruct (d_W d); assumption).
          lia.
        + right. replace (e + (blocksize l (d_W d) / 4 + blocksize l w / 4) - (blocksize l (d_W d) / 4 + blocksize l w / 4)) with e by lia.
          repeat split; try assumption. }
    rewrite Hw. fold l.
    set (this := blocksize l w) in *.
    set (s1 := if negb (lb =? 0) then set_pcm s (v_pcm s + Z.shiftr (lb + this) 2) else s).
    assert (view s1 = (v_hs s, v_links s, v_link s, v_serial s, v_rs s, v_dec s, v_pno s, base_of s (v_link s) + eh)) as Hv1.
    { assert (v_pcm s1 = base_of s (v_link s) + eh) as Hp1 by (unfold s1; unfold e in Heh; destruct (lb =? 0) eqn:E0; cbn [negb v_pcm set_pcm]; lia).
      unfold view. rewrite Hp1. unfold s1. destruct (negb (lb =? 0)); reflexivity. }
    assert (v_q s1 = v_q s /\ v_rem s1 = v_rem s /\ v_fresh s1 = v_fresh s /\ v_pages s1 = v_pages s) as (Q1 & Q2 & Q3 & Q4)
      by (unfold s1; destruct (negb (lb =? 0)); cbn; repeat split; reflexivity).
    assert (rem1 s1 = rem1 s) as Q5 by (unfold rem1; rewrite Q2; reflexivity).
    injection Hv1 as V1 V2 V3 V4 V5 V6 V7 V8.
    assert (cur_link s1 = l) as Hl1 by (unfold cur_link, nth_link; rewrite V2, V3; reflexivity).
    assert (base_of s1 (v_link s1) = base_of s (v_link s)) as Hbase1 by (unfold base_of; rewrite V2, V3; reflexivity).
    assert (0 <= eh) as Heh0.
    { assert (0 <= Z.shiftr (lb + this) 2).
      { apply Z.shiftr_nonneg. unfold this. destruct Hph as [(Hlb & _)|(Hlb & _)]; unfold blocksize in *; destruct w, (d_W d); lia. }
      rewrite Heh. destruct (lb =? 0); [exact He0|]. unfold e in *. lia. }
    assert (Core s1) as Hcore1.
    { unfold Core. rewrite Hl1, V1, V5, V7. repeat split; assumption. }
    assert (PreSync s1 eh p w) as Hps.
    { unfold PreSync. rewrite Hl1, V6, V7, V8, Hbase1. fold d.
      unfold cur_cfg. rewrite Hl1, V1. unfold bsz, cfg_of. cbn [bs0 bs1].
      repeat split; try assumption; try lia. }
    assert (PlainRem s1) as Hpl1 by (unfold PlainRem; rewrite Q2, Q3, Q5, V4; exact Hpl).
    assert (v_pcm s1 <= pos) as Hle1.
    { rewrite V8. rewrite Heh. unfold e. destruct (lb =? 0) eqn:E0; [lia|].
      assert (this <= li_bs1 l) by (unfold this, blocksize; destruct w; lia).
      assert (0 <= lb + this) by (destruct Hph as [(Hlb & _)|(Hlb & _)]; unfold this, blocksize in *; destruct w, (d_W d); lia).
      rewrite Z.shiftr_div_pow2 in Hle |- * by lia. change (2 ^ 2) with 4 in *. lia. }
    cbv zeta. destruct (v_pcm s1 + Z.shiftr (this + li_bs1 l) 2 >=? pos) eqn:Estop.
    + (* stop here: hand over *)
      exists p, q', w, eh. rewrite Q1, Q5, Hl1, Hbase1. fold target. split; [exact Eq|]. split; [exact Hw|]. split; [exact Hps|]. split; [exact Hrest|].
      split; [exact Hcore1|]. split; [exact Hpl1|]. split; [exact Hreach|exact Hle1].
    + (* track this packet only and go on *)
      assert (0 <= Z.shiftr (this + li_bs1 l) 2) as Hx by (apply Z.shiftr_nonneg; unfold this, blocksize; destruct w; lia).
      assert (Reaches l false eh w (q' ++ flat_map pg_pkts (rem1 s)) target) as Hre2 by (destruct Hreach as [Hle'|Hre]; [unfold target in *; lia|exact Hre]).
      destruct (presync_blockin s1 eh p w false Hcore1 Hps) as (d' & Eb & Hout & Hret' & HW & Hsq & Htr).
      rewrite Eb. rewrite Hl1 in Htr.
      set (s2 := set_dec (set_q s1 q' (v_fresh s1) (v_pno s1 + 1)) d').
      set (s3 := if pk_gran p >? -1 then set_pcm s2 ((if pk_gran p - li_init l <? 0 then 0 else pk_gran p - li_init l) + base_of s2 (v_link s2)) else s2).
      assert (view s3 = (v_hs s, v_links s, v_link s, v_serial s, v_rs s, d', v_pno s + 1, base_of s (v_link s) + eh)) as Hv3.
      { assert (base_of s2 (v_link s2) = base_of s (v_link s)) as Hb2 by (unfold base_of, s2; cbn [v_links v_link set_dec set_q]; rewrite V2, V3; reflexivity).
        assert (v_pcm s3 = base_of s (v_link s) + eh) as Hp3.
        { unfold s3. destruct (pk_gran p >? -1) eqn:Egr.
          - cbn [v_pcm set_pcm]. rewrite Hb2. destruct Hg as [Hg|Hg]; [lia|]. rewrite Hg. destruct (li_init l + eh - li_init l <? 0) eqn:E; lia.
          - unfold s2. cbn [v_pcm set_dec set_q]. exact V8. }
        unfold view. rewrite Hp3. unfold s3, s2. destruct (pk_gran p >? -1); cbn [v_hs v_links v_link v_serial v_rs v_dec v_pno set_pcm set_dec set_q];
          rewrite V1, V2, V3, V4, V5, V7; reflexivity. }
      assert (v_q s3 = q' /\ v_rem s3 = v_rem s /\ v_fresh s3 = v_fresh s) as (R1 & R2 & R3).
      { unfold s3, s2. destruct (pk_gran p >? -1); cbn; rewrite ?Q2, ?Q3; repeat split; reflexivity. }
      assert (rem1 s3 = rem1 s) as R5 by (unfold rem1; rewrite R2; reflexivity).
      injection Hv3 as W1 W2 W3 W4 W5 W6 W7 W8.
      assert (cur_link s3 = l) as Hl3 by (unfold cur_link, nth_link; rewrite W2, W3; reflexivity).
      assert (base_of s3 (v_link s3) = base_of s (v_link s)) as Hbase3 by (unfold base_of; rewrite W2, W3; reflexivity).
      apply IH.
      * unfold stream. rewrite R1, R5. rewrite Hst in Hfuel. cbn [length] in Hfuel. lia.
      * unfold Core. rewrite Hl3, W1, W5, W7. repeat split; try assumption. lia.
      * unfold PlainRem. rewrite R2, R3, R5, W4. exact Hpl.
      * unfold DPhase. rewrite Hl3, W6, W7, W8, Hbase3. unfold stream. rewrite R1, R5. fold target.
        replace (base_of s (v_link s) + eh - base_of s (v_link s)) with eh by lia.
        split; [exact Heh0|]. split; [exact Hret'|]. right. rewrite HW, Hsq.
        repeat split; try assumption; try lia.
Qed.

(* a packet into a synchronised decoder: the block step becomes pending, the position stays *)
Lemma feed_sync_pending s here p w :
  SyncInv s here -> intact s here p w ->
  let stp := bsz (cur_cfg s) (d_W (v_dec s)) / 4 + bsz (cur_cfg s) w / 4 in
  let f := feed s p w in let d := v_dec f in
  0 <= d_ret d /\ d_cur d - d_ret d = stp /\ 0 <= stp /\ d_seq d = v_pno s /\ v_pcm f = v_pcm s /\
  tracking (cur_link s) d (here + stp) /\ d_W d = w.
Proof.
  intros (Hhs & Hb0 & Hb1 & Hi & Hr & Hr0 & Hs1 & Hs2 & Hpcm & Hh & Ht) (He & Hg) stp.
  set (c := cur_cfg s) in *. set (d := v_dec s) in *. set (l := cur_link s) in *.
  assert (hs c = 0) as Hhc by (unfold c, cur_cfg, cfg_of; cbn; exact Hhs).
  assert (0 <= stp) as Hst.
  { assert (0 <= li_bs0 l / 4) by (apply Z.div_pos; lia). assert (0 <= li_bs1 l / 4) by (apply Z.div_pos; lia).
    unfold stp, bsz, c, cur_cfg, cfg_of. cbn [bs0 bs1]. fold l. destruct (d_W d), w; lia. }
  set (b := {| k_W := w; k_gran := pk_gran p; k_seq := v_pno s; k_eof := pk_eos p; k_pcm := true |}).
  destruct (blockin_no_trim c d b) as (d' & Eb & Hout & Hret & HW & Hsq & Hcnt & Hgrn & Hret0).
  - unfold c, cur_cfg, cfg_of; cbn; exact Hb0.
  - unfold c, cur_cfg, cfg_of; cbn; exact Hb1.
  - lia.
  - reflexivity.
  - exact Hr.
  - exact Hr0.
  - exact He.
  - unfold b. cbn [k_gran k_seq k_W]. fold c d stp.
    destruct ((d_seq d =? -1) || negb (d_seq d + 1 =? v_pno s)) eqn:El; [lia|].
    destruct Hg as [Hg|Hg]; [left; exact Hg|right].
    destruct Ht as [[Hgd Hc]|Hgd].
    + left. split; [exact Hgd|]. destruct (d_count d =? -1) eqn:Ec; lia.
    + right. split; lia.
  - unfold b in Hout, HW, Hsq, Hcnt, Hgrn. cbn [k_W k_gran k_seq] in Hout, HW, Hsq, Hcnt, Hgrn. fold c d stp in Hout, Hcnt, Hgrn.
    rewrite Hhc, Z.shiftr_0_r in Hout.
    assert (dec_pcmout d' = stp) as Hout' by (destruct (0 <? stp) eqn:E; lia).
    destruct ((d_seq d =? -1) || negb (d_seq d + 1 =? v_pno s)) eqn:El; [lia|].
    intros f d0.
    assert (v_dec f = d' /\ v_pcm f = v_pcm s) as (P2 & P1).
    { unfold f, feed, process_audio. fold c d b. rewrite Eb.
      destruct (negb (pk_gran p =? -1) && negb (pk_eos p)) eqn:Eg; cbn; split; try reflexivity.
      rewrite Hout', Hhs, Z.shiftl_0_r. destruct Hg as [Hg|Hg]; [lia|]. fold l. rewrite Hg. fold stp.
      destruct (li_init l + here + stp - li_init l <? 0) eqn:E; [lia|]. destruct (li_init l + here + stp - li_init l - stp <? 0) eqn:E2; lia. }
    unfold d0. rewrite P2, P1.
    split; [exact Hret0|]. split; [lia|]. split; [exact Hst|]. split; [exact Hsq|]. split; [reflexivity|]. split; [|exact HW].
    unfold tracking. 
    destruct Hg as [Hg|Hg].
    + destruct Ht as [[Hgd Hc]|Hgd].
      * left. rewrite Hgrn, Hgd. cbn [Z.eqb]. split; [exact Hg|]. rewrite Hcnt. destruct (d_count d =? -1) eqn:Ec; lia.
      * right. rewrite Hgrn. destruct (d_gran d =? -1) eqn:Eq; lia.
    + fold stp in Hg. right. rewrite Hgrn. destruct (d_gran d =? -1) eqn:Eq; [lia|].
      destruct Ht as [[Hgd Hc]|Hgd]; lia.
Qed.


(* synchronised, possibly with samples still pending: they are the samples at e, e+1, ... *)
Definition NReady (s : vfs) (pos : Z) : Prop :=
  exists e, let l := cur_link s in let d := v_dec s in
  Core s /\ PlainRem s /\ 0 <= d_ret d /\ d_ret d <= d_cur d /\ 0 <= d_seq d /\ d_seq d + 1 = v_pno s /\
  v_pcm s = base_of s (v_link s) + e /\ 0 <= e /\ tracking l d (e + (d_cur d - d_ret d)) /\
  IntactS l false (e + (d_cur d - d_ret d)) (d_W d) (stream s) /\
  (pos - base_of s (v_link s) <= e + (d_cur d - d_ret d) \/
   Reaches l false (e + (d_cur d - d_ret d)) (d_W d) (stream s) (pos - base_of s (v_link s))) /\
  v_pcm s <= pos.
Definition Truthful (s : vfs) (pos : Z) : Prop := Ready s pos \/ NReady s pos.

Lemma dec_read_zero d : dec_read d 0 = (0, d).
Proof. unfold dec_read. cbn [Z.eqb negb andb]. destruct d. cbn. rewrite Z.add_0_r. reflexivity. Qed.

Lemma core_feed s p w : Core s -> Core (feed s p w).
Proof.
  intros H. destruct (feed_fields s p w) as (_ & _ & _ & _ & F5 & F6 & F7 & F8 & F9 & _).
  unfold Core, cur_link, nth_link in *. rewrite F5, F6, F7, F8, F9.
  destruct H as (A & B & C & D & E & F & G & I & J). repeat split; try assumption. lia.
Qed.
Lemma rem1_feed s p w : rem1 (feed s p w) = rem1 s.
Proof. destruct (feed_fields s p w) as (_ & F2 & _). unfold rem1. rewrite F2. reflexivity. Qed.
Lemma plain_feed s p w : PlainRem s -> PlainRem (feed s p w).
Proof.
  intros H. destruct (feed_fields s p w) as (_ & F2 & F3 & F4 & _).
  unfold PlainRem in *. rewrite rem1_feed, F2, F3, F4. exact H.
Qed.
Lemma stream_feed s p w : stream (feed s p w) = stream s.
Proof. destruct (feed_fields s p w) as (F1 & F2 & _). unfold stream. rewrite rem1_feed, F1. reflexivity. Qed.
Lemma link_feed s p w : cur_link (feed s p w) = cur_link s /\ base_of (feed s p w) (v_link (feed s p w)) = base_of s (v_link s).
Proof.
  destruct (feed_fields s p w) as (_ & _ & _ & _ & F5 & F6 & F7 & _).
  unfold cur_link, nth_link, base_of. rewrite F6, F7. split; reflexivity.
Qed.

Lemma view_link s t : view s = view t -> cur_link s = cur_link t /\ base_of s (v_link s) = base_of t (v_link t) /\ cur_cfg s = cur_cfg t /\
  v_dec s = v_dec t /\ v_pno s = v_pno t /\ v_pcm s = v_pcm t /\ v_rs s = v_rs t.
Proof.
  unfold view, cur_cfg, cur_link, nth_link, base_of. intros H. injection H as H1 H2 H3 H4 H5 H6 H7 H8.
  rewrite H1, H2, H3. repeat split; assumption.
Qed.

Lemma flat_pkt_count r : length (flat_map pg_pkts r) = pkt_count r.
Proof. induction r as [|pg r IH]; [reflexivity|]. cbn. rewrite app_length, IH. reflexivity. Qed.
Lemma pkt_count_app a b : pkt_count (a ++ b) = (pkt_count a + pkt_count b)%nat.
Proof. induction a as [|pg a IH]; [reflexivity|]. cbn. rewrite IH. lia. Qed.
Lemma stream_bound s : PlainRem s ->
  (length (rem1 s) + length (stream s) <= length (v_rem s) + pkt_count (v_rem s) + length (v_q s))%nat /\
  (length (stream s) <= pkt_count (v_rem s) + length (v_q s))%nat.
Proof.
  intros (_ & H & _). unfold stream. rewrite app_length, flat_pkt_count. remember (rem1 s) as r eqn:Er. clear Er. rewrite H. rewrite app_length, pkt_count_app. lia.
Qed.

(* the sample-discarding loop of ov_pcm_seek keeps the position truthful *)
Lemma seek_skip_truthful : forall fuel s pos,
  (length (stream s) + (if (v_pcm s <? pos)%Z then 2 else 1) <= fuel)%nat ->
  Truthful s pos -> Truthful (seek_skip fuel s pos) pos /\ pos <= v_pcm (seek_skip fuel s pos).
Proof.
  induction fuel as [|f IH]; intros s pos Hfuel HT; [destruct (v_pcm s <? pos); lia|].
  assert (Core s) as Hcore by (destruct HT as [(p & q' & w & e & _ & _ & _ & _ & H & _)|(e & H & _)]; exact H).
  assert (PlainRem s) as Hpl by (destruct HT as [(p & q' & w & e & _ & _ & _ & _ & _ & H & _)|(e & _ & H & _)]; exact H).
  pose proof Hcore as (Hhs & Hrs & Hb0 & Hb1 & Hb01 & Hm0 & Hm1 & Hi & Hpno).
  cbn [seek_skip]. cbv zeta. rewrite Hhs, !Z.shiftr_0_r, !Z.shiftl_0_r, Hrs. change (INITSET =? INITSET) with true. cbv iota.
  destruct (v_pcm s <? pos) eqn:Elt; [|split; [exact HT|lia]].
  destruct (pos - v_pcm s <=? 0) eqn:Et; [lia|].
  destruct HT as [(p & q' & w & e & Eq & Hw & Hps & Hin & _ & _ & Hreach & Hle)|(e & _ & _ & Hr0 & Hrc & Hs0 & Hs1 & Hpcm & He0 & Htr & Hin & Hreach & Hle)].
  - (* quiet decoder: nothing to discard yet, take the next packet *)
    set (d := v_dec s) in *. set (l := cur_link s) in *.
    pose proof Hps as (Hret & Hpcm & _).
    assert (dec_pcmout d = 0) as Hout by (unfold dec_pcmout; fold d in Hret; rewrite Hret; reflexivity).
    rewrite Hout. destruct (0 >? pos - v_pcm s) eqn:E1; [lia|].
    rewrite dec_read_zero.
    set (s1 := set_pcm (set_dec s d) (v_pcm s + 0)).
    assert (view s1 = view s) as Hv1 by (unfold view, s1; cbn; rewrite Z.add_0_r; reflexivity).
    destruct (0 <? pos - v_pcm s) eqn:E2; [|lia].
    assert (rem1 s1 = rem1 s) as Hr1 by reflexivity.
    assert (stream s1 = p :: q' ++ flat_map pg_pkts (rem1 s)) as Hst1 by (unfold stream; rewrite Hr1; unfold s1; cbn; rewrite Eq; reflexivity).
    assert (PlainRem s1) as Hpl1 by exact Hpl.
    assert (Forall audio (stream s1)) as Hau.
    { rewrite Hst1. constructor; [exists w; exact Hw|]. eapply intact_audio. exact Hin. }
    destruct (fetch_plain (fetch_fuel s1) s1 p (q' ++ flat_map pg_pkts (rem1 s)) Hrs Hpl1 Hau) as (w' & s0 & Hw' & Hfe & Hv0 & Hst0 & Hpl0);
      [unfold fetch_fuel; destruct (stream_bound s1 Hpl1) as [B1 B2]; lia|exact Hst1|].
    rewrite Hw in Hw'. injection Hw' as <-. rewrite Hfe. change (1 <=? 0) with false. cbv iota.
    rewrite Hv1 in Hv0.
    assert (Core s0) as Hc0 by (eapply view_core; [symmetry; exact Hv0|exact Hcore]).
    assert (PreSync s0 e p w) as Hps0 by (eapply view_presync; [symmetry; exact Hv0|exact Hps]).
    destruct (feed_presync s0 e p w Hc0 Hps0) as (Hsync & Hout' & HW').
    destruct (view_link _ _ Hv0) as (L1 & L2 & _).
    destruct (link_feed s0 p w) as (L3 & L4).
    apply IH.
    + rewrite stream_feed, Hst0. assert (stream s = p :: q' ++ flat_map pg_pkts (rem1 s)) as Hst by (unfold stream; rewrite Eq; reflexivity).
      rewrite Hst in Hfuel. cbn [length] in Hfuel. destruct (v_pcm (feed s0 p w) <? pos); lia.
    + right. exists e. cbv zeta. rewrite L3, L4, L1, L2, stream_feed, Hst0.
      destruct Hsync as (_ & _ & _ & _ & S5 & S6 & S7 & S8 & S9 & S10 & S11).
      rewrite L3, L1 in S11. rewrite L4, L2 in S9.
      split; [apply core_feed; exact Hc0|]. split; [apply plain_feed; exact Hpl0|].
      rewrite S5. replace (e + (d_cur (v_dec (feed s0 p w)) - d_cur (v_dec (feed s0 p w)))) with e by lia.
      rewrite HW'. rewrite <- S5. fold l. fold l in S11.
      split; [exact S6|]. split; [lia|]. split; [exact S7|]. split; [exact S8|]. split; [exact S9|]. split; [exact S10|]. split; [exact S11|].
      split; [exact Hin|]. split; [right; destruct Hreach as [Hle'|Hre]; [lia|exact Hre]|].
      destruct (view_link _ _ Hv0) as (_ & _ & _ & _ & _ & L8 & _). rewrite S9, <- L2. lia.
  - (* samples pending: discard up to the target *)
    cbv zeta in Hin, Htr, Hreach. set (d := v_dec s) in *. set (l := cur_link s) in *.
    set (n := d_cur d - d_ret d) in *.
    assert (dec_pcmout d = n) as Hout.
    { unfold dec_pcmout, n. destruct ((d_ret d >? -1) && (d_ret d <? d_cur d)) eqn:E; lia. }
    rewrite Hout.
    set (target := pos - v_pcm s) in *.
    set (samples := if n >? target then target else n).
    assert (0 <= samples /\ samples <= n /\ samples <= target) as (Hs_0 & Hs_n & Hs_t) by (unfold samples; destruct (n >? target) eqn:E; unfold n, target in *; lia).
    assert (dec_read d samples = (0, {| d_lW := d_lW d; d_W := d_W d; d_centerW := d_centerW d; d_cur := d_cur d; d_ret := d_ret d + samples;
              d_gran := d_gran d; d_seq := d_seq d; d_count := d_count d; d_eof := d_eof d; d_fresh := d_fresh d |})) as Hrd.
    { unfold dec_read. destruct (negb (samples =? 0) && (d_ret d + samples >? d_cur d)) eqn:E; [lia|reflexivity]. }
    rewrite Hrd. set (d1 := {| d_lW := d_lW d; d_ret := d_ret d + samples |}) in *.
    set (s1 := set_pcm (set_dec s d1) (v_pcm s + samples)).
    assert (Core s1) as Hc1 by exact Hcore.
    assert (PlainRem s1) as Hpl1 by exact Hpl.
    assert (stream s1 = stream s) as Hst1 by reflexivity.
    destruct (samples <? target) eqn:Ecmp.
    + (* everything pending is discarded; next packet *)
      assert (samples = n) as Hsn by (unfold samples in *; destruct (n >? target) eqn:E; lia).
      assert (Reaches l false (e + n) (d_W d) (stream s) (pos - base_of s (v_link s))) as Hre by (destruct Hreach as [Hle'|Hre]; [unfold target in *; lia|exact Hre]).
      destruct (stream s) as [|p r] eqn:Est; [exfalso; exact Hre|].
      cbn [IntactS] in Hin. destruct Hin as (w & Hw & Heos & Hg & Hrest).
      cbn [Reaches] in Hre. rewrite Hw in Hre.
      assert (Forall audio (stream s1)) as Hau.
      { rewrite Hst1. constructor; [exists w; exact Hw|]. eapply intact_audio. exact Hrest. }
      destruct (fetch_plain (fetch_fuel s1) s1 p r Hrs Hpl1 Hau) as (w' & s0 & Hw' & Hfe & Hv0 & Hst0 & Hpl0);
        [unfold fetch_fuel; destruct (stream_bound s1 Hpl1) as [B1 B2]; lia|exact Hst1|].
      rewrite Hw in Hw'. injection Hw' as <-. rewrite Hfe. change (1 <=? 0) with false. cbv iota.
      assert (Core s0) as Hc0 by (eapply view_core; [symmetry; exact Hv0|exact Hc1]).
      destruct (view_link _ _ Hv0) as (L1 & L2 & L5 & L6 & L7 & L8 & _).
      change (cur_link s1) with l in L1. change (base_of s1 (v_link s1)) with (base_of s (v_link s)) in L2.
      change (cur_cfg s1) with (cur_cfg s) in L5. change (v_dec s1) with d1 in L6. change (v_pno s1) with (v_pno s) in L7.
      change (v_pcm s1) with (v_pcm s + samples) in L8.
      assert (SyncInv s0 (e + n)) as Hsy.
      { unfold SyncInv. rewrite L1, L2, L6, L7, L8. destruct Hc0 as (A & _). rewrite A. unfold d1. cbn [d_ret d_cur d_seq d_gran d_count].
        repeat split; try lia. unfold tracking in *. cbn [d_gran d_count]. exact Htr. }
      assert (intact s0 (e + n) p w) as Hint.
      { unfold intact. rewrite L5, L6, L1. unfold d1. cbn [d_W]. rewrite !bsz_blocksize. fold l. split; [exact Heos|].
        destruct Hg as [Hg|Hg]; [left; exact Hg|right]. lia. }
      pose proof (feed_sync_pending s0 (e + n) p w Hsy Hint) as Hfs. cbv zeta in Hfs.
      rewrite L5, L6, L1, L8 in Hfs. change (d_W d1) with (d_W d) in Hfs. rewrite !bsz_blocksize in Hfs. fold l in Hfs.
      set (stp := blocksize l (d_W d) / 4 + blocksize l w / 4) in *.
      destruct Hfs as (G1 & G2 & G3 & G4 & G5 & G6 & G7).
      destruct (link_feed s0 p w) as (L3 & L4).
      apply IH.
      * rewrite stream_feed, Hst0. cbn [length] in Hfuel. destruct (v_pcm (feed s0 p w) <? pos); lia.
      * right. exists (e + n). cbv zeta. rewrite L3, L4, L1, L2, stream_feed, Hst0, G2, G7.
        split; [apply core_feed; exact Hc0|]. split; [apply plain_feed; exact Hpl0|].
        destruct (feed_fields s0 p w) as (_ & _ & _ & _ & _ & _ & _ & _ & F9 & _).
        rewrite F9, G4, G5, L7. repeat split; try assumption; try lia.
    + (* the target lies inside what is pending *)
      apply IH.
      * rewrite Hst1. change (v_pcm s1) with (v_pcm s + samples). destruct (v_pcm s + samples <? pos) eqn:E; [lia|]. lia.
      * right. exists (e + samples). cbv zeta.
        change (cur_link s1) with l. change (v_dec s1) with d1. change (base_of s1 (v_link s1)) with (base_of s (v_link s)).
        change (v_pno s1) with (v_pno s). change (v_pcm s1) with (v_pcm s + samples). rewrite Hst1.
        unfold d1. cbn [d_ret d_cur d_seq d_W].
        replace (e + samples + (d_cur d - (d_ret d + samples))) with (e + n) by lia.
        split; [exact Hc1|]. split; [exact Hpl1|]. repeat split; try assumption; try lia.
Qed.

(* where ov_pcm_seek_page leaves the handle on an intact link: decoder dumped or restarted, the
   reported position is where the first queued packet ends, pages of this link follow, and the
   intact run extends to the target *)
Definition Landed (s1 : vfs) (pos : Z) : Prop :=
  let l := cur_link s1 in let e := v_pcm s1 - base_of s1 (v_link s1) in
  v_hs s1 = 0 /\
  (v_rs s1 = STREAMSET \/ (v_rs s1 = INITSET /\ d_ret (v_dec s1) = -1 /\ d_seq (v_dec s1) = -1)) /\
  0 < li_bs0 l /\ 0 < li_bs1 l /\ li_bs0 l <= li_bs1 l /\ li_bs0 l mod 4 = 0 /\ li_bs1 l mod 4 = 0 /\
  0 <= li_init l /\ 0 <= v_pno s1 /\ PlainRem s1 /\ 0 <= e /\ IntactS l true e false (stream s1) /\
  Reaches l true e false (stream s1) (pos - base_of s1 (v_link s1)) /\ v_pcm s1 <= pos.

Lemma landed_ready s1 pos : Landed s1 pos ->
  let s2 := make_ready s1 in Core s2 /\ PlainRem s2 /\ DPhase s2 0 pos /\ stream s2 = stream s1 /\ v_rem s2 = v_rem s1 /\ v_q s2 = v_q s1.
Proof.
  intros (Hhs & Hrs & Hb0 & Hb1 & Hb01 & Hm0 & Hm1 & Hi & Hpno & Hpl & He & Hin & Hre & Hle).
  unfold make_ready. destruct Hrs as [Hrs|(Hrs & Hret & Hseq)]; rewrite Hrs.
  - change (STREAMSET =? STREAMSET) with true. cbv iota.
    set (s2 := set_rs (set_dec s1 (dec_init (cur_cfg s1))) INITSET).
    assert (cur_link s2 = cur_link s1) as HL by reflexivity.
    split; [unfold Core; rewrite HL; repeat split; assumption|].
    split; [exact Hpl|]. split; [|repeat split; reflexivity].
    unfold DPhase. rewrite HL. change (base_of s2 (v_link s2)) with (base_of s1 (v_link s1)). change (v_pcm s2) with (v_pcm s1).
    change (stream s2) with (stream s1). change (v_dec s2) with (dec_init (cur_cfg s1)).
    split; [exact He|]. split; [reflexivity|]. left. split; [reflexivity|]. split; [reflexivity|]. split; [exact Hin|]. split; [exact Hre|exact Hle].
  - change (INITSET =? STREAMSET) with false. cbv iota.
    split; [unfold Core; repeat split; assumption|]. split; [exact Hpl|]. split; [|repeat split; reflexivity].
    unfold DPhase. split; [exact He|]. split; [exact Hret|]. left. split; [reflexivity|]. split; [exact Hseq|]. split; [exact Hin|]. split; [exact Hre|exact Hle].
Qed.

(* ov_pcm_seek on an intact link: the position it reports is truthful *)
Theorem pcm_seek_truthful s pos s1 :
  pcm_seek_page s pos = (0, s1) -> Landed s1 pos ->
  fst (pcm_seek s pos) = 0 /\ Truthful (snd (pcm_seek s pos)) pos /\ v_pcm (snd (pcm_seek s pos)) = pos.
Proof.
  intros Hpage Hland. unfold pcm_seek. rewrite Hpage. change (0 <? 0) with false. cbv iota. cbn [fst snd].
  split; [reflexivity|].
  destruct (landed_ready s1 pos Hland) as (Hc2 & Hpl2 & Hd2 & Hst2 & Hr2 & Hq2).
  set (s2 := make_ready s1) in *.
  pose proof (seek_discard_ready (length (v_rem s2) + pkt_count (v_rem s2) + length (v_q s2) + 2) s2 pos 0) as Hdis.
  set (s3 := seek_discard (length (v_rem s2) + pkt_count (v_rem s2) + length (v_q s2) + 2) s2 pos 0) in *.
  assert (Ready s3 pos) as Hready.
  { apply Hdis; try assumption. destruct (stream_bound s2 Hpl2) as [B1 B2]. lia. }
  assert (PlainRem s3) as Hpl3 by (destruct Hready as (p & q' & w & e & _ & _ & _ & _ & _ & H & _); exact H).
  destruct (seek_skip_truthful (pkt_count (v_rem s3) + length (v_q s3) + 3) s3 pos) as [HT Hge]; [|left; exact Hready|].
  { destruct (stream_bound s3 Hpl3) as [B1 B2]. destruct (v_pcm s3 <? pos); lia. }
  split; [exact HT|].
  assert (v_pcm (seek_skip (pkt_count (v_rem s3) + length (v_q s3) + 3) s3 pos) <= pos) as Hle.
  { destruct HT as [(p & q' & w & e & _ & _ & _ & _ & _ & _ & _ & H)|(e & _ & _ & _ & _ & _ & _ & _ & _ & _ & _ & _ & H)]; exact H. }
  lia.
Qed.

(* what "truthful" buys: the samples delivered next are those at the reported position *)
Lemma nready_drain s pos : NReady s pos ->
  exists e, v_pcm s = base_of s (v_link s) + e /\
    let '(n, s2) := drain s in
    0 <= n /\ SyncInv s2 (e + n) /\ v_pcm s2 = v_pcm s + n /\
    IntactS (cur_link s) false (e + n) (d_W (v_dec s2)) (stream s2).
Proof.
  intros (e & Hcore & Hpl & Hr0 & Hrc & Hs0 & Hs1 & Hpcm & He0 & Htr & Hin & _). cbv zeta in *.
  exists e. split; [exact Hpcm|]. unfold drain.
  set (d := v_dec s) in *. set (n := d_cur d - d_ret d) in *.
  assert (dec_pcmout d = n) as Hout.
  { unfold dec_pcmout, n. destruct ((d_ret d >? -1) && (d_ret d <? d_cur d)) eqn:E; lia. }
  rewrite Hout. unfold dec_read. destruct (negb (n =? 0) && (d_ret d + n >? d_cur d)) eqn:E; [lia|].
  destruct Hcore as (Hhs & Hrs & Hb0 & Hb1 & Hb01 & Hm0 & Hm1 & Hi & Hpno).
  split; [lia|]. split; [|split; [reflexivity|exact Hin]].
  unfold SyncInv. cbn [v_hs v_dec v_pno v_pcm set_pcm set_dec d_ret d_cur d_seq].
  change (cur_link (set_pcm (set_dec s _) _)) with (cur_link s).
  change (base_of (set_pcm (set_dec s _) _) _) with (base_of s (v_link s)).
  repeat split; try assumption; try lia.
Qed.

(* executable versions of the file conditions, so that they can be evaluated on concrete page tables *)
Fixpoint intactSb (l : linfo) (first : bool) (e : Z) (lW : bool) (ps : list pkt) : bool :=
  match ps with
  | [] => true
  | p :: r => match pk_W p with
              | None => false
              | Some w => let eh := if first then e else e + (blocksize l lW / 4 + blocksize l w / 4) in
                          negb (pk_eos p) && ((pk_gran p =? -1) || (pk_gran p =? li_init l + eh)) && intactSb l false eh w r
              end
  end.
Fixpoint reachesb (l : linfo) (first : bool) (e : Z) (lW : bool) (ps : list pkt) (target : Z) : bool :=
  match ps with
  | [] => false
  | p :: r => match pk_W p with
              | None => false
              | Some w => let eh := if first then e else e + (blocksize l lW / 4 + blocksize l w / 4) in
                          (target <=? eh) || reachesb l false eh w r target
              end
  end.
Lemma intactSb_ok l : forall ps first e lW, intactSb l first e lW ps = true -> IntactS l first e lW ps.
Proof.
  induction ps as [|p r IH]; intros first e lW H; cbn [intactSb IntactS] in *; [exact I|].
  destruct (pk_W p) as [w|]; [|discriminate]. exists w. split; [reflexivity|].
  apply andb_prop in H. destruct H as [H H3]. apply andb_prop in H. destruct H as [H1 H2].
  split; [destruct (pk_eos p); [discriminate|reflexivity]|]. split; [|apply IH; exact H3].
  apply orb_prop in H2. destruct H2 as [H2|H2]; [left|right]; lia.
Qed.
Lemma reachesb_ok l : forall ps first e lW target, reachesb l first e lW ps target = true -> Reaches l first e lW ps target.
Proof.
  induction ps as [|p r IH]; intros first e lW target H; cbn [reachesb Reaches] in *; [discriminate|].
  destruct (pk_W p) as [w|]; [|discriminate].
  apply orb_prop in H. destruct H as [H|H]; [left; lia|right; apply IH; exact H].
Qed.
Definition file_intactb (s1 : vfs) (pos : Z) : bool :=
  let l := cur_link s1 in let e := v_pcm s1 - base_of s1 (v_link s1) in
  (0 <? li_bs0 l) && (0 <? li_bs1 l) && (li_bs0 l <=? li_bs1 l) && (li_bs0 l mod 4 =? 0) && (li_bs1 l mod 4 =? 0) && (0 <=? li_init l) &&
  negb (v_fresh s1) &&
  forallb (fun pg => (pg_serial pg =? v_serial s1) && negb (pg_bos pg)) (rem1 s1) &&
  intactSb l true e false (stream s1) && reachesb l true e false (stream s1) (pos - base_of s1 (v_link s1)).

(* the part of the landing condition that is about the file: block sizes of the link, pages of
   this link only up to `tail`, and an intact run of packets that extends to the target *)
Definition FileIntact (s1 : vfs) (pos : Z) : Prop :=
  let l := cur_link s1 in let e := v_pcm s1 - base_of s1 (v_link s1) in
  0 < li_bs0 l /\ 0 < li_bs1 l /\ li_bs0 l <= li_bs1 l /\ li_bs0 l mod 4 = 0 /\ li_bs1 l mod 4 = 0 /\ 0 <= li_init l /\
  PlainRem s1 /\ IntactS l true e false (stream s1) /\ Reaches l true e false (stream s1) (pos - base_of s1 (v_link s1)).

Lemma file_intactb_ok s1 pos : file_intactb s1 pos = true -> v_rem s1 = rem1 s1 ++ tail -> FileIntact s1 pos.
Proof.
  unfold file_intactb, FileIntact, PlainRem. intros H Hsplit.
  repeat (apply andb_prop in H; let H' := fresh "C" in destruct H as [H H']).
  apply intactSb_ok in C0. apply reachesb_ok in C.
  assert (Forall (plain (v_serial s1)) (rem1 s1)) as Hpl.
  { apply Forall_forall. intros pg Hin. rewrite forallb_forall in C1. specialize (C1 pg Hin).
    apply andb_prop in C1. destruct C1 as [A B]. split; [lia|destruct (pg_bos pg); [discriminate|reflexivity]]. }
  repeat split; try assumption; try lia. destruct (v_fresh s1); [discriminate|reflexivity].
Qed.

(* ov_pcm_seek, full rate, any opened handle: if the page seek succeeds (without the continued-packet
   fallback) and what follows the landing point is an intact run reaching the target, then the seek
   reports exactly pos and that position is truthful *)
Theorem pcm_seek_intact s pos s1 :
  v_hs s = 0 -> OPENED <= v_rs s <= INITSET ->
  pcm_seek_page s pos = (0, s1) -> fallback s pos = false -> FileIntact s1 pos ->
  fst (pcm_seek s pos) = 0 /\ Truthful (snd (pcm_seek s pos)) pos /\ v_pcm (snd (pcm_seek s pos)) = pos.
Proof.
  intros Hhs Hrs Hpage Hfb (Hb0 & Hb1 & Hb01 & Hm0 & Hm1 & Hi & Hpl & Hin & Hre).
  destruct (page_seek_facts s pos s1 Hpage Hfb Hrs) as (F1 & F2 & F3 & F4 & F5).
  apply (pcm_seek_truthful s pos s1 Hpage).
  unfold Landed. rewrite F1. split; [exact Hhs|]. split; [exact F2|]. repeat (split; [assumption|]). split; [lia|]. split; [exact Hin|]. split; [exact Hre|lia].
Qed.

End Tail.

(* with the tail chosen by run_split the split of the remaining pages holds by construction *)
Lemma auto_tail_split s1 : v_rem s1 = rem1 (auto_tail s1) s1 ++ auto_tail s1.
Proof.
  unfold auto_tail. pose proof (run_split_app (v_serial s1) (v_rem s1)) as H.
  rewrite (rem1_app (snd (run_split (v_serial s1) (v_rem s1))) s1 (fst (run_split (v_serial s1) (v_rem s1))) H). exact H.
Qed.

(* the hypotheses of pcm_seek_intact as one executable test *)
Definition seek_hyps (s : vfs) (pos : Z) : bool :=
  let r := pcm_seek_page s pos in
  (v_hs s =? 0) && (OPENED <=? v_rs s) && (v_rs s <=? INITSET) && (fst r =? 0) && negb (fallback s pos) &&
  file_intactb (auto_tail (snd r)) (snd r) pos.

Theorem pcm_seek_checked s pos :
  seek_hyps s pos = true ->
  fst (pcm_seek s pos) = 0 /\ v_pcm (snd (pcm_seek s pos)) = pos /\
  Truthful (auto_tail (snd (pcm_seek_page s pos))) (snd (pcm_seek s pos)) pos.
Proof.
  unfold seek_hyps. intros H.
  repeat (apply andb_prop in H; let H' := fresh "C" in destruct H as [H H']).
  destruct (pcm_seek_page s pos) as [rc s1] eqn:Ep. cbn [fst snd] in *.
  assert (rc = 0) by lia. subst rc.
  destruct (pcm_seek_intact (auto_tail s1) s pos s1) as (A & B & D); try assumption; try lia.
  - destruct (fallback s pos); [discriminate|reflexivity].
  - apply file_intactb_ok; [exact C|apply auto_tail_split].
  - split; [exact A|]. split; [exact D|exact B].
Qed.

(* ov_pcm_seek_page on an intact run: the position it reports is where the first packet that follows ends, and
   the first fetch after it delivers nothing and leaves the handle in sync exactly there *)
Theorem pcm_seek_page_truthful (tail : list page) s pos s1 :
  v_hs s = 0 -> OPENED <= v_rs s <= INITSET ->
  pcm_seek_page s pos = (0, s1) -> fallback s pos = false -> FileIntact tail s1 pos ->
  let s2 := make_ready s1 in
  let e := v_pcm s1 - base_of s1 (v_link s1) in
  v_pcm s1 <= pos /\
  exists p r w s0,
    stream tail s2 = p :: r /\ pk_W p = Some w /\
    fetch (fetch_fuel s2) s2 = (1, feed s0 p w) /\
    SyncInv (feed s0 p w) e /\ dec_pcmout (v_dec (feed s0 p w)) = 0 /\ v_pcm (feed s0 p w) = v_pcm s1 /\
    IntactS (cur_link s1) false e w r.
Proof.
  intros Hhs Hrs Hpage Hfb (Hb0 & Hb1 & Hb01 & Hm0 & Hm1 & Hi & Hpl & Hin & Hre).
  destruct (page_seek_facts s pos s1 Hpage Hfb Hrs) as (F1 & F2 & F3 & F4 & F5).
  assert (Landed tail s1 pos) as Hland.
  { unfold Landed. rewrite F1. split; [exact Hhs|]. split; [exact F2|]. repeat (split; [assumption|]). split; [lia|]. split; [exact Hin|]. split; [exact Hre|lia]. }
  destruct (landed_ready tail s1 pos Hland) as (Hc2 & Hpl2 & Hd2 & Hst2 & Hr2 & Hq2).
  cbv zeta. set (s2 := make_ready s1) in *. split; [exact F5|].
  destruct Hd2 as (He0 & Hret & Hph).
  assert (cur_link s2 = cur_link s1 /\ base_of s2 (v_link s2) = base_of s1 (v_link s1) /\ v_pcm s2 = v_pcm s1) as (L1 & L2 & L3).
  { unfold s2, make_ready. destruct (v_rs s1 =? STREAMSET); repeat split; reflexivity. }
  rewrite L1, L2, L3 in Hph. rewrite L2, L3 in He0.
  set (e := v_pcm s1 - base_of s1 (v_link s1)) in *.
  destruct Hph as [(_ & Hseq & Hin2 & Hre2 & _)|(Hlb & _)].
  2: { exfalso. destruct Hc2 as (_ & _ & B0 & B1 & _). rewrite L1 in B0, B1. unfold blocksize in Hlb. destruct (d_W (v_dec s2)); lia. }
  destruct (stream tail s2) as [|p r] eqn:Est; [exfalso; exact Hre2|].
  cbn [IntactS] in Hin2. destruct Hin2 as (w & Hw & Heos & Hg & Hrest).
  assert (Forall audio (stream tail s2)) as Hau.
  { rewrite Est. constructor; [exists w; exact Hw|]. eapply intact_audio. exact Hrest. }
  pose proof Hc2 as (_ & Hrs2 & _).
  destruct (fetch_plain tail (fetch_fuel s2) s2 p r Hrs2 Hpl2 Hau) as (w' & s0 & Hw' & Hfe & Hv0 & Hst0 & Hpl0);
    [unfold fetch_fuel; destruct (stream_bound tail s2 Hpl2) as [B1 B2]; lia|exact Est|].
  rewrite Hw in Hw'. injection Hw' as <-.
  assert (Core s0) as Hc0 by (eapply view_core; [symmetry; exact Hv0|exact Hc2]).
  assert (PreSync s2 e p w) as Hps.
  { unfold PreSync. rewrite L1, L2, L3. repeat split; try assumption; try (unfold e; lia). }
  assert (PreSync s0 e p w) as Hps0 by (eapply view_presync; [symmetry; exact Hv0|exact Hps]).
  destruct (feed_presync s0 e p w Hc0 Hps0) as (Hsync & Hout & HW).
  exists p, r, w, s0. split; [reflexivity|]. split; [exact Hw|]. split; [exact Hfe|]. split; [exact Hsync|]. split; [exact Hout|].
  split; [|exact Hrest].
  destruct Hsync as (_ & _ & _ & _ & _ & _ & _ & _ & S9 & _).
  destruct (link_feed s0 p w) as (_ & L4). destruct (view_link _ _ Hv0) as (_ & L5 & _).
  rewrite S9, L4, L5, L2. unfold e. lia.
Qed.

(* ------------------------------------------------------------------ *)
(* ov_raw_seek                                                          *)
(* ------------------------------------------------------------------ *)

(* what ov_raw_seek's scan computes from the packets of the page it lands on: the block steps accumulated
   up to the first packet that carries a granule position, and that granule position *)
Fixpoint scan_acc (l : linfo) (last acc : Z) (ps : list pkt) : option (Z * Z) :=
  match ps with
  | [] => None
  | p :: r =>
      match pk_W p with
      | None => None
      | Some w =>
          let tb := blocksize l w in
          let acc1 := if negb (last =? 0) then acc + Z.shiftr (last + tb) 2 else acc in
          if negb (pk_gran p =? -1) then Some (acc1, pk_gran p) else scan_acc l tb acc1 r
      end
  end.

Definition mk_r (last acc : Z) (lf ff : bool) (wq : list pkt) (wf : bool) : rscan :=
  {| r_last := last; r_acc := acc; r_lastflag := lf; r_firstflag := ff; r_wq := wq; r_wfresh := wf |}.

(* scanning the packets of the work queue (not on a last-and-not-first page): only the position changes *)
Lemma raw_scan_packets : forall ps fuel s last acc lf ff wf a g,
  (length ps < fuel)%nat -> v_rs s >= STREAMSET -> (lf && negb ff) = false ->
  0 < li_bs0 (cur_link s) -> 0 < li_bs1 (cur_link s) ->
  (last = 0 \/ 0 < last) ->
  scan_acc (cur_link s) last acc ps = Some (a, g) ->
  raw_scan fuel s (mk_r last acc lf ff ps wf) =
  set_pcm s ((let g1 := (let g0 := g - li_init (cur_link s) in if g0 <? 0 then 0 else g0) - a in if g1 <? 0 then 0 else g1) + base_of s (v_link s)).
Proof.
  induction ps as [|p r IH]; intros fuel s last acc lf ff wf a g Hf Hrs Hlf Hb0 Hb1 Hlast Hsc; [discriminate|].
  destruct fuel as [|f]; [cbn in Hf; lia|].
  cbn [scan_acc] in Hsc. destruct (pk_W p) as [w|] eqn:Ew; [|discriminate].
  cbn [raw_scan]. cbv zeta. unfold mk_r. cbn [r_wq r_last r_acc r_lastflag r_firstflag r_wfresh].
  assert ((v_rs s >=? STREAMSET) = true) as -> by lia.
  rewrite Ew, Hlf.
  set (tb := blocksize (cur_link s) w) in *.
  set (acc1 := if negb (last =? 0) then acc + Z.shiftr (last + tb) 2 else acc) in *.
  destruct (negb (pk_gran p =? -1)) eqn:Eg.
  - inversion Hsc; subst a g. reflexivity.
  - assert (0 < tb) by (unfold tb, blocksize; destruct w; lia).
    apply (IH f s tb acc1 lf ff wf a g); try assumption; [cbn in Hf; lia|right; lia].
Qed.


Section Link.
Variable l : linfo.
Hypothesis Hb0 : 0 < li_bs0 l.
Hypothesis Hb1 : 0 < li_bs1 l.
Hypothesis Hm0 : li_bs0 l mod 4 = 0.
Hypothesis Hm1 : li_bs1 l mod 4 = 0.

Lemma bs_props w : 0 < blocksize l w /\ blocksize l w mod 4 = 0.
Proof using Hb0 Hb1 Hm0 Hm1. unfold blocksize. destruct w; split; assumption. Qed.

(* on an intact run the scan recovers the position where the FIRST packet ends *)
Lemma scan_intact_gen : forall ps e lW last acc e0 a g,
  IntactS l false e lW ps -> last = blocksize l lW -> acc = e - e0 -> e0 <= e ->
  scan_acc l last acc ps = Some (a, g) -> g - li_init l - a = e0 /\ e0 <= g - li_init l.
Proof using Hb0 Hb1 Hm0 Hm1.
  induction ps as [|p r IH]; intros e lW last acc e0 a g Hin Hlast Hacc Hle Hsc; [discriminate|].
  cbn [IntactS] in Hin. destruct Hin as (w & Hw & Heos & Hg & Hrest).
  cbn [scan_acc] in Hsc. rewrite Hw in Hsc.
  destruct (bs_props lW) as [P1 P2]. destruct (bs_props w) as [P3 P4].
  assert (negb (last =? 0) = true) as Hn by (rewrite Hlast; lia). rewrite Hn in Hsc.
  assert (Z.shiftr (last + blocksize l w) 2 = blocksize l lW / 4 + blocksize l w / 4) as Hsh.
  { rewrite Hlast, Z.shiftr_div_pow2 by lia. change (2 ^ 2) with 4. clear - P2 P4. set (x := blocksize l lW) in *. set (y := blocksize l w) in *. clearbody x y. lia. }
  rewrite Hsh in Hsc.
  set (eh := e + (blocksize l lW / 4 + blocksize l w / 4)) in *.
  assert (0 <= blocksize l lW / 4 + blocksize l w / 4) as Hst by lia.
  destruct (negb (pk_gran p =? -1)) eqn:Eg.
  - inversion Hsc; subst a g. destruct Hg as [Hg|Hg]; [lia|]. rewrite Hg. unfold eh. lia.
  - destruct (IH eh w (blocksize l w) (acc + (blocksize l lW / 4 + blocksize l w / 4)) e0 a g Hrest eq_refl ltac:(unfold eh; lia) ltac:(unfold eh; lia) Hsc) as [A B].
    split; assumption.
Qed.

Lemma scan_intact_first : forall ps e0 a g,
  IntactS l true e0 false ps -> scan_acc l 0 0 ps = Some (a, g) -> g - li_init l - a = e0 /\ e0 <= g - li_init l.
Proof using Hb0 Hb1 Hm0 Hm1.
  intros [|p r] e0 a g Hin Hsc; [discriminate|].
  cbn [IntactS] in Hin. destruct Hin as (w & Hw & Heos & Hg & Hrest).
  cbn [scan_acc] in Hsc. rewrite Hw in Hsc. cbn [Z.eqb negb] in Hsc.
  destruct (negb (pk_gran p =? -1)) eqn:Eg.
  - inversion Hsc; subst a g. destruct Hg as [Hg|Hg]; [lia|]. rewrite Hg. lia.
  - apply (scan_intact_gen r e0 w (blocksize l w) 0 e0 a g Hrest eq_refl ltac:(lia) ltac:(lia) Hsc).
Qed.
End Link.


Lemma IntactS_app_l l : forall ps first e lW rest, IntactS l first e lW (ps ++ rest) -> IntactS l first e lW ps.
Proof.
  induction ps as [|p r IH]; intros first e lW rest H; [exact I|].
  cbn [app IntactS] in *. destruct H as (w & A & B & C & D). exists w. repeat split; try assumption. eapply IH. exact D.
Qed.

(* ov_raw_seek into the link the handle is decoding, onto a page of that link that is not its last one and
   completes a packet with a granule position, the packets from there on forming an intact run whose first
   packet ends at e0: the seek reports base + e0 and leaves the handle "landed" (restarted decoder, the
   queue holding exactly that run) - from where fetches and reads are truthful by the theorems above *)
Theorem raw_seek_truthful (tail : list page) s pos pg (r1 : list page) e0 :
  let l := cur_link s in
  let pk := if pg_cont pg then tl (pg_pkts pg) else pg_pkts pg in
  v_hs s = 0 -> v_rs s >= STREAMSET -> v_rs s <= INITSET ->
  0 <= pos <= file_end s -> li_off l <= pos < li_end l ->
  pages_from (v_pages s) pos = pg :: r1 ++ tail ->
  plain (v_serial s) pg -> pg_eos pg = false -> Forall (plain (v_serial s)) r1 ->
  0 < li_bs0 l -> 0 < li_bs1 l -> li_bs0 l <= li_bs1 l -> li_bs0 l mod 4 = 0 -> li_bs1 l mod 4 = 0 -> 0 <= li_init l ->
  0 <= e0 -> IntactS l true e0 false (pk ++ flat_map pg_pkts r1) -> scan_acc l 0 0 pk <> None ->
  let s' := snd (raw_seek s pos) in
  fst (raw_seek s pos) = 0 /\ v_pcm s' = base_of s (v_link s) + e0 /\ Landed tail s' (v_pcm s').
Proof.
  intros l pk Hhs Hrs1 Hrs2 Hpos Hin_link Hpages [Hser Hbos] Heos Hplain Hb0 Hb1 Hb01 Hm0 Hm1 Hi He0 Hint Hsome.
  unfold raw_seek.
  assert ((v_rs s <? OPENED) = false) as -> by (unfold OPENED, STREAMSET in *; lia).
  assert (((pos <? 0) || (pos >? file_end s)) = false) as -> by lia.
  assert (((v_rs s >=? STREAMSET) && ((pos <? li_off (cur_link s)) || (pos >=? li_end (cur_link s)))) = false) as -> by (fold l; lia).
  cbv zeta. cbn [fst snd].
  set (s2 := set_pcm (os_reset s) (-1)).
  set (s3 := set_dec s2 (dec_restart (cur_cfg s2) (v_dec s2))).
  set (s4 := set_rem s3 (pages_from (v_pages s3) pos)).
  assert (v_rem s4 = pg :: r1 ++ tail) as Hrem4 by (unfold s4; cbn [v_rem set_rem]; exact Hpages).
  rewrite Hrem4.
  set (fuel := (length (pg :: r1 ++ tail) + pkt_count (pg :: r1 ++ tail) + 2)%nat).
  destruct (scan_acc l 0 0 pk) as [[a g]|] eqn:Esc; [|congruence].
  assert (exists p0 r0, pk = p0 :: r0) as (p0 & r0 & Hpk) by (destruct pk as [|p0 r0]; [discriminate|eauto]).
  (* first iteration: the work queue is empty, the landing page is fetched into both stream states *)
  assert (fuel = S (length (r1 ++ tail) + pkt_count (pg :: r1 ++ tail) + 2))%nat as Hfu by (unfold fuel; cbn [length]; lia).
  rewrite Hfu. cbn [raw_scan]. cbv zeta. cbn [r_wq r_last].
  assert ((v_rs s4 >=? STREAMSET) = true) as -> by (unfold s4, s3, s2; cbn; lia).
  cbn [Z.eqb negb]. rewrite Hrem4.
  set (s5 := set_rem s4 (r1 ++ tail)).
  assert (v_serial s5 = v_serial s /\ v_rs s5 = v_rs s /\ v_fresh s5 = true /\ v_q s5 = [] /\ v_pno s5 = 0) as (Q1 & Q2 & Q3 & Q4 & Q5) by (repeat split; reflexivity).
  rewrite Q1, Q2, Hser, Z.eqb_refl. cbn [negb andb]. rewrite andb_false_r.
  cbn [andb]. rewrite Q2. assert ((v_rs s <? STREAMSET) = false) as -> by lia.
  set (ff := pg_off pg <=? li_dataoff (cur_link s5)).
  (* both queues receive the packets that start on this page *)
  assert (os_pagein s5 pg = set_q s5 pk false 0) as Hpi.
  { unfold os_pagein. rewrite Q1, Hser, Z.eqb_refl, Q3, Q4. cbn [negb andb app]. unfold pk in *.
    destruct (pg_cont pg).
    - destruct (pg_pkts pg) as [|x y]; [cbn in Hpk; discriminate|]. cbn [tl]. rewrite Q5. reflexivity.
    - rewrite Q5. reflexivity. }
  rewrite Hpi.
  set (s6 := set_q s5 pk false 0).
  assert (work_pagein {| r_last := 0; r_acc := 0; r_lastflag := false; r_firstflag := false; r_wq := []; r_wfresh := true |} pg (pg_eos pg) ff =
          mk_r 0 0 false ff pk (if pg_cont pg then (match pg_pkts pg with [] => true | _ => false end) else false)) as Hwp.
  { unfold work_pagein, mk_r. cbn [r_last r_acc r_wq r_wfresh andb app]. rewrite Heos. unfold pk. reflexivity. }
  rewrite Hwp.
  assert (cur_link s6 = l /\ base_of s6 (v_link s6) = base_of s (v_link s)) as [L6 B6] by (split; reflexivity).
  rewrite (raw_scan_packets pk _ s6 0 0 false ff _ a g); try (rewrite L6; assumption); try (left; reflexivity); try reflexivity.
  2: { assert (length pk <= length (pg_pkts pg))%nat by (unfold pk; destruct (pg_cont pg); [destruct (pg_pkts pg); cbn; lia|lia]). cbn [pkt_count]. lia. }
  2: { unfold s6, s5, s4, s3, s2. cbn. lia. }
  rewrite L6, B6.
  destruct (scan_intact_first l Hb0 Hb1 Hm0 Hm1 pk e0 a g) as [A B].
  { eapply IntactS_app_l. exact Hint. }
  { exact Esc. }
  assert ((let g1 := (let g0 := g - li_init l in if g0 <? 0 then 0 else g0) - a in if g1 <? 0 then 0 else g1) = e0) as Hval.
  { cbv zeta. destruct (g - li_init l <? 0) eqn:E1; [lia|]. destruct (g - li_init l - a <? 0) eqn:E2; lia. }
  rewrite Hval.
  set (s' := set_pcm s6 (e0 + base_of s (v_link s))).
  split; [reflexivity|]. split; [cbn; lia|].
  (* the landing condition *)
  assert (rem1 tail s' = r1) as Hr1 by (apply rem1_app; reflexivity).
  assert (stream tail s' = pk ++ flat_map pg_pkts r1) as Hst by (unfold stream; rewrite Hr1; reflexivity).
  unfold Landed. change (cur_link s') with l. change (base_of s' (v_link s')) with (base_of s (v_link s)).
  change (v_pcm s') with (e0 + base_of s (v_link s)). rewrite Hst.
  replace (e0 + base_of s (v_link s) - base_of s (v_link s)) with e0 by lia.
  split; [exact Hhs|]. split.
  { change (v_rs s') with (v_rs s). unfold STREAMSET, INITSET in *. assert (v_rs s = 3 \/ v_rs s = 4) as [H|H] by lia; [left; exact H|right].
    split; [exact H|]. split; reflexivity. }
  repeat (split; [assumption|]).
  split; [cbn; lia|]. split.
  { unfold PlainRem. rewrite Hr1. split; [reflexivity|]. split; [reflexivity|]. exact Hplain. }
  split; [exact He0|]. split; [exact Hint|]. split; [|lia].
  rewrite Hpk in *. cbn [app IntactS Reaches] in *. destruct Hint as (w & Hw & _). rewrite Hw. left. lia.
Qed.


(* from a landed handle the first fetch delivers nothing and leaves the handle in sync at the reported position *)
Lemma landed_fetch (tail : list page) s1 pos : Landed tail s1 pos ->
  let s2 := make_ready s1 in
  let e := v_pcm s1 - base_of s1 (v_link s1) in
  exists p r w s0,
    stream tail s2 = p :: r /\ pk_W p = Some w /\
    fetch (fetch_fuel s2) s2 = (1, feed s0 p w) /\
    SyncInv (feed s0 p w) e /\ dec_pcmout (v_dec (feed s0 p w)) = 0 /\ v_pcm (feed s0 p w) = v_pcm s1 /\
    IntactS (cur_link s1) false e w r.
Proof.
  intros Hland.
  destruct (landed_ready tail s1 pos Hland) as (Hc2 & Hpl2 & Hd2 & Hst2 & Hr2 & Hq2).
  cbv zeta. set (s2 := make_ready s1) in *.
  destruct Hd2 as (He0 & Hret & Hph).
  assert (cur_link s2 = cur_link s1 /\ base_of s2 (v_link s2) = base_of s1 (v_link s1) /\ v_pcm s2 = v_pcm s1) as (L1 & L2 & L3).
  { unfold s2, make_ready. destruct (v_rs s1 =? STREAMSET); repeat split; reflexivity. }
  rewrite L1, L2, L3 in Hph. rewrite L2, L3 in He0.
  set (e := v_pcm s1 - base_of s1 (v_link s1)) in *.
  destruct Hph as [(_ & Hseq & Hin2 & Hre2 & _)|(Hlb & _)].
  2: { exfalso. destruct Hc2 as (_ & _ & B0 & B1 & _). rewrite L1 in B0, B1. unfold blocksize in Hlb. destruct (d_W (v_dec s2)); lia. }
  destruct (stream tail s2) as [|p r] eqn:Est; [exfalso; exact Hre2|].
  cbn [IntactS] in Hin2. destruct Hin2 as (w & Hw & Heos & Hg & Hrest).
  assert (Forall audio (stream tail s2)) as Hau.
  { rewrite Est. constructor; [exists w; exact Hw|]. eapply intact_audio. exact Hrest. }
  pose proof Hc2 as (_ & Hrs2 & _).
  destruct (fetch_plain tail (fetch_fuel s2) s2 p r Hrs2 Hpl2 Hau) as (w' & s0 & Hw' & Hfe & Hv0 & Hst0 & Hpl0);
    [unfold fetch_fuel; destruct (stream_bound tail s2 Hpl2) as [B1 B2]; lia|exact Est|].
  rewrite Hw in Hw'. injection Hw' as <-.
  assert (Core s0) as Hc0 by (eapply view_core; [symmetry; exact Hv0|exact Hc2]).
  assert (PreSync s2 e p w) as Hps.
  { unfold PreSync. rewrite L1, L2, L3. repeat split; try assumption; try (unfold e; lia). }
  assert (PreSync s0 e p w) as Hps0 by (eapply view_presync; [symmetry; exact Hv0|exact Hps]).
  destruct (feed_presync s0 e p w Hc0 Hps0) as (Hsync & Hout & HW).
  exists p, r, w, s0. split; [reflexivity|]. split; [exact Hw|]. split; [exact Hfe|]. split; [exact Hsync|]. split; [exact Hout|].
  split; [|exact Hrest].
  destruct Hsync as (_ & _ & _ & _ & _ & _ & _ & _ & S9 & _).
  destruct (link_feed s0 p w) as (_ & L4). destruct (view_link _ _ Hv0) as (_ & L5 & _).
  rewrite S9, L4, L5, L2. unfold e. lia.
Qed.

(* a freshly opened handle positioned at the start of a link whose first packets form an intact run *)
Definition start_hyps (s : vfs) : bool :=
  (v_hs s =? 0) && (v_rs s =? STREAMSET) && (0 <=? v_pno s) && (v_pcm s =? base_of s (v_link s)) &&
  file_intactb (auto_tail s) s (v_pcm s).

(* reading from the start: the first fetch delivers nothing and leaves the handle in sync at position 0 of the
   link; from there C07_linear_read_positions_truthful and C09_link_read_accounts_for_every_sample apply *)
Theorem read_from_start s :
  start_hyps s = true ->
  let s2 := make_ready s in
  exists p r w s0,
    stream (auto_tail s) s2 = p :: r /\ pk_W p = Some w /\
    fetch (fetch_fuel s2) s2 = (1, feed s0 p w) /\
    SyncInv (feed s0 p w) 0 /\ dec_pcmout (v_dec (feed s0 p w)) = 0 /\ v_pcm (feed s0 p w) = v_pcm s /\
    IntactS (cur_link s) false 0 w r.
Proof.
  unfold start_hyps. intros H.
  repeat (apply andb_prop in H; let H' := fresh "C" in destruct H as [H H']).
  pose proof (file_intactb_ok (auto_tail s) s (v_pcm s) C (auto_tail_split s)) as (Hb0 & Hb1 & Hb01 & Hm0 & Hm1 & Hi & Hpl & Hin & Hre).
  assert (Landed (auto_tail s) s (v_pcm s)) as Hland.
  { unfold Landed. split; [lia|]. split; [left; lia|]. repeat (split; [assumption|]). split; [lia|]. split; [exact Hpl|].
    split; [lia|]. split; [exact Hin|]. split; [exact Hre|lia]. }
  pose proof (landed_fetch (auto_tail s) s (v_pcm s) Hland) as Hf. cbv zeta in Hf.
  replace (v_pcm s - base_of s (v_link s)) with 0 in Hf by lia. exact Hf.
Qed.

(* ov_raw_seek that leaves the link being decoded (or starts from a handle without decoder): the first page
   after the byte position selects link j; the rest is as in raw_seek_truthful *)
Theorem raw_seek_truthful_other_link (tail : list page) s pos pg (r1 : list page) j e0 :
  let l := nth_link s j in
  let pk := if pg_cont pg then tl (pg_pkts pg) else pg_pkts pg in
  v_hs s = 0 -> OPENED <= v_rs s <= INITSET ->
  0 <= pos <= file_end s ->
  (v_rs s = OPENED \/ pos < li_off (cur_link s) \/ li_end (cur_link s) <= pos) ->
  pages_from (v_pages s) pos = pg :: r1 ++ tail ->
  find_link (v_links s) (pg_serial pg) 0 = Some j -> 0 <= j ->
  pg_eos pg = false -> Forall (plain (pg_serial pg)) r1 ->
  0 < li_bs0 l -> 0 < li_bs1 l -> li_bs0 l <= li_bs1 l -> li_bs0 l mod 4 = 0 -> li_bs1 l mod 4 = 0 -> 0 <= li_init l ->
  0 <= e0 -> IntactS l true e0 false (pk ++ flat_map pg_pkts r1) -> scan_acc l 0 0 pk <> None ->
  let s' := snd (raw_seek s pos) in
  fst (raw_seek s pos) = 0 /\ v_link s' = j /\ v_pcm s' = base_of s j + e0 /\ Landed tail s' (v_pcm s').
Proof.
  intros l pk Hhs Hrs Hpos Hout Hpages Hfind Hj Heos Hplain Hb0 Hb1 Hb01 Hm0 Hm1 Hi He0 Hint Hsome.
  unfold raw_seek.
  assert ((v_rs s <? OPENED) = false) as -> by lia.
  assert (((pos <? 0) || (pos >? file_end s)) = false) as -> by lia.
  cbv zeta. cbn [fst snd].
  set (s1 := if (v_rs s >=? STREAMSET) && ((pos <? li_off (cur_link s)) || (pos >=? li_end (cur_link s))) then decode_clear s else s).
  assert (v_rs s1 = OPENED /\ v_links s1 = v_links s /\ v_pages s1 = v_pages s /\ v_hs s1 = v_hs s) as (R1 & R2 & R3 & R4).
  { unfold s1. destruct ((v_rs s >=? STREAMSET) && ((pos <? li_off (cur_link s)) || (pos >=? li_end (cur_link s)))) eqn:E.
    - repeat split; reflexivity.
    - repeat split; try reflexivity. unfold OPENED, STREAMSET in *. lia. }
  set (s2 := set_pcm (os_reset s1) (-1)).
  set (s3 := set_dec s2 (dec_restart (cur_cfg s2) (v_dec s2))).
  set (s4 := set_rem s3 (pages_from (v_pages s3) pos)).
  assert (v_rem s4 = pg :: r1 ++ tail) as Hrem4 by (unfold s4; cbn [v_rem set_rem]; change (v_pages s3) with (v_pages s1); rewrite R3; exact Hpages).
  rewrite Hrem4.
  set (fuel := (length (pg :: r1 ++ tail) + pkt_count (pg :: r1 ++ tail) + 2)%nat).
  destruct (scan_acc l 0 0 pk) as [[a g]|] eqn:Esc; [|congruence].
  assert (exists p0 r0, pk = p0 :: r0) as (p0 & r0 & Hpk) by (destruct pk as [|p0 r0]; [discriminate|eauto]).
  assert (fuel = S (length (r1 ++ tail) + pkt_count (pg :: r1 ++ tail) + 2))%nat as Hfu by (unfold fuel; cbn [length]; lia).
  rewrite Hfu. cbn [raw_scan]. cbv zeta. cbn [r_wq r_last].
  assert (v_rs s4 = OPENED) as R5 by exact R1.
  rewrite R5. change (OPENED >=? STREAMSET) with false. cbv iota. cbn [Z.eqb negb]. rewrite Hrem4.
  set (s5 := set_rem s4 (r1 ++ tail)).
  assert (v_rs s5 = OPENED /\ v_links s5 = v_links s) as (Q2 & Q6) by (split; [exact R1|exact R2]).
  rewrite Q2. change (OPENED >=? STREAMSET) with false. cbn [andb]. rewrite Q2. change (OPENED <? STREAMSET) with true. cbv iota.
  rewrite Q6, Hfind.
  set (s6 := set_rs (os_reset (set_link s5 j (pg_serial pg))) STREAMSET).
  set (ff := pg_off pg <=? li_dataoff (cur_link s6)).
  assert (os_pagein s6 pg = set_q s6 pk false 0) as Hpi.
  { unfold os_pagein. unfold s6 at 1 2 3 4. cbn [v_serial v_fresh v_q v_pno set_rs os_reset set_q set_link]. rewrite Z.eqb_refl. cbn [negb andb app]. unfold pk in *.
    destruct (pg_cont pg).
    - destruct (pg_pkts pg) as [|x y]; [cbn in Hpk; discriminate|]. cbn [tl]. reflexivity.
    - reflexivity. }
  rewrite Hpi.
  set (s7 := set_q s6 pk false 0).
  assert (work_pagein {| r_last := 0; r_acc := 0; r_lastflag := false; r_firstflag := false; r_wq := []; r_wfresh := true |} pg (pg_eos pg) ff =
          mk_r 0 0 false ff pk (if pg_cont pg then (match pg_pkts pg with [] => true | _ => false end) else false)) as Hwp.
  { unfold work_pagein, mk_r. cbn [r_last r_acc r_wq r_wfresh andb app]. rewrite Heos. unfold pk. reflexivity. }
  cbn [r_last r_acc r_lastflag r_firstflag]. rewrite Hwp.
  assert (cur_link s7 = l /\ base_of s7 (v_link s7) = base_of s j /\ v_rs s7 = STREAMSET) as (L7 & B7 & RS7).
  { unfold cur_link, nth_link, base_of, l. repeat split; cbn [v_links v_link s7 set_q s6 set_rs os_reset set_link]; rewrite Q6; reflexivity. }
  rewrite (raw_scan_packets pk _ s7 0 0 false ff _ a g); try (rewrite L7; assumption); try (left; reflexivity); try reflexivity.
  2: { assert (length pk <= length (pg_pkts pg))%nat by (unfold pk; destruct (pg_cont pg); [destruct (pg_pkts pg); cbn; lia|lia]). cbn [pkt_count]. lia. }
  2: { rewrite RS7. lia. }
  rewrite L7, B7.
  destruct (scan_intact_first l Hb0 Hb1 Hm0 Hm1 pk e0 a g) as [A B].
  { eapply IntactS_app_l. exact Hint. }
  { exact Esc. }
  assert ((let g1 := (let g0 := g - li_init l in if g0 <? 0 then 0 else g0) - a in if g1 <? 0 then 0 else g1) = e0) as Hval.
  { cbv zeta. destruct (g - li_init l <? 0) eqn:E1; [lia|]. destruct (g - li_init l - a <? 0) eqn:E2; lia. }
  rewrite Hval.
  set (s' := set_pcm s7 (e0 + base_of s j)).
  assert (v_link s' = j) as HLJ by reflexivity.
  split; [reflexivity|]. split; [exact HLJ|]. split; [cbn; lia|].
  assert (rem1 tail s' = r1) as Hr1 by (apply rem1_app; reflexivity).
  assert (stream tail s' = pk ++ flat_map pg_pkts r1) as Hst by (unfold stream; rewrite Hr1; reflexivity).
  unfold Landed. change (cur_link s') with (cur_link s7). rewrite L7. change (base_of s' (v_link s')) with (base_of s7 (v_link s7)). rewrite B7.
  change (v_pcm s') with (e0 + base_of s j). rewrite Hst.
  replace (e0 + base_of s j - base_of s j) with e0 by lia.
  split; [change (v_hs s') with (v_hs s1); rewrite R4; exact Hhs|]. split; [left; exact RS7|].
  repeat (split; [assumption|]).
  split; [cbn; lia|]. split.
  { unfold PlainRem. rewrite Hr1. split; [reflexivity|]. split; [reflexivity|]. exact Hplain. }
  split; [exact He0|]. split; [exact Hint|]. split; [|lia].
  rewrite Hpk in *. cbn [app IntactS Reaches] in *. destruct Hint as (w & Hw & _). rewrite Hw. left. lia.
Qed.
