(* M1: libogg's LSb-first bit packer as libvorbis uses it (definitions only).
   libogg is outside the repository: modelled and tied by correspondence. *)
From Coq Require Export List NArith ZArith Bool Lia.
Export ListNotations.
Local Open Scope N_scope.

Definition bits := list bool.

(* the low [w] bits of [v], least significant first: oggpack_write(v,w) appends these *)
Fixpoint bits_of (w : nat) (v : N) : bits :=
  match w with
  | O => []
  | S w' => N.odd v :: bits_of w' (N.div2 v)
  end.

Fixpoint val_of (bs : bits) : N :=
  match bs with
  | [] => 0
  | b :: r => N.b2n b + 2 * val_of r
  end.

(* reader state: remaining bits, or EOP (sticky): oggpack_read returns -1 *)
Definition reader := option bits.

Definition bread (w : nat) (r : reader) : option N * reader :=
  match r with
  | None => (None, None)
  | Some bs =>
      if Nat.leb w (length bs) then (Some (val_of (firstn w bs)), Some (skipn w bs))
      else (None, None)
  end.

(* oggpack_look: like read but does not advance; past the end it still
   returns what is there if at least one... (libogg: look fails only when the
   first needed byte is past the end).  Only used through codebook decode. *)
Definition blook (w : nat) (r : reader) : option N :=
  match r with
  | None => None
  | Some bs => if Nat.leb w (length bs) then Some (val_of (firstn w bs)) else None
  end.

Definition badv (w : nat) (r : reader) : reader :=
  match r with
  | None => None
  | Some bs => if Nat.leb w (length bs) then Some (skipn w bs) else None
  end.

(* bytes <-> bits *)
Definition byte_bits (b : N) : bits := bits_of 8 b.
Definition bits_of_bytes (bs : list N) : bits := flat_map byte_bits bs.

Fixpoint bytes_of_bits_fuel (fuel : nat) (bs : bits) : list N :=
  match fuel with
  | O => []
  | S f =>
      match bs with
      | [] => []
      | _ => val_of (firstn 8 bs) :: bytes_of_bits_fuel f (skipn 8 bs)
      end
  end.
(* oggpack_bytes/oggpack_get_buffer view of a written stream: zero padded *)
Definition bytes_of_bits (bs : bits) : list N := bytes_of_bits_fuel (length bs) bs.

(* ---- byte-level view used where every field is byte aligned ---------- *)

Definition le32 (v : N) : list N :=
  [v mod 256; (v / 256) mod 256; (v / 65536) mod 256; (v / 16777216) mod 256].

Definition read32 (bs : list N) : option (N * list N) :=
  match bs with
  | a :: b :: c :: d :: r => Some (a + 256 * b + 65536 * c + 16777216 * d, r)
  | _ => None
  end.

(* C: assignment of the (long) result of a 32-bit read to an [int] *)
Definition to_int32 (v : N) : Z :=
  if v <? 2147483648 then Z.of_N v else (Z.of_N v - 4294967296)%Z.

Definition take {A} (n : nat) (l : list A) : option (list A * list A) :=
  if Nat.leb n (length l) then Some (firstn n l, skipn n l) else None.

Definition bytes_ok (l : list N) : bool := forallb (fun b => b <? 256) l.

Fixpoint list_eqb (a b : list N) : bool :=
  match a, b with
  | [], [] => true
  | x :: a', y :: b' => (x =? y) && list_eqb a' b'
  | _, _ => false
  end.
