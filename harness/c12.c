/* C12 harness: systematic I/O fault injection on vorbisfile.
   case <id> <hexfile> ; then one line per scenario:
     sc <name> <kind> <persist> <k> <ops...>
   kind: 1 read error (errno), 2 premature zero read, 3 one-byte reads, 4 seek fails, 5 tell fails
   The fault strikes at the k-th callback invocation counted from the start of
   the scenario (open included when the scenario is "open"), once or from then on.
   For scenarios on an open handle the fault window covers the listed ops; then
   the callbacks are healthy again and a recovery seek + reads are compared bit
   for bit with a twin handle that never saw a fault. */
#include "vcommon.h"
#include "vorbis/codec.h"
#include "vorbis/vorbisfile.h"
#include <signal.h>
#include <unistd.h>
static void on_alarm(int s){ (void)s; const char m[]="\nprop terminates FAIL (watchdog)\n"; write(1,m,sizeof m-1); _exit(97); }
static int documented(long rc){
  switch(rc){ case 0: case OV_FALSE: case OV_EOF: case OV_HOLE: case OV_EREAD: case OV_EFAULT: case OV_EIMPL: case OV_EINVAL:
    case OV_ENOTVORBIS: case OV_EBADHEADER: case OV_EVERSION: case OV_ENOTAUDIO: case OV_EBADPACKET: case OV_EBADLINK: case OV_ENOSEEK: return 1; }
  return rc>0;
}
static long doop(OggVorbis_File *vf,const char *tk,float ***pp,int *bs){
  if(!strncmp(tk,"ps:",3))return ov_pcm_seek(vf,atol(tk+3));
  if(!strncmp(tk,"pp:",3))return ov_pcm_seek_page(vf,atol(tk+3));
  if(!strncmp(tk,"rs:",3))return ov_raw_seek(vf,atol(tk+3));
  if(!strncmp(tk,"ts:",3))return ov_time_seek(vf,atof(tk+3));
  if(!strncmp(tk,"pl:",3))return ov_pcm_seek_lap(vf,atol(tk+3));
  if(!strncmp(tk,"ql:",3))return ov_pcm_seek_page_lap(vf,atol(tk+3));
  if(!strncmp(tk,"rl:",3))return ov_raw_seek_lap(vf,atol(tk+3));
  if(!strncmp(tk,"tl:",3))return ov_time_seek_lap(vf,atof(tk+3));
  if(!strncmp(tk,"tq:",3))return ov_time_seek_page_lap(vf,atof(tk+3));
  if(!strncmp(tk,"tp:",3))return ov_time_seek_page(vf,atof(tk+3));
  if(!strncmp(tk,"rf:",3))return ov_read_float(vf,pp,atoi(tk+3),bs);
  if(!strncmp(tk,"hr:",3))return ov_halfrate(vf,atoi(tk+3));
  return 0;
}
int main(int argc,char **argv){
  FILE *f=fopen(argv[1],"r"); char *line; unsigned char *file=NULL; long n=0; char id[64]="";
  if(!f)return 2;
  vc_watch_init(on_alarm);
  long scen=0,faulted_calls=0,recovered=0,openfails=0; int bad=0;
  while((line=vc_getline(f))){
    if(!strncmp(line,"case ",5)){
      if(file){ printf("S scenarios=%ld faulted_calls=%ld recovered=%ld openfails=%ld\n",scen,faulted_calls,recovered,openfails); if(!bad)printf("prop faults ok\n"); }
      free(file); char *t=strtok(line," "); strcpy(id,strtok(NULL," ")); file=vc_unhex(strtok(NULL," "),&n);
      printf("case %s\n",id); scen=faulted_calls=recovered=openfails=0; bad=0; free(line); continue;
    }
    if(strncmp(line,"sc ",3)){ free(line); continue; }
    char *save; char *t=strtok_r(line," ",&save); char *name=strtok_r(NULL," ",&save); int kind=atoi(strtok_r(NULL," ",&save));
    int persist=atoi(strtok_r(NULL," ",&save)); long k=atol(strtok_r(NULL," ",&save)); (void)t;
    scen++; vc_watch(30);
    memsrc ms={0}; ms.b=file; ms.n=n; ms.seekable=1;
    OggVorbis_File vf; ov_callbacks cb={ms_read,ms_seek,ms_close,ms_tell};
    int atopen=!strcmp(name,"open");
    if(atopen){ ms.fault_kind=kind; ms.fault_persist=persist; ms.fault_at=k; }
    int orc=ov_open_callbacks(&ms,&vf,NULL,0,cb);
    if(!documented(orc)||orc>0){ printf("prop errcode FAIL open rc=%d\n",orc); bad++; }
    if(orc){
      openfails++;
      /* a failed open leaves the handle cleared and the data source unclosed */
      static const OggVorbis_File zero; 
      if(ms.closes!=0){ printf("prop noclose FAIL after failed open closes=%ld (kind %d k %ld)\n",ms.closes,kind,k); bad++; }
      if(memcmp(&vf,&zero,sizeof vf)){ printf("prop cleared FAIL after failed open (kind %d k %ld rc %d)\n",kind,k,orc); bad++; }
      ov_clear(&vf);    /* clearing again is harmless */
      if(ms.closes!=0){ printf("prop noclose FAIL ov_clear after failed open closed the source\n"); bad++; }
      if(kind==3&&orc){ printf("prop shortread FAIL one-byte reads made open fail rc=%d k=%ld\n",orc,k); bad++; }
      vc_watch(0); free(line); continue;
    }
    /* fault window over the listed ops */
    if(!atopen){ ms.ncalls=0; ms.fault_kind=kind; ms.fault_persist=persist; ms.fault_at=k; }
    char *ops[64]; int nops=0; for(char *tk=strtok_r(NULL," ",&save);tk&&nops<64;tk=strtok_r(NULL," ",&save))ops[nops++]=tk;
    int struck=0;
    for(int i=0;i<nops;i++){
      float **p; int bs=-1; long before=ms.ncalls;
      long rc=doop(&vf,ops[i],&p,&bs);
      if(ms.fault_at&&((persist&&ms.ncalls>=ms.fault_at)||(!persist&&before<ms.fault_at&&ms.ncalls>=ms.fault_at)))struck=1;
      if(!documented(rc)){ printf("prop errcode FAIL op=%s rc=%ld\n",ops[i],rc); bad++; }
      /* a sample/page/time seek (plain or lapped) that reports success has put the handle somewhere */
      if(rc==0&&(ops[i][0]=='p'||ops[i][0]=='t'||ops[i][0]=='q')&&ops[i][2]==':'&&ov_pcm_tell(&vf)<0){ printf("prop seekpos FAIL op=%s returned 0 but the position is unknown (%ld)\n",ops[i],(long)ov_pcm_tell(&vf)); bad++; }
      if(ms.closes){ printf("prop noclose FAIL source closed during %s\n",ops[i]); bad++; break; }
    }
    if(struck)faulted_calls++;
    /* callbacks healthy again: a seek to any valid position and the reads after it behave as on a clean twin.
       Not applicable when the fault was a premature end-of-data DURING open (the library cannot tell that from a
       shorter file: it legitimately opens what it was shown), nor when the seekability probe itself failed
       (the source then is, as far as the library can know, not seekable). */
    ms.fault_kind=0;
    if(!(atopen&&(kind==2||!vf.seekable))){
      memsrc ms2={0}; ms2.b=file; ms2.n=n; ms2.seekable=1; OggVorbis_File tw;
      if(ov_open_callbacks(&ms2,&tw,NULL,0,cb)==0){
        /* same non-I/O settings as the faulted handle */
        if(ov_halfrate_p(&vf)>0)ov_halfrate(&tw,1);
        long total=(long)ov_pcm_total(&tw,-1);
        long targets[4]={0,total/3,total>0?total-1:0,total};
        for(int q=0;q<4;q++){
          int r1=ov_pcm_seek(&vf,targets[q]), r2=ov_pcm_seek(&tw,targets[q]);
          if(r1!=r2||ov_pcm_tell(&vf)!=ov_pcm_tell(&tw)){ printf("prop recover FAIL seek %ld: rc %d vs %d tell %ld vs %ld (scenario %s kind %d persist %d k %ld)\n",targets[q],r1,r2,(long)ov_pcm_tell(&vf),(long)ov_pcm_tell(&tw),name,kind,persist,k); bad++; break; }
          for(int rr=0;rr<3;rr++){
            float **p1,**p2; int b1=-1,b2=-1; long a=ov_read_float(&vf,&p1,700,&b1), b=ov_read_float(&tw,&p2,700,&b2);
            int same=(a==b&&b1==b2);
            if(same&&a>0){ int ch=ov_info(&tw,b2)->channels; for(int c=0;c<ch&&same;c++)if(memcmp(p1[c],p2[c],a*sizeof(float)))same=0; }
            if(!same){ printf("prop recover FAIL read after seek %ld: %ld/%d vs %ld/%d (scenario %s kind %d persist %d k %ld)\n",targets[q],a,b1,b,b2,name,kind,persist,k); bad++; q=4; break; }
          }
        }
        recovered++;
        ov_clear(&tw);
      }
    }
    if(ms.closes){ printf("prop noclose FAIL before ov_clear closes=%ld\n",ms.closes); bad++; }
    ov_clear(&vf);
    if(ms.closes!=1){ printf("prop closeonce FAIL closes=%ld\n",ms.closes); bad++; }
    vc_watch(0); free(line);
  }
  if(file){ printf("S scenarios=%ld faulted_calls=%ld recovered=%ld openfails=%ld\n",scen,faulted_calls,recovered,openfails); if(!bad)printf("prop faults ok\n"); }
  return 0;
}
