/* C15 correspondence + property harness for lib/vorbisenc.c (encoder set-up).
   #includes vorbisenc.c so the staged state (hi->setup as an index into
   setup_list, base_setting, management fields) can be read after every call.
   Cases file (also read by the model driver):
     case <id> <tied|untied>
     V ch rate qbits32 | M ch rate max nom min | IV ... | IM ... | I
     C2S null | C2S x active minK avK maxK dampbits64 resbits biasbits64
     C2G null|x      CPL v      CO number argbits64     CN number
     CD number null | CD number x active hmin hmax windowbits avlo avhi
     E nsamples signal
     end
   Output: one `st` line per step with the return code and the staged state;
   `prop` lines evaluate the property on the implementation. */
#include "vcommon.h"
#include "vorbisenc.c"
#include <signal.h>
#include <unistd.h>

static const char *curcase="?";
static void on_alarm(int s){ (void)s; printf("prop watchdog FAIL case %s did not finish\n",curcase); fflush(stdout); _exit(97); }

static int tmpl_index(const void *p){
  if(!p)return -1;
  for(int i=0;setup_list[i];i++)if((const void*)setup_list[i]==p)return i;
  return -2;
}
static int all_zero(const void *p,size_t n){ const unsigned char *b=p; for(size_t i=0;i<n;i++)if(b[i])return 0; return 1; }
static double dbits(const char *s){ uint64_t u=strtoull(s,NULL,10); double d; memcpy(&d,&u,8); return d; }
static float fbits(const char *s){ uint32_t u=(uint32_t)strtoul(s,NULL,10); float d; memcpy(&d,&u,4); return d; }

static void st(const char *op,int rc,vorbis_info *vi){
  codec_setup_info *ci=vi->codec_setup;
  if(!ci){ printf("st %s rc=%d cleared=1\n",op,rc); return; }
  highlevel_encode_setup *hi=&ci->hi; int t=tmpl_index(hi->setup);
  printf("st %s rc=%d cleared=0 tmpl=%d is=%d ch=%d rate=%ld man=%d cpl=%d stone=%d min=%ld av=%ld max=%ld res=%ld b0=%ld b1=%ld\n",
         op,rc,t,t>=0?(int)hi->base_setting:-1,vi->channels,vi->rate,hi->managed,hi->coupling_p,hi->set_in_stone,
         hi->bitrate_min,hi->bitrate_av,hi->bitrate_max,hi->bitrate_reservoir,
         hi->set_in_stone?ci->blocksizes[0]:0,hi->set_in_stone?ci->blocksizes[1]:0);
}
static int stone_of(vorbis_info *vi){ codec_setup_info *ci=vi->codec_setup; return ci&&ci->hi.set_in_stone; }
static void frozen(const char *op,int num,int was_stone,int rc){
  if(was_stone&&rc!=OV_EINVAL)printf("prop frozen FAIL set request %s 0x%x returned %d after vorbis_encode_setup_init (must be refused with OV_EINVAL)\n",op,num,rc);
}
static void fill(float **buf,int ch,long n,int kind,long pos){
  for(int c=0;c<ch;c++)for(long i=0;i<n;i++){
    double t=(double)(pos+i); float x=0;
    switch(kind){ case 0: x=0; break; case 1: x=(float)((double)(vc_rng()>>11)/9007199254740992.0*2-1)*0.7f; break;
      case 2: x=(float)(0.6*sin(t*0.05*(c+1))); break; case 3: x=((pos+i)%300==(c*17)%300)?0.9f:0.0f; break;
      case 4: x=(((pos+i)/64)&1)?8.0f:-8.0f; break;
      default: x=(((pos+i)/1500)&1)?(float)((double)(vc_rng()>>11)/9007199254740992.0-0.5):0.f; break; }
    buf[c][i]=x; }
}
/* analysis init, header output, encode n samples, decode everything again */
static void encode(vorbis_info *vi,long n,int sig,long want_ch,long want_rate){
  if(vi->channels!=want_ch||vi->rate!=want_rate)printf("prop reports FAIL info says ch=%d rate=%ld, requested ch=%ld rate=%ld\n",vi->channels,vi->rate,want_ch,want_rate);
  else printf("prop reports PASS\n");
  vorbis_dsp_state vd; vorbis_block vb; vorbis_comment vc; ogg_packet h[3],op;
  int r=vorbis_analysis_init(&vd,vi);
  if(r){ printf("prop analysis_init FAIL rc=%d after a successful set-up\n",r); return; }
  vorbis_comment_init(&vc); vorbis_block_init(&vd,&vb);
  r=vorbis_analysis_headerout(&vd,&vc,&h[0],&h[1],&h[2]);
  if(r){ printf("prop headerout FAIL rc=%d after a successful set-up\n",r); }
  vorbis_info dvi; vorbis_comment dvc; vorbis_dsp_state dvd; vorbis_block dvb; int dec_ok=0;
  vorbis_info_init(&dvi); vorbis_comment_init(&dvc);
  if(!r){
    int hr=0; for(int i=0;i<3&&!hr;i++)hr=vorbis_synthesis_headerin(&dvi,&dvc,&h[i]);
    if(hr)printf("prop headers-decodable FAIL headerin rc=%d\n",hr);
    else if(dvi.channels!=want_ch||dvi.rate!=want_rate)printf("prop headers-decodable FAIL decoded header says ch=%d rate=%ld\n",dvi.channels,dvi.rate);
    else if(vorbis_synthesis_init(&dvd,&dvi)==0){ vorbis_block_init(&dvd,&dvb); dec_ok=1; }
  }
  long pos=0,packets=0,decoded=0,badpkt=0;
  for(;;){
    long k=(n-pos>1000)?1000:(n-pos);
    if(k>0){ float **b=vorbis_analysis_buffer(&vd,(int)k); fill(b,vi->channels,k,sig,pos); pos+=k; }
    if(vorbis_analysis_wrote(&vd,(int)k)){ printf("prop wrote FAIL\n"); break; }
    int br;
    while((br=vorbis_analysis_blockout(&vd,&vb))==1){
      if(vorbis_analysis(&vb,NULL)){ printf("prop analysis FAIL\n"); break; }
      if(vorbis_bitrate_addblock(&vb)){ printf("prop addblock FAIL\n"); break; }
      while(vorbis_bitrate_flushpacket(&vd,&op)){
        packets++;
        if(dec_ok){
          if(vorbis_synthesis(&dvb,&op)||vorbis_synthesis_blockin(&dvd,&dvb))badpkt++;
          float **pcm; int s; while((s=vorbis_synthesis_pcmout(&dvd,&pcm))>0){ decoded+=s; vorbis_synthesis_read(&dvd,s); }
        }
      }
    }
    if(br<0)printf("prop blockout FAIL rc=%d\n",br);
    if(k<=0)break;
  }
  if(badpkt)printf("prop packets-decodable FAIL %ld of %ld packets rejected by the decoder\n",badpkt,packets);
  if(dec_ok&&!badpkt&&decoded!=n&&!(n==0))printf("prop length FAIL fed %ld samples, decoder returned %ld\n",n,decoded);
  printf("enc n=%ld packets=%ld decoded=%ld\n",n,packets,decoded);
  if(dec_ok){ vorbis_block_clear(&dvb); vorbis_dsp_clear(&dvd); }
  vorbis_comment_clear(&dvc); vorbis_info_clear(&dvi);
  vorbis_block_clear(&vb); vorbis_dsp_clear(&vd); vorbis_comment_clear(&vc);
}

int main(int argc,char **argv){
  FILE *f=fopen(argv[1],"r"); char *line; if(!f)return 2;
  vc_watch_init(on_alarm);
  vorbis_info vi; int open=0,dead=0; long want_ch=0,want_rate=0; char id[64]="";
  while((line=vc_getline(f))){
    char *tok[16]; int nt=0; for(char *p=strtok(line," \n");p&&nt<16;p=strtok(NULL," \n"))tok[nt++]=p;
    if(nt==0){ free(line); continue; }
    if(!strcmp(tok[0],"case")){
      if(open){ vorbis_info_clear(&vi); open=0; }
      snprintf(id,sizeof id,"%s",tok[1]); curcase=id; printf("case %s\n",id); vc_rng_s=0x9e3779b97f4a7c15ULL^(uint64_t)atol(tok[1]);
      vorbis_info_init(&vi); open=1; dead=0; want_ch=want_rate=0; vc_watch(120);
    }else if(!strcmp(tok[0],"end")){
      if(open){
        vorbis_info_clear(&vi);
        if(!all_zero(&vi,sizeof vi))printf("prop clear FAIL info not zeroed by vorbis_info_clear\n");
        vorbis_info_clear(&vi);          /* clearing a cleared structure is safe */
        open=0;
      }
      vc_watch(0); fflush(stdout);
    }else if(dead){
      printf("skip %s\n",tok[0]);
    }else if(!strcmp(tok[0],"V")||!strcmp(tok[0],"IV")){
      long ch=atol(tok[1]),rate=atol(tok[2]); float q=fbits(tok[3]); int one=tok[0][0]=='I';
      int rc=one?vorbis_encode_init_vbr(&vi,ch,rate,q):vorbis_encode_setup_vbr(&vi,ch,rate,q);
      st(tok[0],rc,&vi);
      if(rc==0){ want_ch=ch; want_rate=rate; }
      if(one&&rc){ dead=1; printf("prop onestep-cleared %s\n",all_zero(&vi,sizeof vi)?"PASS":"FAIL info not cleared after a failed one-step call"); }
      if(rc!=0&&rc!=OV_EINVAL&&rc!=OV_EIMPL)printf("prop code FAIL %s returned %d\n",tok[0],rc);
    }else if(!strcmp(tok[0],"M")||!strcmp(tok[0],"IM")){
      long ch=atol(tok[1]),rate=atol(tok[2]),mx=atol(tok[3]),nom=atol(tok[4]),mn=atol(tok[5]); int one=tok[0][0]=='I';
      int rc=one?vorbis_encode_init(&vi,ch,rate,mx,nom,mn):vorbis_encode_setup_managed(&vi,ch,rate,mx,nom,mn);
      st(tok[0],rc,&vi);
      if(rc==0){ want_ch=ch; want_rate=rate; }
      if(one&&rc){ dead=1; printf("prop onestep-cleared %s\n",all_zero(&vi,sizeof vi)?"PASS":"FAIL info not cleared after a failed one-step call"); }
      if(rc!=0&&rc!=OV_EINVAL&&rc!=OV_EIMPL)printf("prop code FAIL %s returned %d\n",tok[0],rc);
    }else if(!strcmp(tok[0],"I")){
      int rc=vorbis_encode_setup_init(&vi); st("I",rc,&vi);
      if(rc!=0&&rc!=OV_EINVAL&&rc!=OV_EIMPL)printf("prop code FAIL I returned %d\n",rc);
    }else if(!strcmp(tok[0],"C2S")){
      int rc,ws=stone_of(&vi);
      if(!strcmp(tok[1],"null"))rc=vorbis_encode_ctl(&vi,OV_ECTL_RATEMANAGE2_SET,NULL);
      else{
        struct ovectl_ratemanage2_arg a; memset(&a,0,sizeof a);
        a.management_active=atoi(tok[2]); a.bitrate_limit_min_kbps=atol(tok[3]); a.bitrate_average_kbps=atol(tok[4]); a.bitrate_limit_max_kbps=atol(tok[5]);
        a.bitrate_average_damping=dbits(tok[6]); a.bitrate_limit_reservoir_bits=atol(tok[7]); a.bitrate_limit_reservoir_bias=dbits(tok[8]);
        rc=vorbis_encode_ctl(&vi,OV_ECTL_RATEMANAGE2_SET,&a);
      }
      st("C2S",rc,&vi); frozen("RATEMANAGE2_SET",OV_ECTL_RATEMANAGE2_SET,ws,rc);
      if(rc!=0&&rc!=OV_EINVAL&&rc!=OV_EIMPL)printf("prop code FAIL C2S returned %d\n",rc);
    }else if(!strcmp(tok[0],"C2G")){
      struct ovectl_ratemanage2_arg a; memset(&a,0,sizeof a);
      int rc=vorbis_encode_ctl(&vi,OV_ECTL_RATEMANAGE2_GET,!strcmp(tok[1],"null")?NULL:&a);
      st("C2G",rc,&vi);
    }else if(!strcmp(tok[0],"CPL")){
      int v=atoi(tok[1]); int ws=stone_of(&vi); int rc=vorbis_encode_ctl(&vi,OV_ECTL_COUPLING_SET,&v); st("CPL",rc,&vi); frozen("COUPLING_SET",OV_ECTL_COUPLING_SET,ws,rc);
      if(rc!=0&&rc!=OV_EINVAL&&rc!=OV_EIMPL)printf("prop code FAIL CPL returned %d\n",rc);
    }else if(!strcmp(tok[0],"CO")){
      int num=atoi(tok[1]); union { double d; int i; char pad[64]; } a; memset(&a,0,sizeof a);
      if(num==OV_ECTL_COUPLING_GET)a.i=0; else a.d=dbits(tok[2]);
      int ws=stone_of(&vi); int rc=vorbis_encode_ctl(&vi,num,&a); st("CO",rc,&vi);
      if(num==OV_ECTL_LOWPASS_SET||num==OV_ECTL_IBLOCK_SET)frozen("LOWPASS/IBLOCK_SET",num,ws,rc);
      if(rc!=0&&rc!=OV_EINVAL&&rc!=OV_EIMPL)printf("prop code FAIL CO %d returned %d\n",num,rc);
    }else if(!strcmp(tok[0],"CN")){
      int rc=vorbis_encode_ctl(NULL,atoi(tok[1]),NULL);
      if(rc!=OV_EINVAL)printf("prop code FAIL ctl on a NULL info returned %d\n",rc);
      st("CN",rc,&vi);
    }else if(!strcmp(tok[0],"CD")){
      int num=atoi(tok[1]),rc,ws=stone_of(&vi);
      if(!strcmp(tok[2],"null"))rc=vorbis_encode_ctl(&vi,num,NULL);
      else{
        struct ovectl_ratemanage_arg a; memset(&a,0,sizeof a);
        a.management_active=atoi(tok[3]); a.bitrate_hard_min=atol(tok[4]); a.bitrate_hard_max=atol(tok[5]); a.bitrate_hard_window=dbits(tok[6]);
        a.bitrate_av_lo=atol(tok[7]); a.bitrate_av_hi=atol(tok[8]); a.bitrate_av_window=a.bitrate_hard_window; a.bitrate_av_window_center=.5;
        rc=vorbis_encode_ctl(&vi,num,&a);
      }
      st("CD",rc,&vi);
      if(num==OV_ECTL_RATEMANAGE_SET||num==OV_ECTL_RATEMANAGE_AVG||num==OV_ECTL_RATEMANAGE_HARD)frozen("RATEMANAGE_SET/AVG/HARD",num,ws,rc);
      if(rc!=0&&rc!=OV_EINVAL&&rc!=OV_EIMPL)printf("prop code FAIL CD %d returned %d\n",num,rc);
    }else if(!strcmp(tok[0],"E")){
      codec_setup_info *ci=vi.codec_setup;
      if(ci&&ci->hi.set_in_stone)encode(&vi,atol(tok[1]),atoi(tok[2]),want_ch,want_rate);
      else printf("enc skipped\n");
    }
    free(line);
  }
  return 0;
}
