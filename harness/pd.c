/* Packet-level decoder harness (C01, C02, C05).
   #includes lib/mapping0.c with mdct_backward renamed, so the spectrum each
   channel has just before the inverse MDCT can be logged bit for bit.
   Cases file (also read by the model driver):
     case <id>
     hdr <bos> <hex>          vorbis_synthesis_headerin
     init                     vorbis_synthesis_init (+ block_init)
     pkt <hex> <granule> <eos> <spec>   vorbis_synthesis (+ blockin, pcmout, read when it succeeds);
                              spec=1: log spectra and PCM, 0: counts only
     trk <hex> <granule> <eos>          vorbis_synthesis_trackonly + blockin
     restart | half <flag> | clear | reinfo
     end
   Every line of output is either tied exactly to the model (`hdr`, `init`,
   `pkt`, `ch`, `cnt`) or numeric (`pcm`, compared by vlib/numeric.py), or a
   `prop` line. */
#include "vcommon.h"
#include "vorbis/codec.h"
#include "codec_internal.h"
#include "mdct.h"
#include <signal.h>
#include <unistd.h>
#include <sys/resource.h>

#define MAXSPEC 512
static float *g_spec[MAXSPEC]; static int g_specn[MAXSPEC]; static int g_nspec=0; static int g_log=0;
static void verif_mdct_backward(mdct_lookup *init,float *in,float *out){
  if(g_log&&g_nspec<MAXSPEC){ int n=init->n/2; g_spec[g_nspec]=malloc(sizeof(float)*(n>0?n:1)); memcpy(g_spec[g_nspec],in,sizeof(float)*n); g_specn[g_nspec]=n; g_nspec++; }
  mdct_backward(init,in,out);
}
#define mdct_backward verif_mdct_backward
#include "mapping0.c"
#undef mdct_backward

static const char *curcase="?";
static void on_alarm(int s){ (void)s; printf("prop watchdog FAIL case %s did not finish within the time budget\n",curcase); fflush(stdout); _exit(97); }
static void on_exit_called(void){ }
static const char *hname(int rc){
  switch(rc){ case 0: return "OK"; case OV_ENOTVORBIS: return "ENOTVORBIS"; case OV_EBADHEADER: return "EBADHEADER"; case OV_EVERSION: return "EVERSION";
    case OV_EFAULT: return "EFAULT"; case OV_ENOTAUDIO: return "ENOTAUDIO"; case OV_EBADPACKET: return "EBADPACKET"; case OV_EINVAL: return "EINVAL"; default: return "OTHER"; }
}
static void puthexf(const float *p,long n){
  static const char *d="0123456789abcdef";
  if(n<=0){ putchar('-'); return; }
  for(long i=0;i<n;i++){ uint32_t u; memcpy(&u,&p[i],4); if(u==0x80000000u)u=0; for(int k=28;k>=0;k-=4)putchar(d[(u>>k)&15]); }
}
static int exiting_ok=0;
static void atexit_guard(void){ if(!exiting_ok){ printf("prop exit FAIL the library terminated the process (case %s)\n",curcase); fflush(stdout); } }

int main(int argc,char **argv){
  FILE *f=fopen(argv[1],"r"); char *line; if(!f)return 2;
  vc_watch_init(on_alarm); atexit(atexit_guard); (void)on_exit_called; setvbuf(stdout,NULL,_IOLBF,0);
  { struct rlimit rl={ (rlim_t)8<<20,(rlim_t)8<<20 }; (void)rl; }     /* default 8 MiB stack is what the process already has */
  vorbis_info vi; vorbis_comment vc; vorbis_dsp_state vd; vorbis_block vb; int have=0,inited=0; long seqno=0;
  memset(&vd,0,sizeof vd); memset(&vb,0,sizeof vb);
  while((line=vc_getline(f))){
    char *tok[8]; int nt=0; for(char *p=strtok(line," \n");p&&nt<8;p=strtok(NULL," \n"))tok[nt++]=p;
    if(nt==0){ free(line); continue; }
    if(!strcmp(tok[0],"case")){
      if(have){ if(inited){ vorbis_block_clear(&vb); vorbis_dsp_clear(&vd); inited=0; } vorbis_comment_clear(&vc); vorbis_info_clear(&vi); }
      static char id[64]; snprintf(id,sizeof id,"%s",tok[1]); curcase=id; printf("case %s\n",id);
      vorbis_info_init(&vi); vorbis_comment_init(&vc); memset(&vd,0,sizeof vd); memset(&vb,0,sizeof vb); have=1; inited=0; seqno=0; vc_watch(150);
    }else if(!strcmp(tok[0],"end")){
      if(have){ if(inited){ vorbis_block_clear(&vb); vorbis_dsp_clear(&vd); inited=0; } vorbis_comment_clear(&vc); vorbis_info_clear(&vi); vorbis_info_clear(&vi); have=0; }
      vc_watch(0); fflush(stdout);
    }else if(!strcmp(tok[0],"hdr")){
      long n; unsigned char *b=vc_unhex(tok[2],&n); ogg_packet op; memset(&op,0,sizeof op); op.packet=b; op.bytes=n; op.b_o_s=atoi(tok[1]);
      int rc=vorbis_synthesis_headerin(&vi,&vc,&op);
      printf("hdr %s\n",hname(rc));
      if(rc==0&&n>0&&b[0]==1){ codec_setup_info *ci=vi.codec_setup;
        printf("ident %d %ld %ld %ld %ld %ld %ld\n",vi.channels,vi.rate,vi.bitrate_upper,vi.bitrate_nominal,vi.bitrate_lower,ci->blocksizes[0],ci->blocksizes[1]); }
      if(rc==0&&n>0&&b[0]==5){ codec_setup_info *ci=vi.codec_setup;
        printf("setup %d %d %d %d %d\n",ci->books,ci->floors,ci->residues,ci->maps,ci->modes); }
      free(b);
    }else if(!strcmp(tok[0],"init")){
      if(inited){ printf("init skipped\n"); }
      else{
        int rc=vorbis_synthesis_init(&vd,&vi);
        if(rc==0){ vorbis_block_init(&vd,&vb); inited=1; }
        printf("init %d\n",rc==0?0:1);
      }
    }else if(!strcmp(tok[0],"pkt")||!strcmp(tok[0],"trk")){
      int trk=tok[0][0]=='t';
      if(!inited){ printf("%s skipped\n",tok[0]); free(line); continue; }
      long n; unsigned char *b=vc_unhex(tok[1],&n); ogg_packet op; memset(&op,0,sizeof op); op.packet=b; op.bytes=n;
      op.granulepos=atoll(tok[2]); op.e_o_s=atoi(tok[3]); op.packetno=seqno++;
      int spec=(!trk&&nt>4)?atoi(tok[4]):0;
      g_log=spec; g_nspec=0;
      int rc=trk?vorbis_synthesis_trackonly(&vb,&op):vorbis_synthesis(&vb,&op);
      g_log=0;
      codec_setup_info *ci=vi.codec_setup;
      if(rc==0){
        long left=(long)n*8-oggpack_bits(&vb.opb); if(vb.opb.ptr==NULL)left=-2;   /* -2: a read ran past the end */
        printf("%s OK %d %ld %ld %ld %ld\n",tok[0],vb.mode,vb.W,vb.lW,vb.nW,trk?-1:left);
        if(spec){ for(int c=0;c<g_nspec;c++){ printf("ch %d ",c); puthexf(g_spec[c],g_specn[c]); putchar('\n'); } }
        int brc=vorbis_synthesis_blockin(&vd,&vb);
        float **pcm; int s,tot=0;
        while((s=vorbis_synthesis_pcmout(&vd,&pcm))>0){
          if(spec){ for(int c=0;c<vi.channels;c++){ printf("pcm %d ",c); puthexf(pcm[c],s); putchar('\n'); } }
          tot+=s; vorbis_synthesis_read(&vd,s);
        }
        printf("cnt %d %d %ld\n",brc,tot,(long)vd.granulepos);
        (void)ci;
      }else printf("%s %s\n",tok[0],hname(rc));
      for(int c=0;c<g_nspec;c++)free(g_spec[c]); g_nspec=0;
      free(b);
    }else if(!strcmp(tok[0],"restart")){
      if(inited){ int rc=vorbis_synthesis_restart(&vd); printf("restart %d\n",rc); seqno=0; } else printf("restart skipped\n");
    }else if(!strcmp(tok[0],"half")){
      int rc=vorbis_synthesis_halfrate(&vi,atoi(tok[1])); printf("half %d %d\n",rc,vorbis_synthesis_halfrate_p(&vi));
    }else if(!strcmp(tok[0],"clear")){
      if(inited){ vorbis_block_clear(&vb); vorbis_dsp_clear(&vd); inited=0; }
      vorbis_dsp_clear(&vd);            /* clearing a cleared state is safe */
      printf("clear\n");
    }else if(!strcmp(tok[0],"reinfo")){
      if(inited){ vorbis_block_clear(&vb); vorbis_dsp_clear(&vd); inited=0; }
      vorbis_comment_clear(&vc); vorbis_info_clear(&vi); vorbis_info_init(&vi); vorbis_comment_init(&vc); printf("reinfo\n");
    }
    free(line);
  }
  exiting_ok=1;
  return 0;
}
