/* C11 harness.
   ovl cases: drive the real vorbis_synthesis_blockin / _lapout / _restart with
     blocks whose PCM content is injected (random floats), logging state and the
     returned samples bit for bit; the model driver replays the log through
     Blocking.v + Overlap.v and must reproduce state, counts and every sample.
   dist cases: the property's own oracle on real encoder output: drop /
     duplicate / truncate / bit-flip a packet or restart the decoder, and compare
     each later packet's output with the undisturbed decode, bit for bit. */
#include "vcommon.h"
#include "vorbis/codec.h"
#include "vorbis/vorbisenc.h"
#include "codec_internal.h"
#include "window.h"
#include <math.h>

static void hexfloats(const float *p,long n){
  for(long i=0;i<n;i++){ uint32_t u; memcpy(&u,p+i,4); printf("%08x",u); }
  if(n<=0)printf("-");
}
static float rndfloat(void){
  uint64_t r=vc_rng(); int k=(int)(r%9); double u=(double)((r>>11)&0xfffffffffffULL)/17592186044416.0*2-1;
  switch(k){ case 0: return 0.f; case 1: return (float)(u*1e-30); case 2: return (float)(u*1e6);
             case 3: return (float)(u*3e9); default: return (float)u; }
}
static void dst(vorbis_dsp_state *v){
  printf(" ; %ld %d %d %ld %ld %ld %ld %ld",(long)v->centerW,v->pcm_current,v->pcm_returned,(long)v->granulepos,
         (long)v->sequence,v->lW,v->W,(long)((private_state*)v->backend_state)->sample_count);
}
static int log2i(long x){ int r=0; while(x>1){x>>=1;r++;} return r; }

static int do_ovl(char *line,FILE *f){
  char id[64]; long bs0,bs1,seed; int hs,ch; char *h1,*h2,*h3;
  char *tok=strtok(line," "); tok=strtok(NULL," "); strcpy(id,tok);
  bs0=atol(strtok(NULL," ")); bs1=atol(strtok(NULL," ")); hs=atoi(strtok(NULL," ")); ch=atoi(strtok(NULL," "));
  seed=atol(strtok(NULL," ")); h1=strtok(NULL," "); h2=strtok(NULL," "); h3=strtok(NULL," ");
  printf("case %s\n",id); vc_rng_s=(uint64_t)seed;
  vorbis_info vi; vorbis_comment vc; vorbis_dsp_state vd; vorbis_block vb; ogg_packet op; long n;
  vorbis_info_init(&vi); vorbis_comment_init(&vc);
  char *hh[3]={h1,h2,h3};
  for(int i=0;i<3;i++){ memset(&op,0,sizeof op); op.packet=vc_unhex(hh[i],&n); op.bytes=n; op.b_o_s=(i==0); op.packetno=i;
    int r=vorbis_synthesis_headerin(&vi,&vc,&op); free(op.packet); if(r){ printf("hdr %d\n",r); return 0; } }
  if(hs&&vorbis_synthesis_halfrate(&vi,1)){ printf("halfrate refused\n"); vorbis_comment_clear(&vc); vorbis_info_clear(&vi); return 0; }
  vorbis_synthesis_init(&vd,&vi); vorbis_block_init(&vd,&vb);
  printf("cfg %ld %ld %d %d\n",bs0,bs1,hs,ch);
  { long wn[2]={bs0>>(hs+1),bs1>>(hs+1)};
    for(int k=0;k<2;k++){ printf("win %ld ",wn[k]); hexfloats(_vorbis_window_get(log2i(wn[k])-5),wn[k]); printf("\n"); } }
  char *ops=vc_getline(f); long seqno=2; int lastW=0; (void)lastW;
  for(char *t=strtok(ops," ");t;t=strtok(NULL," ")){
    if(!strcmp(t,"ops"))continue;
    if(t[0]=='r'){ int r=vorbis_synthesis_restart(&vd); printf("R | %d",r); dst(&vd); printf("\n"); }
    else if(t[0]=='L'){
      float **pcm=NULL; int r=vorbis_synthesis_lapout(&vd,&pcm);
      printf("L | %d",r); dst(&vd); printf("\n");
      for(int c=0;c<ch;c++){ printf("out %d ",c); hexfloats(pcm?pcm[c]:NULL,(pcm&&r>0)?r:0); printf("\n"); }
    }else if(t[0]=='p'){
      int k=atoi(t+2); int r=vorbis_synthesis_read(&vd,k); printf("P %d | %d",k,r); dst(&vd); printf("\n");
    }else if(t[0]=='b'||t[0]=='t'||t[0]=='B'||t[0]=='T'){
      int autoread=(t[0]=='b'||t[0]=='t');
      int W; long gran,sd; int eos; sscanf(t+2,"%d:%ld:%ld:%d",&W,&gran,&sd,&eos);
      seqno+=sd;
      unsigned char pk[2]; int nb=1;
      /* silent packet of the builder's minimal setup: mode = W, window flags 0 */
      pk[0]=(unsigned char)((W&1)<<1); pk[1]=0;
      memset(&op,0,sizeof op); op.packet=pk; op.bytes=nb; op.granulepos=gran; op.packetno=seqno; op.e_o_s=eos;
      int pcmflag=(t[0]=='b'||t[0]=='B');
      int sr=pcmflag?vorbis_synthesis(&vb,&op):vorbis_synthesis_trackonly(&vb,&op);
      long bn=(W?bs1:bs0)>>hs;
      if(!sr&&pcmflag)for(int c=0;c<ch;c++)for(long i=0;i<bn;i++)vb.pcm[c][i]=rndfloat();
      int br=sr?-999:vorbis_synthesis_blockin(&vd,&vb);
      float **pcm=NULL; int cnt=vorbis_synthesis_pcmout(&vd,&pcm);
      printf("B %d %ld %ld %d %d | %d %d",W,gran,seqno,eos,pcmflag,sr,br); dst(&vd); printf(" ; %d\n",cnt);
      if(!sr&&pcmflag)for(int c=0;c<ch;c++){ printf("in %d ",c); hexfloats(vb.pcm[c],bn); printf("\n"); }
      for(int c=0;c<ch;c++){ printf("out %d ",c); hexfloats(cnt>0?pcm[c]:NULL,cnt); printf("\n"); }
      if(br==0||br==-999){ /* the application takes everything unless told otherwise by a following p: token */ }
      { char *peek=t+strlen(t)+1; (void)peek; }
      if(autoread){ vorbis_synthesis_read(&vd,cnt); printf("P %d | 0",cnt); dst(&vd); printf("\n"); }
    }
  }
  free(ops);
  vorbis_block_clear(&vb); vorbis_dsp_clear(&vd); vorbis_comment_clear(&vc); vorbis_info_clear(&vi);
  return 0;
}

/* ---- disturbance oracle on real encoder output ---- */
typedef struct { unsigned char *b; long n; ogg_int64_t gran; long no; int eos; } pkt;
typedef struct { float *s; long n; int rc; } outp;   /* channel 0.. interleaved by channel blocks */

static void decode_seq(ogg_packet *hdr,pkt *pk,int *order,unsigned char **data,long *len,int m,int ch,outp *out,int restart_at){
  vorbis_info vi; vorbis_comment vc; vorbis_dsp_state vd; vorbis_block vb;
  vorbis_info_init(&vi); vorbis_comment_init(&vc);
  for(int i=0;i<3;i++)vorbis_synthesis_headerin(&vi,&vc,&hdr[i]);
  vorbis_synthesis_init(&vd,&vi); vorbis_block_init(&vd,&vb);
  for(int i=0;i<m;i++){
    int k=order[i]; ogg_packet op; memset(&op,0,sizeof op);
    if(i==restart_at)vorbis_synthesis_restart(&vd);
    op.packet=data[i]; op.bytes=len[i]; op.granulepos=pk[k].gran; op.packetno=pk[k].no; op.e_o_s=pk[k].eos;
    out[i].s=NULL; out[i].n=0;
    /* exact-size copy so that ASan sees overreads of the packet */
    unsigned char *ex=malloc(len[i]?len[i]:1); memcpy(ex,data[i],len[i]); op.packet=ex;
    int r=vorbis_synthesis(&vb,&op); out[i].rc=r;
    if(!r){
      vorbis_synthesis_blockin(&vd,&vb);
      float **pcm=NULL; int cnt=vorbis_synthesis_pcmout(&vd,&pcm);
      out[i].n=cnt; out[i].s=malloc(sizeof(float)*(cnt?cnt:1)*ch);
      if(cnt>0)for(int c=0;c<ch;c++)memcpy(out[i].s+(long)c*cnt,pcm[c],sizeof(float)*cnt);
      vorbis_synthesis_read(&vd,cnt);
    }
    free(ex);
  }
  vorbis_block_clear(&vb); vorbis_dsp_clear(&vd); vorbis_comment_clear(&vc); vorbis_info_clear(&vi);
}

static void fillsig(float **buf,int ch,long n,int kind,long pos){
  for(int c=0;c<ch;c++)for(long i=0;i<n;i++){
    double t=(double)(pos+i); float x=0;
    switch(kind){
    case 0: x=(float)((double)(vc_rng()>>11)/9007199254740992.0*2-1)*0.5f; break;
    case 1: x=(float)(0.6*sin(t*0.05*(c+1))); break;
    case 2: x=((pos+i)%3000==(c*17)%3000)?0.9f:0.0f; break;
    default: x=(((pos+i)/4096)&1)?(float)((double)(vc_rng()>>11)/9007199254740992.0-0.5):0.01f; break;
    }
    buf[c][i]=x;
  }
}

static int do_dist(char *line){
  char id[64]; int ch,kind,nd; long rate,N,seed; double q;
  if(sscanf(line,"dist %63s %d %ld %lf %ld %d %ld %d",id,&ch,&rate,&q,&N,&kind,&seed,&nd)!=8)return 0;
  printf("case %s\n",id); vc_rng_s=(uint64_t)seed;
  vorbis_info vi; vorbis_comment vc; vorbis_dsp_state vd; vorbis_block vb;
  vorbis_info_init(&vi);
  if(vorbis_encode_init_vbr(&vi,ch,rate,(float)q)){ printf("setup failed\n"); vorbis_info_clear(&vi); return 0; }
  vorbis_comment_init(&vc); vorbis_analysis_init(&vd,&vi); vorbis_block_init(&vd,&vb);
  ogg_packet hdr[3]; vorbis_analysis_headerout(&vd,&vc,&hdr[0],&hdr[1],&hdr[2]);
  for(int i=0;i<3;i++){ unsigned char *c=malloc(hdr[i].bytes); memcpy(c,hdr[i].packet,hdr[i].bytes); hdr[i].packet=c; }
  static pkt pk[4096]; int np=0; long pos=0;
  while(1){
    long n=(N-pos>1024)?1024:(N-pos);
    if(n>0){ float **b=vorbis_analysis_buffer(&vd,(int)n); fillsig(b,ch,n,kind,pos); pos+=n; }
    vorbis_analysis_wrote(&vd,(int)n);
    while(vorbis_analysis_blockout(&vd,&vb)==1){
      ogg_packet op; vorbis_analysis(&vb,NULL); vorbis_bitrate_addblock(&vb);
      while(vorbis_bitrate_flushpacket(&vd,&op)){
        if(np<4096){ pk[np].b=malloc(op.bytes?op.bytes:1); memcpy(pk[np].b,op.packet,op.bytes); pk[np].n=op.bytes;
          pk[np].gran=op.granulepos; pk[np].no=op.packetno; pk[np].eos=op.e_o_s; np++; }
      }
    }
    if(n<=0)break;
  }
  /* clean decode */
  int *order=malloc(sizeof(int)*(np+2)); unsigned char **data=malloc(sizeof(void*)*(np+2)); long *len=malloc(sizeof(long)*(np+2));
  outp *clean=calloc(np+2,sizeof(outp)), *dis=calloc(np+2,sizeof(outp));
  for(int i=0;i<np;i++){ order[i]=i; data[i]=pk[i].b; len[i]=pk[i].n; }
  decode_seq(hdr,pk,order,data,len,np,ch,clean,-1);
  long kinds[6]={0}; int bad=0;
  for(int d=0;d<nd&&np>4;d++){
    int kindd=(int)(vc_rng()%6); int at=(int)(vc_rng()%(np-1)); int m=0; int restart_at=-1;
    unsigned char *tmp=NULL; int first_clean; /* index (in the disturbed order) from which outputs must match */
    /* build the disturbed packet sequence */
    for(int i=0;i<np;i++){
      if(i==at){
        if(kindd==0){ continue; }                                 /* drop */
        if(kindd==1){ order[m]=i; data[m]=pk[i].b; len[m]=pk[i].n; m++; } /* duplicate */
        if(kindd==2){ long cut=pk[i].n?(long)(vc_rng()%pk[i].n):0; order[m]=i; data[m]=pk[i].b; len[m]=cut; m++; continue; } /* truncate */
        if(kindd==3){ tmp=malloc(pk[i].n?pk[i].n:1); memcpy(tmp,pk[i].b,pk[i].n);
          int nf=1+(int)(vc_rng()%4); for(int q2=0;q2<nf&&pk[i].n;q2++){ long bi=(long)(vc_rng()%(pk[i].n*8)); tmp[bi>>3]^=(unsigned char)(1<<(bi&7)); }
          order[m]=i; data[m]=tmp; len[m]=pk[i].n; m++; continue; } /* bit flips */
        if(kindd==4){ restart_at=m; }                              /* restart before this packet */
        if(kindd==5){ tmp=malloc(pk[i].n?pk[i].n:1); for(long z=0;z<pk[i].n;z++)tmp[z]=(unsigned char)vc_rng();
          if(pk[i].n)tmp[0]&=0xfe; order[m]=i; data[m]=tmp; len[m]=pk[i].n; m++; continue; } /* random bytes, audio type bit kept */
      }
      order[m]=i; data[m]=pk[i].b; len[m]=pk[i].n; m++;
    }
    kinds[kindd]++;
    decode_seq(hdr,pk,order,data,len,m,ch,dis,restart_at);
    /* from the second packet after the disturbance on, outputs are bit-identical */
    int seen=0; first_clean=-1;
    for(int i=0;i<m;i++){ if(order[i]>at){ seen++; if(seen==2){ first_clean=i; break; } } }
    if(first_clean>=0)for(int i=first_clean;i<m;i++){
      outp *a=&clean[order[i]], *b=&dis[i];
      if(a->rc!=b->rc||a->n!=b->n||(a->n&&memcmp(a->s,b->s,sizeof(float)*a->n*ch))){
        printf("prop locality FAIL kind=%d at=%d packet=%d clean_n=%ld got_n=%ld\n",kindd,at,order[i],a->n,b->n); bad++; break; }
    }
    for(int i=0;i<m;i++){ free(dis[i].s); dis[i].s=NULL; }
    free(tmp);
  }
  if(!bad)printf("prop locality ok\n");
  printf("S packets=%d disturbances=%d drop=%ld dup=%ld trunc=%ld flip=%ld restart=%ld random=%ld\n",np,nd,kinds[0],kinds[1],kinds[2],kinds[3],kinds[4],kinds[5]);
  for(int i=0;i<np;i++){ free(clean[i].s); free(pk[i].b); }
  for(int i=0;i<3;i++)free(hdr[i].packet);
  free(order); free(data); free(len); free(clean); free(dis);
  vorbis_block_clear(&vb); vorbis_dsp_clear(&vd); vorbis_comment_clear(&vc); vorbis_info_clear(&vi);
  return 0;
}

int main(int argc,char **argv){
  FILE *f=fopen(argv[1],"r"); char *line;
  if(!f)return 2;
  while((line=vc_getline(f))){
    if(!strncmp(line,"ovl ",4))do_ovl(line,f);
    else if(!strncmp(line,"dist ",5))do_dist(line);
    free(line);
  }
  return 0;
}
