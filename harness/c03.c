/* C03 harness: arbitrary bytes offered as a file or stream, then arbitrary
   sequences of public vorbisfile calls.  ASan/UBSan + watchdog decide memory
   safety and termination; every return value must be data or a documented code;
   a failed open must leave the handle zeroed and the source unclosed.
   case <id> <seekable> <maxread> <seed> <nops> <hexfile> */
#include "vcommon.h"
#include "vorbis/codec.h"
#include "vorbis/vorbisfile.h"
#include <signal.h>
#include <unistd.h>
#include <math.h>
static char g_where[256];
static void on_alarm(int s){ (void)s; char m[400]; int n=snprintf(m,sizeof m,"\nprop terminates FAIL (watchdog) at %s\n",g_where); write(1,m,n); _exit(97); }
static int documented(long rc){
  switch(rc){ case 0: case OV_FALSE: case OV_EOF: case OV_HOLE: case OV_EREAD: case OV_EFAULT: case OV_EIMPL: case OV_EINVAL:
    case OV_ENOTVORBIS: case OV_EBADHEADER: case OV_EVERSION: case OV_ENOTAUDIO: case OV_EBADPACKET: case OV_EBADLINK: case OV_ENOSEEK: return 1; }
  return rc>0;
}
int main(int argc,char **argv){
  FILE *f=fopen(argv[1],"r"); char *line;
  if(!f)return 2;
  vc_watch_init(on_alarm);
  while((line=vc_getline(f))){
    char id[64]; int seekable; long maxread,seed,nops; char *hex;
    char *t=strtok(line," "); if(!t||strcmp(t,"case")){ free(line); continue; }
    strcpy(id,strtok(NULL," ")); seekable=atoi(strtok(NULL," ")); maxread=atol(strtok(NULL," ")); seed=atol(strtok(NULL," ")); nops=atol(strtok(NULL," ")); hex=strtok(NULL," ");
    long n; unsigned char *file0=vc_unhex(hex,&n);
    /* exact-size copy: reads beyond the data are heap overflows ASan sees */
    unsigned char *file=malloc(n?n:1); memcpy(file,file0,n); free(file0);
    printf("case %s\n",id); vc_rng_s=(uint64_t)seed; int bad=0;
    snprintf(g_where,sizeof g_where,"case %s open",id); vc_watch(20);
    memsrc ms={0}; ms.b=file; ms.n=n; ms.seekable=seekable; ms.maxread=maxread;
    OggVorbis_File vf; ov_callbacks cb={ms_read,seekable?ms_seek:NULL,ms_close,seekable?ms_tell:NULL};
    int orc=ov_open_callbacks(&ms,&vf,NULL,0,cb);
    printf("open %d\n",orc);
    if(!documented(orc)||orc>0){ printf("prop errcode FAIL open rc=%d\n",orc); bad++; }
    if(orc){
      static const OggVorbis_File zero;
      if(ms.closes!=0){ printf("prop noclose FAIL failed open closed the source\n"); bad++; }
      if(memcmp(&vf,&zero,sizeof vf)){ printf("prop cleared FAIL failed open left the handle non-zero\n"); bad++; }
    }else{
      OggVorbis_File vf2; memsrc ms2={0}; int have2=0;
      for(long i=0;i<nops;i++){
        uint64_t r=vc_rng(); int op=(int)(r%26); long a=(long)((r>>8)%200000)-20; long rc=0; float **p; int bs; char buf[4096];
        long tot=seekable?(long)ov_pcm_total(&vf,-1):100000; if(tot<1)tot=1;
        long posarg=((r>>40)&3)==0?a:(long)((r>>16)%(tot+3))-1;
        snprintf(g_where,sizeof g_where,"case %s op#%ld kind %d arg %ld",id,i,op,posarg); vc_watch(20);
        if(getenv("VERIF_DEBUG")){ printf("dbg %s rs=%d cl=%d pcm=%ld\n",g_where,vf.ready_state,vf.current_link,(long)vf.pcm_offset); fflush(stdout); }
        if(getenv("VERIF_DEBUG")){ printf("dbg vd: ret=%d cur=%d cW=%ld lW=%ld W=%ld nW=%ld\n",vf.vd.pcm_returned,vf.vd.pcm_current,(long)vf.vd.centerW,vf.vd.lW,vf.vd.W,vf.vd.nW); fflush(stdout); }
        switch(op){
        case 0: case 1: case 2: rc=ov_read_float(&vf,&p,(int)((r>>8)%5000),&bs); if(rc>0){ volatile float x=p[0][rc-1]; (void)x; } break;
        case 3: rc=ov_read(&vf,buf,(int)((r>>8)%4097),(r>>20)&1,1+((r>>21)&1),(r>>22)&1,&bs); break;
        case 4: rc=ov_pcm_seek(&vf,posarg); break;
        case 5: rc=ov_pcm_seek_page(&vf,posarg); break;
        case 6: rc=ov_raw_seek(&vf,(long)((r>>16)%(n+3))-1); break;
        case 7: rc=ov_time_seek(&vf,(double)posarg/8000.0); break;
        case 8: rc=ov_time_seek_page(&vf,(double)posarg/44100.0); break;
        case 9: rc=ov_pcm_seek_lap(&vf,posarg); break;
        case 10: rc=ov_raw_seek_lap(&vf,(long)((r>>16)%(n+3))-1); break;
        case 11: rc=ov_time_seek_lap(&vf,(double)posarg/8000.0); break;
        case 12: rc=ov_pcm_seek_page_lap(&vf,posarg); break;
        case 13: { ogg_int64_t v=ov_pcm_tell(&vf); (void)v; double d=ov_time_tell(&vf); (void)d; v=ov_raw_tell(&vf); } break;
        case 14: { int li=(int)((r>>8)%6)-1; ogg_int64_t v=ov_pcm_total(&vf,li); double d=ov_time_total(&vf,li); v=ov_raw_total(&vf,li); (void)v;(void)d; } break;
        case 15: { int li=(int)((r>>8)%6)-1; vorbis_info *vi=ov_info(&vf,li); if(vi){ volatile int c=vi->channels; (void)c; } vorbis_comment *vc=ov_comment(&vf,li); if(vc&&vc->vendor){ volatile char c=vc->vendor[0]; (void)c; } } break;
        case 16: { int li=(int)((r>>8)%6)-1; rc=ov_bitrate(&vf,li); if(rc<-1000)rc=0; long q=ov_bitrate_instant(&vf); (void)q; rc=0; } break;
        case 17: rc=ov_halfrate(&vf,(int)((r>>8)&1)); break;
        case 18: { int q=ov_halfrate_p(&vf); (void)q; long s=ov_serialnumber(&vf,(int)((r>>8)%6)-1); (void)s; s=ov_streams(&vf); s=ov_seekable(&vf); } break;
        case 19: case 20:
          if(!have2){ ms2.b=file; ms2.n=n; ms2.seekable=seekable; ms2.pos=0; ms2.closes=0; if(ov_open_callbacks(&ms2,&vf2,NULL,0,cb)==0)have2=1; }
          if(have2){ if((r>>8)&1)ov_pcm_seek(&vf2,posarg);
            if(getenv("VERIF_DEBUG")){ printf("dbg crosslap dir=%d vf2: rs=%d cl=%d pcm=%ld ret=%d cur=%d cW=%ld lW=%ld W=%ld | vf: rs=%d ret=%d cur=%d cW=%ld lW=%ld W=%ld\n",(int)((r>>9)&1),vf2.ready_state,vf2.current_link,(long)vf2.pcm_offset,vf2.vd.pcm_returned,vf2.vd.pcm_current,(long)vf2.vd.centerW,vf2.vd.lW,vf2.vd.W,vf.ready_state,vf.vd.pcm_returned,vf.vd.pcm_current,(long)vf.vd.centerW,vf.vd.lW,vf.vd.W); fflush(stdout); }
            rc=ov_crosslap((r>>9)&1?&vf:&vf2,(r>>9)&1?&vf2:&vf); }
          break;
        case 21: rc=ov_read_float(&vf,&p,100000,&bs); break;
        default: rc=ov_read_float(&vf,&p,64,&bs); break;
        }
        if(!documented(rc)){ printf("prop errcode FAIL op=%d rc=%ld\n",op,rc); bad++; }
        if(ms.closes){ printf("prop noclose FAIL source closed by op %d\n",op); bad++; break; }
      }
      if(have2)ov_clear(&vf2);
    }
    vc_watch(20); snprintf(g_where,sizeof g_where,"case %s clear",id);
    ov_clear(&vf);
    if(orc==0&&ms.closes!=1){ printf("prop closeonce FAIL closes=%ld\n",ms.closes); bad++; }
    if(orc!=0&&ms.closes!=0){ printf("prop noclose FAIL ov_clear after a failed open closed the source\n"); bad++; }
    ov_clear(&vf);   /* repeating the clear is harmless */
    vc_watch(0);
    if(!bad)printf("prop safe ok\n");
    free(file); free(line);
  }
  return 0;
}
