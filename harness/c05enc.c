/* C05: runs the real encoder and writes a case for the packet-decoder pair
   (harness/pd.c and the model): the three header packets, init, every audio
   packet with its granule position.  `einfo` lines carry the encoder's own
   view (info structure, block sequence) for the property oracle.
   usage: c05enc <spec file> ; each line:
     <id> <ch> <rate> <managed> <qbits32|max nom min> <nsamples> <signal> <seed> <ctl> */
#include "vcommon.h"
#include "vorbis/codec.h"
#include "vorbis/vorbisenc.h"
#include "codec_internal.h"
#include <math.h>

static void fill(float **buf,int ch,long n,int kind,long pos){
  for(int c=0;c<ch;c++)for(long i=0;i<n;i++){
    double t=(double)(pos+i); float x=0;
    switch(kind){ case 0: x=0; break;
      case 1: x=(float)((double)(vc_rng()>>11)/9007199254740992.0*2-1); break;                /* full-scale noise */
      case 2: x=(float)(0.6*sin(t*0.05*(c+1))); break;
      case 3: x=((pos+i)%997==(c*17)%997)?1.0f:0.0f; break;                                   /* impulses */
      case 4: x=0.5f; break;                                                                  /* DC */
      case 5: x=(float)((double)(vc_rng()>>11)/9007199254740992.0*2-1)*1e-40f; break;         /* denormals */
      case 6: x=(float)((double)(vc_rng()>>11)/9007199254740992.0*16-8); break;                /* beyond +-1 */
      case 7: x=(((pos+i)/2048)&1)?1.0f:-1.0f; break;                                          /* full-scale square */
      default: x=(((pos+i)/3000)&1)?(float)((double)(vc_rng()>>11)/9007199254740992.0-0.5):0.f; break; }
    buf[c][i]=x; }
}
int main(int argc,char **argv){
  FILE *f=fopen(argv[1],"r"); char *line; if(!f)return 2;
  while((line=vc_getline(f))){
    char id[64]; int ch,managed,sig,ctl; long rate,a=0,b=0,c=0,N; unsigned long qb=0; unsigned long long seed;
    if(sscanf(line,"%63s %d %ld %d",id,&ch,&rate,&managed)<4){ free(line); continue; }
    if(managed)sscanf(line,"%*s %*d %*d %*d %ld %ld %ld %ld %d %llu %d",&a,&b,&c,&N,&sig,&seed,&ctl);
    else sscanf(line,"%*s %*d %*d %*d %lu %ld %d %llu %d",&qb,&N,&sig,&seed,&ctl);
    free(line);
    vc_rng_s=seed;
    vorbis_info vi; vorbis_info_init(&vi); int rc;
    if(managed)rc=vorbis_encode_setup_managed(&vi,ch,rate,a,b,c);
    else{ float q; uint32_t u=(uint32_t)qb; memcpy(&q,&u,4); rc=vorbis_encode_setup_vbr(&vi,ch,rate,q); }
    if(!rc){
      if(ctl&1){ int v=0; vorbis_encode_ctl(&vi,OV_ECTL_COUPLING_SET,&v); }
      if(ctl&2){ double lp=6.0; vorbis_encode_ctl(&vi,OV_ECTL_LOWPASS_SET,&lp); }
      if(ctl&4){ double ib=-10.0; vorbis_encode_ctl(&vi,OV_ECTL_IBLOCK_SET,&ib); }
      if((ctl&8)&&managed){ struct ovectl_ratemanage2_arg ai; vorbis_encode_ctl(&vi,OV_ECTL_RATEMANAGE2_GET,&ai); ai.bitrate_limit_reservoir_bits=4000; vorbis_encode_ctl(&vi,OV_ECTL_RATEMANAGE2_SET,&ai); }
      rc=vorbis_encode_setup_init(&vi);
    }
    printf("case %s\n",id);
    if(rc){ printf("einfo refused %d\nend\n",rc); vorbis_info_clear(&vi); continue; }
    vorbis_comment vc; vorbis_dsp_state vd; vorbis_block vb; ogg_packet h[3],op;
    vorbis_comment_init(&vc); vorbis_comment_add_tag(&vc,"ENCODER","c05"); vorbis_analysis_init(&vd,&vi); vorbis_block_init(&vd,&vb);
    codec_setup_info *ci=vi.codec_setup;
    printf("einfo info %d %ld %ld %ld %ld %ld %ld managed %d hardmax %ld\n",vi.channels,vi.rate,vi.bitrate_upper,vi.bitrate_nominal,vi.bitrate_lower,
           ci->blocksizes[0],ci->blocksizes[1],vorbis_bitrate_managed(&vb),ci->bi.max_rate);
    printf("einfo setup %d %d %d %d %d\n",ci->books,ci->floors,ci->residues,ci->maps,ci->modes);
    vorbis_analysis_headerout(&vd,&vc,&h[0],&h[1],&h[2]);
    for(int i=0;i<3;i++){ printf("hdr %d ",i==0); vc_puthex(stdout,h[i].packet,h[i].bytes); putchar('\n'); }
    printf("init\n");
    long pos=0,npk=0;
    for(;;){
      long k=N-pos; if(k>1024)k=1024;
      if(k>0){ float **bf=vorbis_analysis_buffer(&vd,(int)k); fill(bf,ch,k,sig,pos); pos+=k; }
      vorbis_analysis_wrote(&vd,(int)(k>0?k:0));
      while(vorbis_analysis_blockout(&vd,&vb)==1){
        vorbis_analysis(&vb,NULL); vorbis_bitrate_addblock(&vb);
        while(vorbis_bitrate_flushpacket(&vd,&op)){
          printf("einfo block %ld %ld %ld %ld\n",npk,vb.W,vb.lW,vb.nW);
          printf("pkt "); vc_puthex(stdout,op.packet,op.bytes); printf(" %lld %d %d\n",(long long)op.granulepos,(int)op.e_o_s,(npk%3==0)?1:0);
          npk++;
        }
      }
      if(k<=0)break;
    }
    printf("end\n");
    vorbis_block_clear(&vb); vorbis_dsp_clear(&vd); vorbis_comment_clear(&vc); vorbis_info_clear(&vi);
  }
  return 0;
}
