/* C17 correspondence harness: ov_read_filter on hand-made streams; the filter
   callback injects chosen float values (boundaries, ties, huge, inf, NaN,
   denormals) just before packing, and logs them, so the model can be given
   exactly the floats that were packed. */
#include "vcommon.h"
#include "vorbis/codec.h"
#include "vorbis/vorbisfile.h"
#include <math.h>

static int g_pattern;
static float pick(int pattern,long idx,int word){
  static const float b16[]={0.f,-0.f,1.f,-1.f,0.5f/32768,1.5f/32768,-0.5f/32768,-1.5f/32768,2.5f/32768,-2.5f/32768,
    32766.5f/32768,32767.f/32768,32767.5f/32768,-32767.5f/32768,-32768.5f/32768,-32769.f/32768,1.00001f,-1.00001f,
    2.f,-2.f,65535.f/32768*32768,65536.f,-65536.f,65535.99f,65536.01f,131072.f,-131072.f,1e10f,-1e10f,3.4e38f,-3.4e38f,
    1e-40f,-1e-40f,1e-45f,4294967296.f/32768,2147483520.f/32768,2147483648.f/32768,-2147483648.f/32768,-2147483904.f/32768,
    0.999969482f,0.99998474f,0.49999f/32768,0.50001f/32768};
  static const float b8[]={0.5f/128,1.5f/128,-0.5f/128,-1.5f/128,126.5f/128,127.f/128,127.5f/128,-127.5f/128,-128.5f/128,
    1.f,-1.f,255.f,-255.f,256.f,16777216.f,-16777216.f,16777215.f,1e10f,-1e10f,2.5f/128,3.5f/128};
  uint64_t r=vc_rng();
  switch(pattern){
  case 0: return (float)((double)(r>>11)/9007199254740992.0*2-1);
  case 1: if(word==1&&(r&1))return b8[(r>>8)%(sizeof b8/sizeof*b8)]; return b16[(r>>8)%(sizeof b16/sizeof*b16)];
  case 2: return (float)(((double)(r>>11)/9007199254740992.0*2-1)*70000.0);
  case 3: { int k=(int)((r>>8)%65540)-32770; int h=(int)((r>>40)%4); return (float)((k+(h==0?0.5:h==1?0.25:h==2?0.75:0.0))/32768.0); }
  case 4: { int k=(int)((r>>8)%264)-132; int h=(int)((r>>40)%4); return (float)((k+(h==0?0.5:h==1?0.25:h==2?0.75:0.0))/128.0); }
  case 5: { uint32_t u=(uint32_t)(r>>16); float f; if((r&7)==0)u=(u&0x80000000u)|0x7f800000u|((r&8)?0:(u&0x7fffff)); memcpy(&f,&u,4); return f; } /* any bit pattern, some inf/NaN */
  default: return (float)idx/32768.f;
  }
}
static void filt(float **pcm,long channels,long samples,void *param){
  int word=*(int*)param;
  printf("filter %ld %ld\n",channels,samples);
  for(long c=0;c<channels;c++){
    printf("in %ld ",c);
    for(long j=0;j<samples;j++){ float f=pick(g_pattern,j*channels+c,word); uint32_t u; pcm[c][j]=f; memcpy(&u,&f,4); printf("%08x",u); }
    printf("\n");
  }
}
int main(int argc,char **argv){
  FILE *f=fopen(argv[1],"r"); char *line;
  if(!f)return 2;
  while((line=vc_getline(f))){
    char id[64]; int hs; long seed; char *hex;
    char *t=strtok(line," "); if(!t||strcmp(t,"case")){ free(line); continue; }
    strcpy(id,strtok(NULL," ")); hs=atoi(strtok(NULL," ")); seed=atol(strtok(NULL," ")); hex=strtok(NULL," ");
    long n; unsigned char *file=vc_unhex(hex,&n);
    printf("case %s\n",id); vc_rng_s=(uint64_t)seed;
    memsrc ms={0}; ms.b=file; ms.n=n; ms.seekable=1;
    OggVorbis_File vf; ov_callbacks cb={ms_read,ms_seek,ms_close,ms_tell};
    int orc=ov_open_callbacks(&ms,&vf,NULL,0,cb);
    if(orc){ printf("open %d\n",orc); free(file); free(line); free(vc_getline(f)); continue; }
    if(hs){ int r=ov_halfrate(&vf,1); printf("halfrate %d\n",r); if(r)hs=0; }
    printf("cfg %d %d\n",ov_info(&vf,0)->channels,hs);
    char *ops=vc_getline(f);
    for(char *tk=strtok(ops," ");tk;tk=strtok(NULL," ")){
      if(!strcmp(tk,"ops"))continue;
      if(tk[0]=='f'){ float **p; int bs; long r=ov_read_float(&vf,&p,atoi(tk+2),&bs); printf("F %s | %ld\n",tk+2,r<0?r:(r>0)); }
      else if(tk[0]=='s'){ int r=ov_pcm_seek(&vf,atol(tk+2)); printf("S %s | %d\n",tk+2,r); }
      else if(tk[0]=='r'){
        int word,sg,be,pat; long len; sscanf(tk+2,"%d:%d:%d:%ld:%d",&word,&sg,&be,&len,&pat);
        /* make sure decoded data is pending so that `avail` is observable: a
           zero-length request must be refused without consuming anything */
        char tiny[1]; int bs0=-7;
        long pk=ov_read_filter(&vf,tiny,0,be,word>0?word:2,sg,&bs0,NULL,NULL);
        long avail=(vf.ready_state>=4)?vorbis_synthesis_pcmout(&vf.vd,NULL):0;
        ogg_int64_t t0=ov_pcm_tell(&vf);
        long cap=len>0?len:0; unsigned char *buf=malloc(cap+16); memset(buf,0xA5,cap+16);
        int bs=-7; g_pattern=pat;
        printf("R %d %d %d %ld | peek %ld avail %ld ch %d\n",word,sg,be,len,pk,avail,(vf.ready_state>=2&&ov_info(&vf,-1))?ov_info(&vf,-1)->channels:0);
        long r=ov_read_filter(&vf,(char*)buf,(int)len,be,word,sg,&bs,filt,&word);
        ogg_int64_t t1=ov_pcm_tell(&vf);
        int guard=1; for(int i=0;i<16;i++)if(buf[cap+i]!=0xA5)guard=0;
        if(r<=0)for(long i=0;i<cap;i++)if(buf[i]!=0xA5)guard=0;   /* error => nothing written */
        printf("ret %ld adv %ld link %d\n",r,(long)(t1-t0),bs);
        printf("out "); vc_puthex(stdout,buf,r>0?r:0); printf("\n");
        printf("prop guard %s\n",guard?"ok":"FAIL");
        /* a non-positive word size is answered with an error whatever the state of the handle (end of stream included) */
        if(word<=0&&r!=OV_EINVAL)printf("prop badword FAIL ret=%ld word=%d avail=%ld\n",r,word,avail);
        free(buf);
      }
    }
    free(ops); ov_clear(&vf); free(file); free(line);
  }
  return 0;
}
