/* helpers shared by the correspondence harnesses */
#ifndef VCOMMON_H
#define VCOMMON_H
#include <stdio.h>
#include <stdlib.h>
#include <string.h>
#include <stdint.h>
#include <ogg/ogg.h>
#include <signal.h>
#include <sys/time.h>
/* watchdog counted in CPU time of this process (user+system, all threads): a busy loop trips it,
   machine load, a paused VM or a jumping wall clock do not */
__attribute__((unused)) static void vc_watch_init(void (*h)(int)){ signal(SIGPROF,h); }
__attribute__((unused)) static void vc_watch(int seconds){ struct itimerval it; memset(&it,0,sizeof it); it.it_value.tv_sec=seconds; setitimer(ITIMER_PROF,&it,NULL); }

static int vc_hexval(int c){ return c<='9'?c-'0':(c|32)-'a'+10; }
/* returns malloc'd buffer (len+1 bytes, NUL terminated), sets *len; "-" is empty */
static unsigned char *vc_unhex(const char *s,long *len){
  long n=(s[0]=='-')?0:(long)strlen(s)/2;
  unsigned char *b=malloc(n+1);
  for(long i=0;i<n;i++)b[i]=(unsigned char)(vc_hexval(s[2*i])*16+vc_hexval(s[2*i+1]));
  b[n]=0; *len=n; return b;
}
static void vc_puthex(FILE *f,const unsigned char *b,long n){
  static const char *d="0123456789abcdef";
  if(n<=0){ fputc('-',f); return; }
  for(long i=0;i<n;i++){ fputc(d[b[i]>>4],f); fputc(d[b[i]&15],f); }
}
/* reads a whole line of any length; returns malloc'd string without newline or NULL */
static char *vc_getline(FILE *f){
  size_t cap=0; char *line=NULL; ssize_t n=getline(&line,&cap,f);
  if(n<0){ free(line); return NULL; }
  while(n>0&&(line[n-1]=='\n'||line[n-1]=='\r'))line[--n]=0;
  return line;
}
static uint64_t vc_rng_s;
static uint64_t vc_rng(void){
  uint64_t z=(vc_rng_s+=0x9E3779B97F4A7C15ULL);
  z=(z^(z>>30))*0xBF58476D1CE4E5B9ULL; z=(z^(z>>27))*0x94D049BB133111EBULL; return z^(z>>31);
}
static const char *vc_errname(long c){
  switch(c){
  case 0: return "OK"; case -1: return "OV_FALSE"; case -2: return "OV_EOF"; case -3: return "OV_HOLE";
  case -128: return "OV_EREAD"; case -129: return "OV_EFAULT"; case -130: return "OV_EIMPL";
  case -131: return "OV_EINVAL"; case -132: return "OV_ENOTVORBIS"; case -133: return "OV_EBADHEADER";
  case -134: return "OV_EVERSION"; case -135: return "OV_ENOTAUDIO"; case -136: return "OV_EBADPACKET";
  case -137: return "OV_EBADLINK"; case -138: return "OV_ENOSEEK"; default: return "OTHER";
  }
}

/* growable byte buffer */
typedef struct { unsigned char *b; long n, cap; } vbuf;
static void vbuf_add(vbuf *v,const void *p,long n){
  if(v->n+n>v->cap){ v->cap=(v->n+n)*2+4096; v->b=realloc(v->b,v->cap); }
  memcpy(v->b+v->n,p,n); v->n+=n;
}

/* in-memory data source for ov_open_callbacks, with a short-read schedule and
   fault injection (used by the vorbisfile harnesses) */
typedef struct {
  const unsigned char *b; long n, pos;
  int seekable;
  long maxread;          /* >0: never return more than this per call */
  long calls_read, calls_seek, calls_tell, closes;
  /* fault: at call index fault_at (counted over all three callbacks from 1) */
  long fault_at; int fault_kind; int fault_persist; long ncalls;
} memsrc;
enum { F_NONE=0, F_READ_ERR, F_READ_ZERO, F_READ_ONE, F_SEEK_FAIL, F_TELL_FAIL };
#include <errno.h>
static int ms_faulty(memsrc *m){
  if(!m->fault_kind||!m->fault_at)return 0;
  if(m->fault_persist)return m->ncalls>=m->fault_at;
  return m->ncalls==m->fault_at;
}
static size_t ms_read(void *ptr,size_t size,size_t nmemb,void *ds){
  memsrc *m=ds; long want=(long)(size*nmemb), left=m->n-m->pos;
  m->calls_read++; m->ncalls++;
  if(ms_faulty(m)){
    if(m->fault_kind==F_READ_ERR){ errno=EIO; return 0; }
    if(m->fault_kind==F_READ_ZERO){ errno=0; return 0; }
    if(m->fault_kind==F_READ_ONE){ if(want>1)want=1; }
  }
  errno=0;
  if(m->maxread>0&&want>m->maxread)want=m->maxread;
  if(want>left)want=left;
  if(want<=0)return 0;
  memcpy(ptr,m->b+m->pos,want); m->pos+=want; return (size_t)want;
}
static int ms_seek(void *ds,ogg_int64_t off,int whence){
  memsrc *m=ds; long np;
  if(!m->seekable)return -1;
  m->calls_seek++; m->ncalls++;
  if(ms_faulty(m)&&m->fault_kind==F_SEEK_FAIL)return -1;
  np=(whence==SEEK_SET)?off:(whence==SEEK_CUR)?m->pos+off:m->n+off;
  if(np<0||np>m->n)return -1;
  m->pos=np; return 0;
}
static long ms_tell(void *ds){
  memsrc *m=ds; m->calls_tell++; m->ncalls++;
  if(ms_faulty(m)&&m->fault_kind==F_TELL_FAIL)return -1;
  return m->pos;
}
static int ms_close(void *ds){ memsrc *m=ds; m->closes++; return 0; }
#endif
