/* C16 correspondence harness: runs lib/info.c's comment code on the case
   file the model driver also reads, printing the same canonical lines, plus
   `prop` lines: the property's own oracle evaluated on the implementation. */
#include "vcommon.h"
#include <ogg/ogg.h>
#include "vorbis/codec.h"

static vorbis_comment vc;
static void vc_push(unsigned char *b,long n){
  vc.user_comments=realloc(vc.user_comments,(vc.comments+2)*sizeof(char*));
  vc.comment_lengths=realloc(vc.comment_lengths,(vc.comments+2)*sizeof(int));
  vc.user_comments[vc.comments]=(char*)b; vc.comment_lengths[vc.comments]=(int)n;
  vc.comments++; vc.user_comments[vc.comments]=NULL;
}
static const unsigned char idhdr[30]={1,'v','o','r','b','i','s',0,0,0,0,2,0x44,0xac,0,0,
  0,0,0,0,0,0,0,0,0,0,0,0,0xb8,1};

/* headerin on a comment packet after a valid id header */
static int do_in(unsigned char *pkt,long n,vorbis_comment *out){
  vorbis_info vi; ogg_packet op; int r;
  vorbis_info_init(&vi); vorbis_comment_init(out);
  memset(&op,0,sizeof op); op.packet=(unsigned char*)idhdr; op.bytes=30; op.b_o_s=1;
  r=vorbis_synthesis_headerin(&vi,out,&op);
  if(r){ fprintf(stderr,"id header refused %d\n",r); exit(3); }
  memset(&op,0,sizeof op); op.packet=pkt; op.bytes=n; op.packetno=1;
  r=vorbis_synthesis_headerin(&vi,out,&op);
  vorbis_info_clear(&vi);
  return r;
}

int main(int argc,char **argv){
  FILE *f=fopen(argv[1],"r"); char *line;
  if(!f)return 2;
  vorbis_comment_init(&vc);
  while((line=vc_getline(f))){
    char *cmd=strtok(line," "); char *a1=strtok(NULL," "); char *a2=strtok(NULL," ");
    long n,m;
    if(!cmd){ free(line); continue; }
    if(!strcmp(cmd,"case")){
      vorbis_comment_clear(&vc); vorbis_comment_init(&vc); printf("case %s\n",a1);
    }else if(!strcmp(cmd,"c")){
      unsigned char *b=vc_unhex(a1,&n); vc_push(b,n);
    }else if(!strcmp(cmd,"a")){
      unsigned char *b=vc_unhex(a1,&n); vorbis_comment_add(&vc,(char*)b); free(b);
    }else if(!strcmp(cmd,"t")){
      unsigned char *b=vc_unhex(a1,&n), *c=vc_unhex(a2,&m);
      vorbis_comment_add_tag(&vc,(char*)b,(char*)c); free(b); free(c);
    }else if(!strcmp(cmd,"pack")){
      ogg_packet op; vorbis_comment back; int r,ok=1,i;
      if(vorbis_commentheader_out(&vc,&op)){ printf("pkt ERROR\n"); free(line); continue; }
      printf("pkt "); vc_puthex(stdout,op.packet,op.bytes); printf("\n");
      /* the property itself: what was written is read back identically */
      r=do_in(op.packet,op.bytes,&back);
      if(r||back.comments!=vc.comments)ok=0;
      for(i=0;ok&&i<vc.comments;i++)
        if(back.comment_lengths[i]!=vc.comment_lengths[i]||
           memcmp(back.user_comments[i],vc.user_comments[i],vc.comment_lengths[i]))ok=0;
      if(ok&&(!back.vendor||!strlen(back.vendor)))ok=0;
      printf("prop roundtrip %s\n",ok?"ok":"FAIL");
      vorbis_comment_clear(&back); free(op.packet);
    }else if(!strcmp(cmd,"q")){
      unsigned char *t=vc_unhex(a1,&n); int idx=atoi(a2),i,found=-1; long off=0;
      char *p=vorbis_comment_query(&vc,(char*)t,idx);
      if(p)for(i=0;i<vc.comments;i++)
        if(p>=vc.user_comments[i]&&p<=vc.user_comments[i]+vc.comment_lengths[i]){found=i;off=p-vc.user_comments[i];break;}
      printf("q %d %ld\n",found,off); free(t);
    }else if(!strcmp(cmd,"cnt")){
      unsigned char *t=vc_unhex(a1,&n); int c=vorbis_comment_query_count(&vc,(char*)t),k=0;
      printf("cnt %d\n",c);
      while(k<=vc.comments&&vorbis_comment_query(&vc,(char*)t,k))k++;
      printf("prop count %s\n",(k==c&&!vorbis_comment_query(&vc,(char*)t,c))?"ok":"FAIL");
      free(t);
    }else if(!strcmp(cmd,"in")){
      unsigned char *pkt=vc_unhex(a1,&n); vorbis_comment out; int i;
      /* exact-size heap copy so that ASan sees any read beyond the packet */
      unsigned char *exact=malloc(n?n:1); memcpy(exact,pkt,n);
      int r=do_in(exact,n,&out);
      if(r==OV_ENOTVORBIS)printf("in ENOTVORBIS\n");
      else if(r)printf("in EBADHEADER\n");
      else{
        printf("in OK %d ",out.comments); vc_puthex(stdout,(unsigned char*)out.vendor,strlen(out.vendor));
        for(i=0;i<out.comments;i++){ printf(" "); vc_puthex(stdout,(unsigned char*)out.user_comments[i],out.comment_lengths[i]); }
        printf("\n");
      }
      vorbis_comment_clear(&out); free(exact); free(pkt);
    }
    free(line);
  }
  vorbis_comment_clear(&vc);
  return 0;
}
