/* Real-encoder stream maker: one logical stream per input line
   enc <serial> <ch> <rate> <quality> <N> <signal> <seed> <flushevery>
   prints "file <hex>" (the complete Ogg logical stream). */
#include "vcommon.h"
#include "vorbis/codec.h"
#include "vorbis/vorbisenc.h"
#include <math.h>
static void fill(float **buf,int ch,long n,int kind,long pos){
  for(int c=0;c<ch;c++)for(long i=0;i<n;i++){
    double t=(double)(pos+i); float x=0;
    switch(kind){
    case 0: x=0; break;
    case 1: x=(float)((double)(vc_rng()>>11)/9007199254740992.0*2-1)*0.5f; break;
    case 2: x=(float)(0.6*sin(t*0.05*(c+1))); break;
    case 3: x=((pos+i)%3000==(c*17)%3000)?0.9f:0.0f; break;
    default: x=(((pos+i)/4096)&1)?(float)((double)(vc_rng()>>11)/9007199254740992.0-0.5):0.01f; break;
    }
    buf[c][i]=x;
  }
}
int main(int argc,char **argv){
  FILE *f=fopen(argv[1],"r"); char *line;
  if(!f)return 2;
  while((line=vc_getline(f))){
    long serial,rate,N,seed; int ch,kind,flushevery; double q;
    if(sscanf(line,"enc %ld %d %ld %lf %ld %d %ld %d",&serial,&ch,&rate,&q,&N,&kind,&seed,&flushevery)!=8){ free(line); continue; }
    free(line); vc_rng_s=(uint64_t)seed;
    vorbis_info vi; vorbis_comment vc; vorbis_dsp_state vd; vorbis_block vb;
    vorbis_info_init(&vi);
    if(vorbis_encode_init_vbr(&vi,ch,rate,(float)q)){ printf("file -\n"); vorbis_info_clear(&vi); continue; }
    vorbis_comment_init(&vc); vorbis_comment_add_tag(&vc,"ENCODER","verif");
    vorbis_analysis_init(&vd,&vi); vorbis_block_init(&vd,&vb);
    ogg_stream_state os; ogg_stream_init(&os,(int)serial); ogg_page og; ogg_packet op; vbuf out={0};
    ogg_packet h[3]; vorbis_analysis_headerout(&vd,&vc,&h[0],&h[1],&h[2]);
    for(int i=0;i<3;i++)ogg_stream_packetin(&os,&h[i]);
    while(ogg_stream_flush(&os,&og)){ vbuf_add(&out,og.header,og.header_len); vbuf_add(&out,og.body,og.body_len); }
    long pos=0,npk=0;
    for(;;){
      long n=(N-pos>1024)?1024:(N-pos);
      if(n>0){ float **b=vorbis_analysis_buffer(&vd,(int)n); fill(b,ch,n,kind,pos); pos+=n; }
      vorbis_analysis_wrote(&vd,(int)n);
      while(vorbis_analysis_blockout(&vd,&vb)==1){
        vorbis_analysis(&vb,NULL); vorbis_bitrate_addblock(&vb);
        while(vorbis_bitrate_flushpacket(&vd,&op)){
          ogg_stream_packetin(&os,&op); npk++;
          if(flushevery>0&&npk%flushevery==0){
            while(ogg_stream_flush(&os,&og)){ vbuf_add(&out,og.header,og.header_len); vbuf_add(&out,og.body,og.body_len); }
          }else while(ogg_stream_pageout(&os,&og)){ vbuf_add(&out,og.header,og.header_len); vbuf_add(&out,og.body,og.body_len); }
        }
      }
      if(n<=0)break;
    }
    while(ogg_stream_flush(&os,&og)){ vbuf_add(&out,og.header,og.header_len); vbuf_add(&out,og.body,og.body_len); }
    printf("file "); vc_puthex(stdout,out.b,out.n); printf("\n");
    free(out.b); ogg_stream_clear(&os);
    vorbis_block_clear(&vb); vorbis_dsp_clear(&vd); vorbis_comment_clear(&vc); vorbis_info_clear(&vi);
  }
  return 0;
}
