/* General vorbisfile exerciser (C07 C08 C09 C10 C12 C19 C20 C03).
   case <id> <seekable> <maxread> <seed> <hs> <hexfile>
   ops tok tok ...
   For every case it prints
     - the page table as libogg parses the bytes (input of the Coq model),
     - the result of an independent packet-level decode (link lengths),
     - one line per op with return code and observable position state,
     - `prop` lines: the properties' own oracles evaluated on the implementation
       (samples read after any call are compared bit for bit with the
       packet-level decode at the position reported before the read). */
#include "vcommon.h"
#include "vorbis/codec.h"
#include "vorbis/vorbisfile.h"
#include <math.h>
#include <signal.h>
#include <unistd.h>

#define MAXLINKS 64
typedef struct { int ch; long rate; long n; float **pcm; long serial; long bs0,bs1; } reflink;
static reflink ref[MAXLINKS]; static int nref;
static int ref_hs; static long g_linklen[MAXLINKS]; static int g_crossed;

static void ref_free(void){ for(int i=0;i<nref;i++){ for(int c=0;c<ref[i].ch;c++)free(ref[i].pcm[c]); free(ref[i].pcm); } nref=0; }

/* independent decode through libogg + the packet-level API; also prints the page table */
static void reference_decode(const unsigned char *b,long n,int hs,int print_pages){
  ogg_sync_state oy; ogg_stream_state os; ogg_page og; ogg_packet op; int have_os=0;
  vorbis_info vi; vorbis_comment vc; vorbis_dsp_state vd; vorbis_block vb; int hdr=0,decoding=0; long cap=0;
  long pos=0,off=0; nref=0; ref_hs=hs;
  ogg_sync_init(&oy);
  while(1){
    long r=ogg_sync_pageseek(&oy,&og);
    if(r<0){ off-=r; continue; }
    if(r==0){
      if(pos>=n)break;
      long k=n-pos>4096?4096:n-pos; char *buf=ogg_sync_buffer(&oy,k); memcpy(buf,b+pos,k); ogg_sync_wrote(&oy,k); pos+=k; continue;
    }
    long pgoff=off; off+=r;
    int serial=ogg_page_serialno(&og);
    if(ogg_page_bos(&og)){
      if(decoding){ vorbis_block_clear(&vb); vorbis_dsp_clear(&vd); decoding=0; }
      if(hdr||nref){ if(hdr>0&&hdr<3){ vorbis_comment_clear(&vc); vorbis_info_clear(&vi);} }
      if(have_os)ogg_stream_clear(&os);
      ogg_stream_init(&os,serial); have_os=1; hdr=0;
      vorbis_info_init(&vi); vorbis_comment_init(&vc);
    }
    if(print_pages)printf("pg %ld %ld %d %ld %d %d %d %d",pgoff,r,serial,(long)ogg_page_granulepos(&og),ogg_page_bos(&og)?1:0,ogg_page_eos(&og)?1:0,ogg_page_continued(&og)?1:0,ogg_page_packets(&og));
    if(have_os&&os.serialno==serial){
      ogg_stream_pagein(&os,&og);
      int pr;
      while((pr=ogg_stream_packetout(&os,&op))!=0){
        if(pr<0){ if(print_pages)printf(" hole"); continue; }
        if(hdr<3){
          int hr=vorbis_synthesis_headerin(&vi,&vc,&op);
          if(print_pages)printf(" h:%ld",(long)op.granulepos);
          if(hr){ hdr=-1; continue; }
          hdr++;
          if(hdr==3){
            if(hs)vorbis_synthesis_halfrate(&vi,1);
            if(vorbis_synthesis_init(&vd,&vi)==0){ vorbis_block_init(&vd,&vb); decoding=1;
              if(nref<MAXLINKS){ reflink *L=&ref[nref++]; L->ch=vi.channels; L->rate=vi.rate; L->n=0; L->serial=serial; cap=0;
                L->bs0=vorbis_info_blocksize(&vi,0); L->bs1=vorbis_info_blocksize(&vi,1);
                L->pcm=calloc(vi.channels,sizeof(float*)); } }
          }
          continue;
        }
        if(!decoding)continue;
        long bsz=vorbis_packet_blocksize(&vi,&op);
        if(print_pages)printf(" %s:%ld:%d",bsz<0?"x":(bsz==ref[nref-1].bs1&&ref[nref-1].bs1!=ref[nref-1].bs0)?"1":"0",(long)op.granulepos,op.e_o_s?1:0);
        if(vorbis_synthesis(&vb,&op)==0){
          vorbis_synthesis_blockin(&vd,&vb);
          float **pcm; int cnt=vorbis_synthesis_pcmout(&vd,&pcm);
          if(cnt>0){
            reflink *L=&ref[nref-1];
            if(L->n+cnt>cap){ cap=(L->n+cnt)*2+4096; for(int c=0;c<L->ch;c++)L->pcm[c]=realloc(L->pcm[c],cap*sizeof(float)); }
            for(int c=0;c<L->ch;c++)memcpy(L->pcm[c]+L->n,pcm[c],cnt*sizeof(float));
            L->n+=cnt; vorbis_synthesis_read(&vd,cnt);
          }
        }
      }
    }
    if(print_pages)printf("\n");
  }
  if(decoding){ vorbis_block_clear(&vb); vorbis_dsp_clear(&vd); }
  if(have_os){ ogg_stream_clear(&os); if(hdr!=0||1){ vorbis_comment_clear(&vc); vorbis_info_clear(&vi);} }
  ogg_sync_clear(&oy);
}

static void on_alarm(int s){ (void)s; const char m[]="\nprop terminates FAIL (watchdog)\n"; write(1,m,sizeof m-1); _exit(97); }

/* compare n samples just read (link lk, position pos in full-rate samples) with the reference */
static int compare(float **p,long n,int lk,long pos,int hs){
  if(lk<0||lk>=nref)return 0;
  long base=0; for(int i=0;i<lk;i++)base+=g_linklen[i];   /* full-rate link lengths as reported by the handle (checked by prop links) */
  long rel=pos-base;
  /* half-rate: a link of odd length ends one position past its length (ceil(N/2)
     samples advancing by two), so after reading across such a boundary the
     reported position can lead by one per odd link crossed until the next seek */
  if(hs&&g_crossed){ for(int e=0;e<=g_crossed&&e<=3;e++){ long r2=rel-e; if(r2>=0&&!(r2&1)){ long q=r2>>1; int ok=(q+n<=ref[lk].n);
        for(int c=0;ok&&c<ref[lk].ch;c++)if(memcmp(p[c],ref[lk].pcm[c]+q,n*sizeof(float)))ok=0; if(ok)return 1; } } return 0; }
  if(rel<0||(rel&((1<<hs)-1)))return 0;
  rel>>=hs;
  if(rel+n>ref[lk].n)return 0;
  for(int c=0;c<ref[lk].ch;c++)if(memcmp(p[c],ref[lk].pcm[c]+rel,n*sizeof(float)))return 0;
  return 1;
}

int main(int argc,char **argv){
  FILE *f=fopen(argv[1],"r"); char *line;
  if(!f)return 2;
  vc_watch_init(on_alarm);
  while((line=vc_getline(f))){
    char id[64]; int seekable,hs; long maxread,seed; char *hex;
    char *t=strtok(line," "); if(!t||strcmp(t,"case")){ free(line); continue; }
    strcpy(id,strtok(NULL," ")); seekable=atoi(strtok(NULL," ")); maxread=atol(strtok(NULL," "));
    seed=atol(strtok(NULL," ")); hs=atoi(strtok(NULL," ")); hex=strtok(NULL," ");
    long n; unsigned char *file=vc_unhex(hex,&n);
    printf("case %s\n",id); vc_rng_s=(uint64_t)seed;
    reference_decode(file,n,0,1);
    printf("ref %d",nref); for(int i=0;i<nref;i++)printf(" %ld:%d:%ld:%ld:%ld:%ld",ref[i].n,ref[i].ch,ref[i].rate,ref[i].serial,ref[i].bs0,ref[i].bs1); printf("\n");
    if(hs){ ref_free(); reference_decode(file,n,1,0); }
    vc_watch(60);
    memsrc ms={0}; ms.b=file; ms.n=n; ms.seekable=seekable; ms.maxread=maxread;
    OggVorbis_File vf; ov_callbacks cb={ms_read,seekable?ms_seek:NULL,ms_close,seekable?ms_tell:NULL};
    int orc=ov_open_callbacks(&ms,&vf,NULL,0,cb);
    printf("open %d closes %ld\n",orc,ms.closes);
    char *ops=vc_getline(f);
    if(orc){ free(ops); free(file); free(line); ref_free(); continue; }
    if(hs){ int r=ov_halfrate(&vf,1); printf("halfrate %d\n",r); if(r){ hs=0; ref_free(); reference_decode(file,n,0,0); } }
    /* link table */
    if(seekable){
      printf("links %ld total %ld",ov_streams(&vf),(long)ov_pcm_total(&vf,-1));
      for(int i=0;i<ov_streams(&vf);i++)printf(" %ld:%d:%ld:%ld:%ld:%ld",(long)ov_pcm_total(&vf,i),ov_info(&vf,i)->channels,ov_info(&vf,i)->rate,
                                            ov_serialnumber(&vf,i),(long)vf.offsets[i],(long)vf.dataoffsets[i]);
      printf("\n");
      int ok=(ov_streams(&vf)==nref);
      long hsN=0; for(int i=0;ok&&i<nref;i++){ long full=(long)ov_pcm_total(&vf,i); long expect=hs?((full+1)>>1):full;
        if(expect!=ref[i].n||ov_info(&vf,i)->channels!=ref[i].ch||ov_info(&vf,i)->rate!=ref[i].rate||ov_serialnumber(&vf,i)!=ref[i].serial)ok=0; hsN+=full; }
      printf("prop links %s\n",ok?"ok":"FAIL");
      for(int i=0;i<ov_streams(&vf)&&i<MAXLINKS;i++)g_linklen[i]=(long)ov_pcm_total(&vf,i);
      printf("tell0 %ld\n",(long)ov_pcm_tell(&vf));
    }
    int prevlink=-1; g_crossed=0; long holes=0; long srun[MAXLINKS]; memset(srun,0,sizeof srun);
    int lapfail=0; long lap_until=-1, lapspan=0; for(int i=0;i<nref;i++)if(ref[i].bs0/2>lapspan)lapspan=ref[i].bs0/2;   /* a lapped seek cross-fades at most half a short block */
    for(char *tk=strtok(ops," ");tk;tk=strtok(NULL," ")){
      if(!strcmp(tk,"ops"))continue;
      long rc=0; long cnt=-1; int lk=-1; int isseek=0;
      ogg_int64_t before=ov_pcm_tell(&vf);
      if(!strncmp(tk,"ps:",3)){ rc=ov_pcm_seek(&vf,atol(tk+3)); isseek=1; }
      else if(!strncmp(tk,"pp:",3)){ rc=ov_pcm_seek_page(&vf,atol(tk+3)); isseek=1; }
      else if(!strncmp(tk,"rs:",3)){ rc=ov_raw_seek(&vf,atol(tk+3)); isseek=1; }
      else if(!strncmp(tk,"ts:",3)){ double t=atof(tk+3); rc=ov_time_seek(&vf,t); isseek=1;
        if(rc==0){ /* within one sample of t*rate in the containing link */
          double tb=0; long pb=0; int li; for(li=0;li<ov_streams(&vf);li++){ double d=ov_time_total(&vf,li); if(t<tb+d)break; tb+=d; pb+=(long)ov_pcm_total(&vf,li); }
          if(li<ov_streams(&vf)){ double want=pb+(t-tb)*ov_info(&vf,li)->rate; double got=(double)ov_pcm_tell(&vf);
            if(fabs(got-want)>1.0+hs)printf("prop timeseek FAIL t=%.9g want=%.3f got=%.0f\n",t,want,got); } } }
      else if(!strncmp(tk,"tp:",3)){ rc=ov_time_seek_page(&vf,atof(tk+3)); isseek=1; }
      else if(!strncmp(tk,"pl:",3)){ rc=ov_pcm_seek_lap(&vf,atol(tk+3)); isseek=1; }
      else if(!strncmp(tk,"ql:",3)){ rc=ov_pcm_seek_page_lap(&vf,atol(tk+3)); isseek=1; }
      else if(!strncmp(tk,"rl:",3)){ rc=ov_raw_seek_lap(&vf,atol(tk+3)); isseek=1; }
      else if(!strncmp(tk,"tl:",3)){ rc=ov_time_seek_lap(&vf,atof(tk+3)); isseek=1; }
      else if(!strncmp(tk,"hr:",3)){ rc=ov_halfrate(&vf,atoi(tk+3)); if(rc==0){ int nh=atoi(tk+3)?1:0; if(nh!=ref_hs){ ref_free(); reference_decode(file,n,nh,0);} hs=nh; } }
      else if(!strncmp(tk,"rf:",3)||!strncmp(tk,"ri:",3)){
        float **p=NULL; int bs=-1; long want=atol(tk+3);
        if(tk[1]=='f'){ rc=ov_read_float(&vf,&p,(int)want,&bs); }
        else{ static char ib[65536]; rc=ov_read(&vf,ib,(int)(want>65536?65536:want),0,2,1,&bs); if(rc>0){ int ch=ov_info(&vf,bs)->channels; if(rc%(2*ch))printf("prop intframes FAIL bytes=%ld channels=%d link=%d\n",rc,ch,bs); rc/=2*ch; } p=NULL; }
        cnt=rc; lk=bs;
        if(rc==OV_HOLE||rc==OV_EBADLINK)holes++;
        if(rc>0){
          ogg_int64_t after=ov_pcm_tell(&vf);
          /* under half-rate an odd-length link ends one position past its length: allow that single step at a link change */
          { long d=(long)(after-before)-(rc<<hs);
            if(bs!=prevlink&&prevlink>=0&&hs)g_crossed+=(bs-prevlink>0?bs-prevlink:1);
            if(seekable&&!lapfail&&d!=0&&!(hs&&g_crossed&&d<0&&d>=-g_crossed))printf("prop advance FAIL before=%ld after=%ld n=%ld\n",(long)before,(long)after,rc);
            prevlink=bs; }
          if(p&&seekable&&!lapfail&&!((long)before<lap_until)&&!compare(p,rc,bs,(long)before,hs))printf("prop ident FAIL op=%s pos=%ld link=%d n=%ld\n",tk,(long)before,bs,rc);
          if(p&&!seekable){ /* streaming: no absolute positions; compare by the running count within the link */
            if(bs>=0&&bs<nref&&bs<MAXLINKS){
              int okc=(srun[bs]+rc<=ref[bs].n);
              for(int c=0;okc&&c<ref[bs].ch;c++)if(memcmp(p[c],ref[bs].pcm[c]+srun[bs],rc*sizeof(float)))okc=0;
              if(!okc)printf("prop ident FAIL op=%s streaming link=%d run=%ld n=%ld\n",tk,bs,srun[bs],rc);
              srun[bs]+=rc;
            }else printf("prop ident FAIL op=%s streaming link=%d out of range\n",tk,bs);
          }
        }
      }
      else if(!strcmp(tk,"tell")){ rc=0; }
      if(isseek&&rc==0){ g_crossed=0; prevlink=-1; }
      if(isseek&&rc==0){ lap_until=(tk[1]=='l')?(long)ov_pcm_tell(&vf)+lapspan:-1; }
      /* a lapped seek that gives up (end of the landing link while priming) has consumed pages on the way: what the handle
         does until the next successful seek is compared with the model only */
      if(isseek&&tk[1]=='l'&&rc!=0&&rc!=OV_EINVAL)lapfail=1; else if(isseek&&rc==0)lapfail=0;
      if(!strncmp(tk,"hr:",3)){ g_crossed=0; prevlink=-1; }
      printf("op %s | %ld tell %ld raw %ld time %.9g rs %d cl %d link %d\n",tk,rc,(long)ov_pcm_tell(&vf),(long)ov_raw_tell(&vf),
             (vf.ready_state>=2&&vf.pcm_offset>=0)?ov_time_tell(&vf):-1.0,vf.ready_state,vf.current_link,lk);
      (void)isseek;
    }
    if(!seekable){ int okc=1; for(int i=0;i<nref;i++)if(srun[i]!=0&&0)okc=0; (void)okc; printf("srun"); for(int i=0;i<nref&&i<MAXLINKS;i++)printf(" %ld",srun[i]); printf("\n"); }
    printf("holes %ld closes_before_clear %ld\n",holes,ms.closes);
    ov_clear(&vf);
    printf("closes %ld\n",ms.closes);
    vc_watch(0);
    free(ops); free(file); free(line); ref_free();
  }
  return 0;
}
