/* C04 correspondence harness.  Runs the real encoder on the configurations
   and chunkings of the case file, with _ve_envelope_search wrapped by the
   linker so that each result is logged; prints every buffer/wrote/blockout
   step with the observable state (public vorbis_dsp_state fields), every
   packet, and the real decoder's per-packet state and pcmout counts.  The
   model driver replays the same ops with the same oracle values and must
   reproduce every number.  `prop` lines evaluate the property directly. */
#include "vcommon.h"
#include "vorbis/codec.h"
#include "vorbis/vorbisenc.h"
#include "vorbis/vorbisfile.h"
#include "codec_internal.h"
#include <math.h>

static long last_bp; static int bp_called;
long __real__ve_envelope_search(vorbis_dsp_state *v);
long __wrap__ve_envelope_search(vorbis_dsp_state *v){
  last_bp=__real__ve_envelope_search(v); bp_called=1; return last_bp;
}

static void fill(float **buf,int ch,long n,int kind,long pos){
  for(int c=0;c<ch;c++)for(long i=0;i<n;i++){
    double t=(double)(pos+i); float x=0;
    switch(kind){
    case 0: x=0; break;
    case 1: x=(float)((double)(vc_rng()>>11)/9007199254740992.0*2-1)*0.5f; break;
    case 2: x=(float)(0.6*sin(t*0.05*(c+1))); break;
    case 3: x=((pos+i)%3000==(c*17)%3000)?0.9f:0.0f; break;                /* clicks */
    case 4: x=(((pos+i)/4096)&1)?(float)((double)(vc_rng()>>11)/9007199254740992.0-0.5):0.f; break; /* bursts */
    case 5: x=0.25f; break;                                                 /* DC */
    case 6: x=(float)((double)(vc_rng()>>11)/9007199254740992.0*8-4); break; /* beyond +-1 */
    }
    buf[c][i]=x;
  }
}

static void est(const char *tag,vorbis_dsp_state *v){
  printf("%s %ld %d %d %ld %ld %ld %ld %ld %ld\n",tag,(long)v->centerW,v->pcm_current,v->pcm_storage,
         (long)v->eofflag,(long)v->granulepos,(long)v->sequence,v->lW,v->W,v->nW);
}

int main(int argc,char **argv){
  FILE *f=fopen(argv[1],"r"); char *line;
  if(!f)return 2;
  while((line=vc_getline(f))){
    int ch,kind,managed,fast=0; long rate,a,b,c; double q; char id[64]; long seed;
    long chunks[4096]; int nch=0;
    if(sscanf(line,"case %63s %d %ld %d %lf %ld %ld %ld %d %ld %d",id,&ch,&rate,&managed,&q,&a,&b,&c,&kind,&seed,&fast)<10){ free(line); continue; }
    free(line);
    line=vc_getline(f);               /* chunks n1 n2 ... */
    { char *p=strtok(line," "); while((p=strtok(NULL," "))&&nch<4096)chunks[nch++]=atol(p); }
    free(line);
    vc_rng_s=(uint64_t)seed;
    printf("case %s\n",id);
    vorbis_info vi; vorbis_comment vc; vorbis_dsp_state vd; vorbis_block vb;
    vorbis_info_init(&vi);
    int r=managed?vorbis_encode_init(&vi,ch,rate,a,b,c):vorbis_encode_init_vbr(&vi,ch,rate,(float)q);
    if(r){ printf("setup %s\n",vc_errname(r)); vorbis_info_clear(&vi); continue; }
    vorbis_comment_init(&vc); vorbis_analysis_init(&vd,&vi); vorbis_block_init(&vd,&vb);
    codec_setup_info *ci=vi.codec_setup;
    printf("cfg %ld %ld\n",ci->blocksizes[0],ci->blocksizes[1]);
    ogg_packet hdr[3]; vorbis_analysis_headerout(&vd,&vc,&hdr[0],&hdr[1],&hdr[2]);
    ogg_stream_state os; ogg_stream_init(&os,(int)(seed&0x7fffffff)); vbuf out={0};
    ogg_page og;
    for(int i=0;i<3;i++)ogg_stream_packetin(&os,&hdr[i]);
    while(ogg_stream_flush(&os,&og)){ vbuf_add(&out,og.header,og.header_len); vbuf_add(&out,og.body,og.body_len); }
    /* decoder fed packet by packet */
    vorbis_info dvi; vorbis_comment dvc; vorbis_dsp_state dvd; vorbis_block dvb;
    vorbis_info_init(&dvi); vorbis_comment_init(&dvc);
    for(int i=0;i<3;i++){ hdr[i].b_o_s=(i==0); if(vorbis_synthesis_headerin(&dvi,&dvc,&hdr[i])){printf("prop headers FAIL\n");} }
    vorbis_synthesis_init(&dvd,&dvi); vorbis_block_init(&dvd,&dvb);
    est("E0",&vd);
    long N=0,total=0,lastg=-1,npk=0,pos=0; int mono=1,lasteos=0;
    for(int k=0;k<=nch;k++){
      /* end of input: wrote(0); lib/block.c documents "call with val<=0 to set eof", so every fifth case signals it with -1 */
      long n=(k<nch)?chunks[k]:((seed%5==0)?-1:0);
      if(n>0){
        float **buf=vorbis_analysis_buffer(&vd,(int)n);
        printf("B %ld | %d %d\n",n,vd.pcm_current,vd.pcm_storage);
        fill(buf,ch,n,kind,pos); pos+=n; N+=n;
      }
      int rc=vorbis_analysis_wrote(&vd,(int)n);
      printf("W %ld | %d ",n,rc); est("",&vd);
      for(;;){
        bp_called=0;
        int ret=vorbis_analysis_blockout(&vd,&vb);
        if(bp_called)printf("O %ld | %d ",last_bp,ret); else printf("O x | %d ",ret);
        if(ret==1)printf("%ld %ld %ld %ld %ld %d ; ",vb.lW,vb.W,vb.nW,(long)vb.sequence,(long)vb.granulepos,vb.eofflag);
        est("",&vd);
        if(ret!=1)break;
        ogg_packet op; int got=0;
        if(fast){
          /* automaton-only sweep: no analysis, the decoder gets a synthetic block
             carrying exactly what a packet conveys (W, granulepos, sequence, eos) */
          static float zeros[8192]; float *zp[256]; int W=(int)vb.W;
          for(int i=0;i<ch&&i<256;i++)zp[i]=zeros;
          printf("P %d %ld %ld %ld\n",W,(long)vb.granulepos,(long)vb.sequence,(long)vb.eofflag);
          if(vb.granulepos<lastg)mono=0; lastg=vb.granulepos; lasteos=vb.eofflag; npk++;
          vorbis_block sb; memset(&sb,0,sizeof sb); sb.pcm=zp; sb.W=W; sb.granulepos=vb.granulepos;
          sb.sequence=vb.sequence; sb.eofflag=vb.eofflag; sb.vd=&dvd;
          int br=vorbis_synthesis_blockin(&dvd,&sb);
          float **pcm; int cnt=vorbis_synthesis_pcmout(&dvd,&pcm);
          printf("D 0 %d | %d ; %ld %d %d %ld %ld %ld %ld %ld\n",br,cnt,(long)dvd.centerW,dvd.pcm_current,dvd.pcm_returned,
                 (long)dvd.granulepos,(long)dvd.sequence,dvd.lW,dvd.W,(long)((private_state*)dvd.backend_state)->sample_count);
          vorbis_synthesis_read(&dvd,cnt); total+=cnt;
          continue;
        }
        if(managed){
          vorbis_analysis(&vb,NULL); vorbis_bitrate_addblock(&vb);
          while(vorbis_bitrate_flushpacket(&vd,&op)){
            got++;
            goto havepacket; backhere: ;
          }
        }else{
          if(vorbis_analysis(&vb,&op)){ printf("prop analysis FAIL\n"); break; }
          got=-1; goto havepacket; backhere2: ;
        }
        continue;
      havepacket:
        {
          long bsz=vorbis_packet_blocksize(&dvi,&op); int W=(bsz==ci->blocksizes[1]&&ci->blocksizes[0]!=ci->blocksizes[1]);
          if(ci->blocksizes[0]==ci->blocksizes[1]){ /* flag from the mode bit */
            oggpack_buffer ob; oggpack_readinit(&ob,op.packet,op.bytes); oggpack_read(&ob,1);
            int mode=oggpack_read(&ob,ov_ilog(ci->modes-1)); W=ci->mode_param[mode]->blockflag;
          }
          printf("P %d %ld %ld %ld\n",W,(long)op.granulepos,(long)op.packetno,(long)op.e_o_s);
          if(op.granulepos<lastg)mono=0; lastg=op.granulepos; lasteos=op.e_o_s; npk++;
          ogg_stream_packetin(&os,&op);
          while(ogg_stream_pageout(&os,&og)){ vbuf_add(&out,og.header,og.header_len); vbuf_add(&out,og.body,og.body_len); }
          int sr=vorbis_synthesis(&dvb,&op); int br=sr?-999:vorbis_synthesis_blockin(&dvd,&dvb);
          float **pcm; int cnt=vorbis_synthesis_pcmout(&dvd,&pcm);
          printf("D %d %d | %d ; %ld %d %d %ld %ld %ld %ld %ld\n",sr,br,cnt,(long)dvd.centerW,dvd.pcm_current,dvd.pcm_returned,
                 (long)dvd.granulepos,(long)dvd.sequence,dvd.lW,dvd.W,(long)((private_state*)dvd.backend_state)->sample_count);
          vorbis_synthesis_read(&dvd,cnt); total+=cnt;
        }
        if(got>0)goto backhere; else if(got<0)goto backhere2;
      }
    }
    while(ogg_stream_flush(&os,&og)){ vbuf_add(&out,og.header,og.header_len); vbuf_add(&out,og.body,og.body_len); }
    printf("T %ld %ld\n",N,total);
    printf("prop count %s\n",total==N?"ok":"FAIL");
    printf("prop monotone %s\n",mono?"ok":"FAIL");
    printf("prop last %s\n",(npk>0&&lastg==N&&lasteos)?"ok":"FAIL");
    if(!fast){ /* vorbisfile total, and a full read through it */
      memsrc ms={0}; ms.b=out.b; ms.n=out.n; ms.seekable=1;
      OggVorbis_File vf; ov_callbacks cb={ms_read,ms_seek,ms_close,ms_tell};
      int orc=ov_open_callbacks(&ms,&vf,NULL,0,cb);
      if(orc){ printf("prop vftotal FAIL open=%d\n",orc); }
      else{
        long tot=(long)ov_pcm_total(&vf,-1), got2=0, first=(long)ov_pcm_tell(&vf); float **p; int bs;
        for(;;){ long rr=ov_read_float(&vf,&p,4096,&bs); if(rr<=0)break; got2+=rr; }
        printf("prop vftotal %s\n",(tot==N&&got2==N&&first==0)?"ok":"FAIL");
        ov_clear(&vf);
      }
    }
    free(out.b); ogg_stream_clear(&os);
    vorbis_block_clear(&dvb); vorbis_dsp_clear(&dvd); vorbis_comment_clear(&dvc); vorbis_info_clear(&dvi);
    vorbis_block_clear(&vb); vorbis_dsp_clear(&vd); vorbis_comment_clear(&vc); vorbis_info_clear(&vi);
  }
  return 0;
}
