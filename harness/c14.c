/* C14 correspondence harness for lib/bitrate.c.
   enc <id> <ch> <rate> <max> <nom> <min> <reservoir> <bias1000> <N> <signal> <seed>
       real managed encode; every vorbis_bitrate_addblock is logged with the
       PACKETBLOBS candidate sizes, the block flag, the choice the average
       floater arrives at (recomputed here exactly as the library does, from
       the manager's state before the call) and the results.
   syn <id> <ch> <rate> <max> <nom> <min> <reservoir> <bias1000> <seed> <nblocks> <style>
       synthetic candidate sizes pushed through the real function.
   The model driver replays the log; `prop` lines evaluate the property. */
#include "vcommon.h"
#include "vorbis/codec.h"
#include "vorbis/vorbisenc.h"
#include "codec_internal.h"
#include <math.h>

static int setup(vorbis_info *vi,int ch,long rate,long mx,long nom,long mn,long res,int bias1000){
  vorbis_info_init(vi);
  int r=vorbis_encode_setup_managed(vi,ch,rate,mx,nom,mn);
  if(r)return r;
  struct ovectl_ratemanage2_arg ai;
  vorbis_encode_ctl(vi,OV_ECTL_RATEMANAGE2_GET,&ai);
  if(res>=0)ai.bitrate_limit_reservoir_bits=res;
  if(bias1000>=0)ai.bitrate_limit_reservoir_bias=bias1000/1000.0;
  r=vorbis_encode_ctl(vi,OV_ECTL_RATEMANAGE2_SET,&ai);
  if(r)return r;
  return vorbis_encode_setup_init(vi);
}
/* the floater stage of vorbis_bitrate_addblock, verbatim, on a copy of the state */
static int floater_choice(vorbis_block *vb,bitrate_manager_state *bm,bitrate_manager_info *bi,vorbis_info *vi,long *sizes,int samples,long desired_fill,double *avgfloat_out){
  int choice=rint(bm->avgfloat); long this_bits=sizes[choice]*8; double avgfloat=bm->avgfloat;
  if(bm->avg_bitsper>0){
    double slew=0.;
    long avg_target_bits=(vb->W?bm->avg_bitsper*bm->short_per_long:bm->avg_bitsper);
    double slewlimit= 15./bi->slew_damp;
    if(bm->avg_reservoir+(this_bits-avg_target_bits)>desired_fill){
      while(choice>0 && this_bits>avg_target_bits && bm->avg_reservoir+(this_bits-avg_target_bits)>desired_fill){ choice--; this_bits=sizes[choice]*8; }
    }else if(bm->avg_reservoir+(this_bits-avg_target_bits)<desired_fill){
      while(choice+1<PACKETBLOBS && this_bits<avg_target_bits && bm->avg_reservoir+(this_bits-avg_target_bits)<desired_fill){ choice++; this_bits=sizes[choice]*8; }
    }
    slew=rint(choice-avgfloat)/samples*vi->rate;
    if(slew<-slewlimit)slew=-slewlimit;
    if(slew>slewlimit)slew=slewlimit;
    choice=rint(avgfloat+= slew/vi->rate*samples);
  }
  *avgfloat_out=avgfloat; return choice;
}
static void logcfg(vorbis_info *vi,vorbis_dsp_state *vd){
  codec_setup_info *ci=vi->codec_setup; bitrate_manager_state *bm=&((private_state*)vd->backend_state)->bms; bitrate_manager_info *bi=&ci->bi;
  printf("cfg %ld %ld %ld %ld %ld %ld %ld %ld %ld %ld %ld\n",bm->min_bitsper,bm->max_bitsper,bm->short_per_long,bi->reservoir_bits,(long)(bi->reservoir_bits*bi->reservoir_bias),
         bm->minmax_reservoir,ci->blocksizes[0],ci->blocksizes[1],vi->rate,bi->max_rate,bi->min_rate);
}
static void add_and_log(vorbis_block *vb,vorbis_dsp_state *vd,vorbis_info *vi,long *bits_out,int *W_out){
  codec_setup_info *ci=vi->codec_setup; private_state *b=vd->backend_state; bitrate_manager_state *bm=&b->bms; bitrate_manager_info *bi=&ci->bi;
  vorbis_block_internal *vbi=vb->internal; long sizes[PACKETBLOBS]; for(int i=0;i<PACKETBLOBS;i++)sizes[i]=oggpack_bytes(vbi->packetblob[i]);
  double af; int c0=floater_choice(vb,bm,bi,vi,sizes,ci->blocksizes[vb->W]>>1,(long)(bi->reservoir_bits*bi->reservoir_bias),&af);
  printf("K %ld %d",vb->W,c0); for(int i=0;i<PACKETBLOBS;i++)printf(" %ld",sizes[i]);
  vorbis_bitrate_addblock(vb);
  ogg_packet op; long bytes=-1; if(vorbis_bitrate_flushpacket(vd,&op))bytes=op.bytes;
  printf(" | %d %ld %ld\n",bm->choice,bytes*8,bm->minmax_reservoir);
  *bits_out=bytes*8; *W_out=(int)vb->W;
}
/* property oracle over the logged run: every contiguous window */
static void windows(long *bits,int *W,long n,long maxrate,long minrate,long rate,long bs0,long bs1,long res,long maxbitsper,long minbitsper,long spl){
  /* exact arithmetic in units of bits*rate: excess_k = sum(bits)*rate - maxrate*samples */
  long double best=0,run=0,bestmin=0,runmin=0,bestm=0,runm=0,bestmm=0,runmm=0;
  for(long k=0;k<n;k++){
    long half=(W[k]?bs1:bs0)>>1;
    long double d=(long double)bits[k]-(long double)maxrate*half/rate;
    long double dm=(long double)minrate*half/rate-(long double)bits[k];
    run=(run>0?run:0)+d; if(run>best)best=run;
    runmin=(runmin>0?runmin:0)+dm; if(runmin>bestmin)bestmin=runmin;
    /* against the per-block integer targets the code maintains (the proved bound) */
    long double e=(long double)bits[k]-(long double)(W[k]?maxbitsper*spl:maxbitsper);
    long double em=(long double)(W[k]?minbitsper*spl:minbitsper)-(long double)bits[k];
    runm=(runm>0?runm:0)+e; if(runm>bestm)bestm=runm;
    runmm=(runmm>0?runmm:0)+em; if(runmm>bestmm)bestmm=runmm;
  }
  if(maxbitsper>0){
    printf("W max literal_excess %.1Lf target_excess %.1Lf reservoir %ld\n",best,bestm,res);
    if(bestm>res)printf("prop maxbound FAIL excess over the per-block targets %.1Lf > reservoir %ld\n",bestm,res);
    else if(best>res)printf("known rint-drift literal excess %.1Lf > reservoir %ld (per-block target rounding)\n",best,res);
  }
  if(minbitsper>0){
    printf("W min literal_short %.1Lf target_short %.1Lf reservoir %ld\n",bestmin,bestmm,res);
    if(bestmm>res)printf("prop minbound FAIL shortfall against the per-block targets %.1Lf > reservoir %ld\n",bestmm,res);
    else if(bestmin>res)printf("known rint-drift literal shortfall %.1Lf > reservoir %ld (per-block target rounding)\n",bestmin,res);
  }
}
static void fill(float **buf,int ch,long n,int kind,long pos){
  for(int c=0;c<ch;c++)for(long i=0;i<n;i++){
    double t=(double)(pos+i); float x=0;
    switch(kind){ case 0: x=0; break; case 1: x=(float)((double)(vc_rng()>>11)/9007199254740992.0*2-1)*0.7f; break;
      case 2: x=(float)(0.6*sin(t*0.05*(c+1))); break; case 3: x=((pos+i)%3000==(c*17)%3000)?0.9f:0.0f; break;
      default: x=(((pos+i)/8192)&1)?(float)((double)(vc_rng()>>11)/9007199254740992.0-0.5):0.f; break; }
    buf[c][i]=x; }
}
int main(int argc,char **argv){
  FILE *f=fopen(argv[1],"r"); char *line; if(!f)return 2;
  static long bits[400000]; static int Ws[400000];
  while((line=vc_getline(f))){
    char kind[8],id[64]; int ch,bias,sig=0,style=0; long rate,mx,nom,mn,res,N=0,seed,nblocks=0;
    int isenc=!strncmp(line,"enc ",4), issyn=!strncmp(line,"syn ",4);
    if(isenc)sscanf(line,"%7s %63s %d %ld %ld %ld %ld %ld %d %ld %d %ld",kind,id,&ch,&rate,&mx,&nom,&mn,&res,&bias,&N,&sig,&seed);
    else if(issyn)sscanf(line,"%7s %63s %d %ld %ld %ld %ld %ld %d %ld %ld %d",kind,id,&ch,&rate,&mx,&nom,&mn,&res,&bias,&seed,&nblocks,&style);
    else { free(line); continue; }
    free(line); printf("case %s\n",id); vc_rng_s=(uint64_t)seed;
    vorbis_info vi; int r=setup(&vi,ch,rate,mx,nom,mn,res,bias);
    if(r){ printf("setup %s\n",vc_errname(r)); vorbis_info_clear(&vi); continue; }
    vorbis_dsp_state vd; vorbis_block vb; vorbis_analysis_init(&vd,&vi); vorbis_block_init(&vd,&vb);
    codec_setup_info *ci=vi.codec_setup; bitrate_manager_state *bm=&((private_state*)vd.backend_state)->bms; bitrate_manager_info *bi=&ci->bi;
    logcfg(&vi,&vd); long n=0;
    if(isenc){
      long pos=0;
      for(;;){
        long k=(N-pos>1024)?1024:(N-pos);
        if(k>0){ float **b=vorbis_analysis_buffer(&vd,(int)k); fill(b,ch,k,sig,pos); pos+=k; }
        vorbis_analysis_wrote(&vd,(int)k);
        while(vorbis_analysis_blockout(&vd,&vb)==1){ vorbis_analysis(&vb,NULL); if(n<400000){ add_and_log(&vb,&vd,&vi,&bits[n],&Ws[n]); n++; } }
        if(k<=0)break;
      }
    }else{
      vorbis_block_internal *vbi=vb.internal; vb.vd=&vd;
      long maxT=bm->max_bitsper, minT=bm->min_bitsper;
      for(long k=0;k<nblocks&&n<400000;k++){
        vb.W=(style==3)?1:(style==4?0:(long)(vc_rng()&1));
        long T=((vb.W?bm->short_per_long:1)*(maxT>0?maxT:(minT>0?minT:200)))/8+1;
        long base;
        switch(style){ case 0: base=(long)(vc_rng()%(2*T+1)); break;           /* around the target */
          case 1: base=(long)(vc_rng()%(8*T+4)); break;                        /* far above: truncation */
          case 2: base=(long)(vc_rng()%3); break;                              /* tiny: padding */
          case 5: base=((k/40)&1)?(long)(vc_rng()%(6*T)):(long)(vc_rng()%4); break; /* bursts */
          default: base=T+(long)(vc_rng()%3)-1; break; }                       /* right at the target */
        for(int i=0;i<PACKETBLOBS;i++){
          long sz=base+((style==1||style==5)?(long)(vc_rng()%(T+1)):(long)(vc_rng()%5))*(i>=7?(i-6):0)/ (i>=7?1:1) - ((i<7)?(long)((7-i)*(vc_rng()%3)):0);
          if(sz<0)sz=0; if(sz>60000)sz=60000;
          oggpack_reset(vbi->packetblob[i]); for(long q=0;q<sz;q++)oggpack_write(vbi->packetblob[i],0xaa,8);
        }
        add_and_log(&vb,&vd,&vi,&bits[n],&Ws[n]); n++;
      }
    }
    windows(bits,Ws,n,bi->max_rate,bi->min_rate,vi.rate,ci->blocksizes[0],ci->blocksizes[1],bi->reservoir_bits,bm->max_bitsper,bm->min_bitsper,bm->short_per_long);
    printf("S blocks=%ld\n",n);
    vorbis_block_clear(&vb); vorbis_dsp_clear(&vd); vorbis_info_clear(&vi);
  }
  return 0;
}
