/* C18 harness: independent instances under real threads, and reproducibility.
   usage: c18 <seed> <njobs> <rounds> <maxthreads> <scale>
   Jobs (encoder / packet decoder / vorbisfile handle) share no codec object;
   inputs (encoded streams) are shared read-only.  Every job folds everything it
   observes (bytes, samples, return codes, positions) into a 64-bit hash.
   1. all jobs solo, twice (the second pass sees a heap full of freed data)
   2. rounds: 2..maxthreads threads, jobs dealt round-robin, random yields
      between API calls; one round runs the same jobs in every thread at once
   `job` lines carry the solo hashes (compared across heap-fill patterns and
   builds by vlib/c18.py); `prop` lines evaluate the property. */
#include "vcommon.h"
#include "vorbis/codec.h"
#include "vorbis/vorbisenc.h"
#include "vorbis/vorbisfile.h"
#include <pthread.h>
#include <sched.h>
#include <unistd.h>
#include <fenv.h>
#include <math.h>

typedef struct { uint64_t s; } lrng;
static uint64_t lr(lrng *r){ uint64_t z=(r->s+=0x9E3779B97F4A7C15ULL); z=(z^(z>>30))*0xBF58476D1CE4E5B9ULL; z=(z^(z>>27))*0x94D049BB133111EBULL; return z^(z>>31); }
static int g_yield=0;
/* VERIF_STACKPAINT=<byte>: between library calls the stack below the caller is filled with that byte, so that whatever the
   library leaves uninitialised in its automatic arrays (alloca included) holds it: outputs must not depend on the byte */
static int g_paint=-1;
static void __attribute__((noinline)) paint_stack(int byte){ volatile unsigned char buf[196608]; memset((void*)buf,byte,sizeof buf); __asm__ volatile("" :: "r"(buf) : "memory"); }
static void yieldpt(lrng *r){ if(g_paint>=0)paint_stack(g_paint); if(!g_yield)return; uint64_t x=lr(r); if((x&7)==0)sched_yield(); else if((x&255)==1)usleep(30); }
#define H(h,p,n) do{ const unsigned char *_b=(const unsigned char*)(p); for(long _i=0;_i<(long)(n);_i++){ (h)^=_b[_i]; (h)*=0x100000001b3ULL; } }while(0)
#define HV(h,v) do{ long long _v=(long long)(v); H(h,&_v,8); }while(0)

typedef struct { int ch; long rate; int managed; float q; long mx,nom,mn; } ecfg;
static const ecfg CFG[]={ {1,8000,0,0.1f,0,0,0},{2,44100,0,0.4f,0,0,0},{2,48000,1,0,-1,128000,-1},{6,44100,0,0.3f,0,0,0},
  {1,22050,0,0.9f,0,0,0},{2,32000,1,0,96000,64000,48000},{3,16000,0,0.5f,0,0,0},{2,44100,0,-0.1f,0,0,0},
  /* rates whose spectrum extends beyond the built-in threshold-of-hearing and other per-band tables */
  {2,96000,0,0.5f,0,0,0},{1,64000,0,0.3f,0,0,0},{1,192000,0,0.2f,0,0,0} };
#define NCFG ((int)(sizeof CFG/sizeof CFG[0]))

typedef struct { int kind,cfg,sig; long n; uint64_t seed; const vbuf *in; uint64_t hash; vbuf *out; } job;

static void fillsig(float **b,int ch,long k,int sig,long pos,lrng *r){
  for(int c=0;c<ch;c++)for(long i=0;i<k;i++){ double t=(double)(pos+i); float x;
    switch(sig){ case 0: x=(float)((double)(lr(r)>>11)/9007199254740992.0*2-1)*0.6f; break;
      case 1: x=(float)(0.5*sin(t*0.03*(c+1))+0.2*sin(t*0.41)); break;
      case 2: x=((pos+i)%700==(c*31)%700)?0.95f:0.f; break;
      case 3: x=(((pos+i)/3000)&1)?(float)((double)(lr(r)>>11)/9007199254740992.0-0.5):0.f; break;
      /* near-silent lead-in and stretches (-140 dBFS): the analysis paths that give up on an almost empty window */
      default: x=(((pos+i)/5000)&1)?(float)(0.4*sin(t*0.05*(c+1))):(float)((double)(lr(r)>>11)/9007199254740992.0-0.5)*2e-7f; break; }
    b[c][i]=x; }
}
/* encoder: signal -> Ogg pages; hash of every byte */
static uint64_t job_enc(job *j){
  uint64_t h=0xcbf29ce484222325ULL; lrng r={j->seed}, y={j->seed^0x55}; const ecfg *c=&CFG[j->cfg];
  vorbis_info vi; vorbis_comment vc; vorbis_dsp_state vd; vorbis_block vb; ogg_stream_state os; ogg_page og; ogg_packet op,h0,h1,h2;
  vorbis_info_init(&vi);
  int rc=c->managed?vorbis_encode_init(&vi,c->ch,c->rate,c->mx,c->nom,c->mn):vorbis_encode_init_vbr(&vi,c->ch,c->rate,c->q);
  HV(h,rc); if(rc){ vorbis_info_clear(&vi); return h; }
  yieldpt(&y);
  vorbis_comment_init(&vc); vorbis_comment_add_tag(&vc,"TITLE","c18");
  vorbis_analysis_init(&vd,&vi); vorbis_block_init(&vd,&vb); ogg_stream_init(&os,(int)(j->seed&0x7fffffff));
  vorbis_analysis_headerout(&vd,&vc,&h0,&h1,&h2); ogg_stream_packetin(&os,&h0); ogg_stream_packetin(&os,&h1); ogg_stream_packetin(&os,&h2);
  while(ogg_stream_flush(&os,&og)){ H(h,og.header,og.header_len); H(h,og.body,og.body_len); if(j->out){ vbuf_add(j->out,og.header,og.header_len); vbuf_add(j->out,og.body,og.body_len); } }
  long pos=0; int eos=0;
  while(!eos){
    long k=j->n-pos; if(k>1024)k=1024;
    if(k>0){ float **b=vorbis_analysis_buffer(&vd,(int)k); fillsig(b,c->ch,k,j->sig,pos,&r); pos+=k; }
    vorbis_analysis_wrote(&vd,(int)(k>0?k:0)); yieldpt(&y);
    while(vorbis_analysis_blockout(&vd,&vb)==1){
      vorbis_analysis(&vb,NULL); yieldpt(&y); vorbis_bitrate_addblock(&vb);
      while(vorbis_bitrate_flushpacket(&vd,&op)){
        ogg_stream_packetin(&os,&op);
        while(!eos&&ogg_stream_pageout(&os,&og)){ H(h,og.header,og.header_len); H(h,og.body,og.body_len);
          if(j->out){ vbuf_add(j->out,og.header,og.header_len); vbuf_add(j->out,og.body,og.body_len); }
          if(ogg_page_eos(&og))eos=1; }
      }
    }
    if(k<=0&&!eos){ while(ogg_stream_flush(&os,&og)){ H(h,og.header,og.header_len); H(h,og.body,og.body_len); if(j->out){ vbuf_add(j->out,og.header,og.header_len); vbuf_add(j->out,og.body,og.body_len); } } eos=1; }
  }
  ogg_stream_clear(&os); vorbis_block_clear(&vb); vorbis_dsp_clear(&vd); vorbis_comment_clear(&vc); vorbis_info_clear(&vi);
  return h;
}
/* packet-level decoder over a shared read-only stream */
static uint64_t job_dec(job *j){
  uint64_t h=0xcbf29ce484222325ULL; lrng y={j->seed^0xaa};
  ogg_sync_state oy; ogg_stream_state os; ogg_page og; ogg_packet op; vorbis_info vi; vorbis_comment vc; vorbis_dsp_state vd; vorbis_block vb;
  int have_os=0,hdr=0,inited=0; long off=0;
  ogg_sync_init(&oy); vorbis_info_init(&vi); vorbis_comment_init(&vc);
  for(;;){
    int pr=ogg_sync_pageout(&oy,&og);
    if(pr==0){ long k=j->in->n-off; if(k<=0)break; if(k>(long)(1+j->seed%4000))k=1+j->seed%4000; char *b=ogg_sync_buffer(&oy,k); memcpy(b,j->in->b+off,k); off+=k; ogg_sync_wrote(&oy,k); continue; }
    if(pr<0)continue;
    if(!have_os){ ogg_stream_init(&os,ogg_page_serialno(&og)); have_os=1; }
    ogg_stream_pagein(&os,&og);
    while(ogg_stream_packetout(&os,&op)==1){
      if(hdr<3){ int rc=vorbis_synthesis_headerin(&vi,&vc,&op); HV(h,rc); hdr++; if(hdr==3){ HV(h,vorbis_synthesis_init(&vd,&vi)); vorbis_block_init(&vd,&vb); inited=1; } continue; }
      int rc=vorbis_synthesis(&vb,&op); HV(h,rc); yieldpt(&y);
      if(rc==0){ HV(h,vorbis_synthesis_blockin(&vd,&vb)); }
      float **pcm; int s;
      while((s=vorbis_synthesis_pcmout(&vd,&pcm))>0){ HV(h,s); for(int c=0;c<vi.channels;c++)H(h,pcm[c],s*4); vorbis_synthesis_read(&vd,s); }
      HV(h,vd.granulepos);
    }
  }
  if(inited){ vorbis_block_clear(&vb); vorbis_dsp_clear(&vd); }
  if(have_os)ogg_stream_clear(&os);
  vorbis_comment_clear(&vc); vorbis_info_clear(&vi); ogg_sync_clear(&oy);
  return h;
}
/* vorbisfile handle: reads in both formats, every kind of seek */
static uint64_t job_vf(job *j){
  uint64_t h=0xcbf29ce484222325ULL; lrng r={j->seed}, y={j->seed^0x33};
  memsrc m; memset(&m,0,sizeof m); m.b=j->in->b; m.n=j->in->n; m.seekable=1; m.maxread=(long)(j->seed%3?0:977);
  ov_callbacks cb={ms_read,ms_seek,ms_close,ms_tell}; OggVorbis_File vf;
  int rc=ov_open_callbacks(&m,&vf,NULL,0,cb); HV(h,rc); if(rc)return h;
  ogg_int64_t total=ov_pcm_total(&vf,-1); HV(h,total); HV(h,ov_streams(&vf)); HV(h,ov_raw_total(&vf,-1));
  double tt=ov_time_total(&vf,-1); H(h,&tt,8);
  char buf[4096]; int bs;
  for(long k=0;k<j->n;k++){
    yieldpt(&y); bs=-1;       /* ov_read leaves *bitstream alone when it delivers nothing */
    switch(lr(&r)%8){
    case 0: case 1: { long g=ov_read(&vf,buf,(int)(1+lr(&r)%4096),0,2,1,&bs); HV(h,g); if(g>0)H(h,buf,g); HV(h,bs); break; }
    case 2: { float **pcm; long g=ov_read_float(&vf,&pcm,(int)(1+lr(&r)%2048),&bs); HV(h,g); if(g>0){ vorbis_info *vi=ov_info(&vf,-1); for(int c=0;c<vi->channels;c++)H(h,pcm[c],g*4); } break; }
    case 3: HV(h,ov_pcm_seek(&vf,(ogg_int64_t)(lr(&r)%(uint64_t)(total+1)))); break;
    case 4: HV(h,ov_pcm_seek_page(&vf,(ogg_int64_t)(lr(&r)%(uint64_t)(total+1)))); break;
    case 5: HV(h,ov_raw_seek(&vf,(ogg_int64_t)(lr(&r)%(uint64_t)(m.n+1)))); break;
    case 6: HV(h,ov_time_seek(&vf,(double)(lr(&r)%1000)/1000.0*tt)); break;
    default: HV(h,ov_pcm_seek_lap(&vf,(ogg_int64_t)(lr(&r)%(uint64_t)(total+1)))); { long g=ov_read(&vf,buf,512,0,1,0,&bs); HV(h,g); if(g>0)H(h,buf,g); } break;
    }
    HV(h,ov_pcm_tell(&vf)); HV(h,ov_raw_tell(&vf)); HV(h,ov_bitrate_instant(&vf));
  }
  ov_clear(&vf);
  return h;
}
static uint64_t runjob(job *j){ return j->kind==0?job_enc(j):j->kind==1?job_dec(j):job_vf(j); }

typedef struct { job *jobs; int *idx; int n; uint64_t *res; pthread_barrier_t *bar; int fpmode; } targ;
static void *worker(void *p){
  targ *t=p;
  if(t->fpmode==1)fesetround(FE_UPWARD);          /* per-thread state of OTHER threads must not matter */
  pthread_barrier_wait(t->bar);
  if(t->fpmode==1){ volatile double x=1; for(int i=0;i<200000;i++){ x=x*1.0000001+1e-9; if((i&4095)==0)sched_yield(); } return NULL; }
  for(int i=0;i<t->n;i++)t->res[i]=runjob(&t->jobs[t->idx[i]]);
  return NULL;
}

int main(int argc,char **argv){
  uint64_t seed=strtoull(argv[1],NULL,10); int njobs=atoi(argv[2]),rounds=atoi(argv[3]),maxthr=atoi(argv[4]); long scale=atol(argv[5]);
  if(getenv("VERIF_STACKPAINT"))g_paint=atoi(getenv("VERIF_STACKPAINT"))&255;
  lrng r={seed};
  /* shared read-only inputs: one or two links per stream */
  vbuf streams[NCFG]; memset(streams,0,sizeof streams);
  for(int c=0;c<NCFG;c++){
    job e={0,c,(int)(lr(&r)%5),3000+(long)(lr(&r)%(uint64_t)scale),lr(&r),NULL,0,&streams[c]}; runjob(&e);
    if(c%2==0){ job e2={0,(c+3)%NCFG,(int)(lr(&r)%5),2000+(long)(lr(&r)%(uint64_t)scale),lr(&r),NULL,0,&streams[c]}; runjob(&e2); }   /* chained */
  }
  job *jobs=calloc(njobs,sizeof *jobs);
  for(int k=0;k<njobs;k++){
    jobs[k].kind=k%3; jobs[k].cfg=(int)(lr(&r)%NCFG); jobs[k].sig=(int)(lr(&r)%5); jobs[k].seed=lr(&r);
    jobs[k].n=jobs[k].kind==0?2000+(long)(lr(&r)%(uint64_t)scale):jobs[k].kind==2?20+(long)(lr(&r)%60):0;
    /* every other encoder job is tiny: lead-in and first block come from freshly allocated buffers */
    if(jobs[k].kind==0&&(k/3)%2==1){ static const long tiny[]={0,1,16,32,33,64,300}; jobs[k].n=tiny[lr(&r)%7]; }
    jobs[k].in=&streams[jobs[k].cfg];
  }
  int bad=0;
  for(int k=0;k<njobs;k++)jobs[k].hash=runjob(&jobs[k]);
  for(int k=0;k<njobs;k++){ uint64_t h2=runjob(&jobs[k]); if(h2!=jobs[k].hash){ bad++; printf("prop reproducible FAIL job %d kind %d cfg %d: second solo run differs from the first\n",k,jobs[k].kind,jobs[k].cfg); } }
  for(int k=0;k<njobs;k++)printf("job %d kind=%d cfg=%d n=%ld hash=%016llx\n",k,jobs[k].kind,jobs[k].cfg,jobs[k].n,(unsigned long long)jobs[k].hash);
  for(int c=0;c<NCFG;c++){ uint64_t h=0xcbf29ce484222325ULL; H(h,streams[c].b,streams[c].n); printf("stream %d bytes=%ld hash=%016llx\n",c,streams[c].n,(unsigned long long)h); }
  g_yield=1;
  long compared=0;
  for(int rd=0;rd<rounds;rd++){
    int T=2+(int)(lr(&r)%(uint64_t)(maxthr-1)); int same=(rd%4==3);
    pthread_t th[64]; targ ta[64]; pthread_barrier_t bar; pthread_barrier_init(&bar,NULL,T+1);
    for(int t=0;t<=T;t++){
      ta[t].jobs=jobs; ta[t].bar=&bar; ta[t].fpmode=(t==T); ta[t].n=0; ta[t].idx=calloc(njobs,sizeof(int)); ta[t].res=calloc(njobs,sizeof(uint64_t));
    }
    if(same){ int pick[4]; for(int i=0;i<4;i++)pick[i]=(int)(lr(&r)%(uint64_t)njobs); for(int t=0;t<T;t++)for(int i=0;i<4;i++)ta[t].idx[ta[t].n++]=pick[i]; }
    else{ int off=(int)(lr(&r)%(uint64_t)njobs); for(int k=0;k<njobs;k++){ int t=k%T; ta[t].idx[ta[t].n++]=(k+off)%njobs; } }
    /* threads work on private copies of the job records (the hash field is written) */
    job *copies[64];
    for(int t=0;t<T;t++){ copies[t]=malloc(sizeof(job)*njobs); memcpy(copies[t],jobs,sizeof(job)*njobs); ta[t].jobs=copies[t]; }
    ta[T].jobs=jobs;
    for(int t=0;t<=T;t++)pthread_create(&th[t],NULL,worker,&ta[t]);
    for(int t=0;t<=T;t++)pthread_join(th[t],NULL);
    for(int t=0;t<T;t++){
      for(int i=0;i<ta[t].n;i++){ compared++; int k=ta[t].idx[i];
        if(ta[t].res[i]!=jobs[k].hash){ bad++; printf("prop concurrent FAIL round %d (%d threads%s) job %d kind %d cfg %d: %016llx instead of the solo %016llx\n",rd,T,same?", same jobs in every thread":"",k,jobs[k].kind,jobs[k].cfg,(unsigned long long)ta[t].res[i],(unsigned long long)jobs[k].hash); } }
      free(copies[t]);
    }
    for(int t=0;t<=T;t++){ free(ta[t].idx); free(ta[t].res); }
    pthread_barrier_destroy(&bar);
  }
  printf("rounds %d comparisons %ld\n",rounds,compared);
  if(!bad)printf("prop concurrent PASS\n");
  return 0;
}
