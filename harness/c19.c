/* C19 harness: lapped seeks against their plain counterparts on twin handles.
   case <id> <seed> <hs> <hexfile>
   ops T:<kind>:<pre_target>:<pre_read>:<target> ...   kind: pl ppl rl tl tpl cl
   Handles: A (lapped), B (plain), C (plain; supplies "what would have been read
   next at the old position").  All three receive the same history. */
#include "vcommon.h"
#include "vorbis/codec.h"
#include "vorbis/vorbisfile.h"
#include <math.h>
#include <signal.h>
#include <unistd.h>
extern const float *vorbis_window(vorbis_dsp_state *v,int W);
static void on_alarm(int s){ (void)s; const char m[]="\nprop terminates FAIL (watchdog)\n"; write(1,m,sizeof m-1); _exit(97); }

typedef struct { memsrc ms; OggVorbis_File vf; } H;
static int hopen(H *h,const unsigned char *b,long n,int hs){
  memset(h,0,sizeof *h); h->ms.b=b; h->ms.n=n; h->ms.seekable=1;
  ov_callbacks cb={ms_read,ms_seek,ms_close,ms_tell};
  int r=ov_open_callbacks(&h->ms,&h->vf,NULL,0,cb); if(r)return r;
  if(hs)ov_halfrate(&h->vf,1); return 0;
}
/* read exactly up to n samples (stops at EOF/error), channel-major into out[c][i]; returns count; link of first chunk in *lk */
static long readn(OggVorbis_File *vf,float **out,int maxch,long n,int *lk,int stop_at_link_end){
  long got=0; int first=-2;
  while(got<n){
    float **p; int bs=-1; long r=ov_read_float(vf,&p,(int)(n-got),&bs);
    if(r<=0)break;
    if(first==-2)first=bs; else if(stop_at_link_end&&bs!=first){ /* crossed: cannot un-read; mark */ }
    int ch=ov_info(vf,bs)->channels;
    for(int c=0;c<ch&&c<maxch;c++)memcpy(out[c]+got,p[c],r*sizeof(float));
    got+=r;
  }
  if(lk)*lk=first; return got;
}
#define MAXCH 8
#define MAXK 20000
int main(int argc,char **argv){
  FILE *f=fopen(argv[1],"r"); char *line;
  if(!f)return 2;
  vc_watch_init(on_alarm);
  static float bufA[MAXCH][MAXK],bufB[MAXCH][MAXK],bufO[MAXCH][MAXK]; float *pA[MAXCH],*pB[MAXCH],*pO[MAXCH];
  for(int c=0;c<MAXCH;c++){ pA[c]=bufA[c]; pB[c]=bufB[c]; pO[c]=bufO[c]; }
  while((line=vc_getline(f))){
    char id[64]; int hs; long seed; char *hex;
    char *t=strtok(line," "); if(!t||strcmp(t,"case")){ free(line); continue; }
    strcpy(id,strtok(NULL," ")); seed=atol(strtok(NULL," ")); hs=atoi(strtok(NULL," ")); hex=strtok(NULL," ");
    long n; unsigned char *file=vc_unhex(hex,&n); (void)seed;
    printf("case %s\n",id); vc_watch(120);
    H A,B,C; int bad=0;
    /* A's complete call history, replayed on a fresh handle to obtain "what A would have read next" */
    static struct { char kind[8]; long pre,preread,k; double target; } hist[512]; int nh=0;
    if(hopen(&A,file,n,hs)||hopen(&B,file,n,hs)||hopen(&C,file,n,hs)){ printf("open failed\n"); free(file); free(line); free(vc_getline(f)); continue; }
    if(hs&&!ov_halfrate_p(&A.vf))hs=0;
    long total=(long)ov_pcm_total(&A.vf,-1);
    char *ops=vc_getline(f); long tests=0,lapped=0,formula=0,eofs=0;
    for(char *tk=strtok(ops," ");tk;tk=strtok(NULL," ")){
      if(strncmp(tk,"T:",2))continue;
      char kind[8]; long pre,preread; double target; 
      if(sscanf(tk+2,"%7[a-z]:%ld:%ld:%lf",kind,&pre,&preread,&target)!=4)continue;
      tests++;
      /* C := a fresh handle taken through exactly A's calls so far (lapped seeks included) */
      ov_clear(&C.vf); hopen(&C,file,n,hs);
      for(int q=0;q<nh;q++){
        if(hist[q].pre>=0)ov_pcm_seek(&C.vf,hist[q].pre);
        if(hist[q].preread>0)readn(&C.vf,pO,MAXCH,hist[q].preread>MAXK?MAXK:hist[q].preread,NULL,0);
        if(!strcmp(hist[q].kind,"pl"))ov_pcm_seek_lap(&C.vf,(ogg_int64_t)hist[q].target);
        else if(!strcmp(hist[q].kind,"ppl"))ov_pcm_seek_page_lap(&C.vf,(ogg_int64_t)hist[q].target);
        else if(!strcmp(hist[q].kind,"rl"))ov_raw_seek_lap(&C.vf,(ogg_int64_t)hist[q].target);
        else if(!strcmp(hist[q].kind,"tl"))ov_time_seek_lap(&C.vf,hist[q].target);
        else if(!strcmp(hist[q].kind,"tpl"))ov_time_seek_page_lap(&C.vf,hist[q].target);
        else if(!strcmp(hist[q].kind,"z"))ov_pcm_seek(&C.vf,0);
        if(hist[q].k>0)readn(&C.vf,pO,MAXCH,hist[q].k,NULL,0);
      }
      OggVorbis_File *hh[3]={&A.vf,&B.vf,&C.vf};
      for(int i=0;i<3;i++){ if(pre>=0)ov_pcm_seek(hh[i],pre); if(preread>0){ long g=readn(hh[i],pO,MAXCH,preread>MAXK?MAXK:preread,NULL,0); (void)g; } }
      if(nh<510){ strcpy(hist[nh].kind,kind); hist[nh].pre=pre; hist[nh].preread=preread; hist[nh].target=target; hist[nh].k=0; nh++; }
      int oldlink=C.vf.current_link; int oldrs=C.vf.ready_state;
      /* what would have been read next at the old position: within the link the lap code works in
         (the current one when a decoder is set up, else the one the next page belongs to) */
      int ch1=1; long n1=1; long m=0;
      if(oldrs==4){ vorbis_info *ovi=ov_info(&C.vf,oldlink); ch1=ovi->channels; n1=vorbis_info_blocksize(ovi,0)>>(1+hs); }
      { int lk0=-2; long want=1;
        while(m<want){ float **p; int bs=-1; long r=ov_read_float(&C.vf,&p,(int)(lk0==-2?1:want-m),&bs); if(r<=0)break;
          if(lk0==-2){ if(oldrs==4&&bs!=oldlink)break; lk0=bs; vorbis_info *ovi=ov_info(&C.vf,bs); ch1=ovi->channels; n1=vorbis_info_blocksize(ovi,0)>>(1+hs); want=n1; }
          if(bs!=lk0)break;
          for(int c=0;c<ch1&&c<MAXCH;c++)memcpy(pO[c]+m,p[c],r*sizeof(float)); m+=r; }
        if(lk0==-2&&oldrs!=4){ vorbis_info *ovi=ov_info(&C.vf,-1); ch1=ovi->channels; n1=vorbis_info_blocksize(ovi,0)>>(1+hs); } }
      int rcA,rcB; int iscl=!strcmp(kind,"cl"); H D,D2; OggVorbis_File *LA=&A.vf,*LB=&B.vf;
      if(iscl){
        /* ov_crosslap(A,D): A stays at the old position and supplies the lapping data, D is a fresh handle sought to the target;
           D2 is D's plain twin.  What is compared is D against D2, exactly as a lapped seek against the plain seek. */
        /* every other time the second handle decodes at the other half-rate setting (refused on 64-sample blocks: then the same) */
        int hs2=(pre&1)?!hs:hs;
        if(hopen(&D,file,n,hs2)||hopen(&D2,file,n,hs2)){ printf("open failed\n"); break; }
        LA=&D.vf; LB=&D2.vf;
      }
      if(!strcmp(kind,"pl")){ rcA=ov_pcm_seek_lap(LA,(ogg_int64_t)target); rcB=ov_pcm_seek(LB,(ogg_int64_t)target); }
      else if(!strcmp(kind,"ppl")){ rcA=ov_pcm_seek_page_lap(LA,(ogg_int64_t)target); rcB=ov_pcm_seek_page(LB,(ogg_int64_t)target); }
      else if(!strcmp(kind,"rl")){ rcA=ov_raw_seek_lap(LA,(ogg_int64_t)target); rcB=ov_raw_seek(LB,(ogg_int64_t)target); }
      else if(!strcmp(kind,"tl")){ rcA=ov_time_seek_lap(LA,target); rcB=ov_time_seek(LB,target); }
      else if(iscl){ rcB=ov_pcm_seek(LB,(ogg_int64_t)target); rcA=ov_pcm_seek(LA,(ogg_int64_t)target); if(!rcA)rcA=ov_crosslap(&A.vf,LA); }
      else { rcA=ov_time_seek_page_lap(LA,target); rcB=ov_time_seek_page(LB,target); }
      printf("T %s pre=%ld read=%ld target=%.9g | rcA %d rcB %d tellA %ld tellB %ld oldlink %d oldrs %d m %ld n1 %ld\n",kind,pre,preread,target,rcA,rcB,
             (long)ov_pcm_tell(LA),(long)ov_pcm_tell(LB),oldlink,oldrs,m,n1);
      if(rcB!=0){ if(rcA==0){ printf("prop lapfails FAIL plain=%d lapped=0\n",rcB); bad++; }
        /* bring the handles back to a common position */
        ov_pcm_seek(LA,0); ov_pcm_seek(LB,0); if(nh<510){ strcpy(hist[nh].kind,"z"); hist[nh].pre=-1; hist[nh].preread=0; hist[nh].k=0; nh++; } }
      else if(rcA!=0){
        /* additionally EOF, only when there is nothing to lap */
        /* does audio follow the target within the link the seek landed in?  (the lap code never spans links) */
        int landlink=(LB->ready_state>=3)?LB->current_link:-1;
        float **p; int bs=-1; long r=ov_read_float(LB,&p,1,&bs);
        /* "the handle has no decode state and is at end of stream": with a decoder set up (ready_state INITSET) the lap
           data can always be taken (from pending samples or the decoder's overlap half), so EOF is not excused then */
        int nothing_follows=(r<=0)||(landlink>=0&&bs!=landlink), no_state_at_end=(m==0&&oldrs!=4);
        if(rcA!=OV_EOF||!(nothing_follows||no_state_at_end)){ printf("prop lapeof FAIL rcA=%d follows=%d m=%ld\n",rcA,!nothing_follows,m); bad++; }
        eofs++;
        /* resynchronise */
        ov_pcm_seek(LA,0); ov_pcm_seek(LB,0); if(nh<510){ strcpy(hist[nh].kind,"z"); hist[nh].pre=-1; hist[nh].preread=0; hist[nh].k=0; nh++; }
        goto test_done;
      }else{
        lapped++;
        if(ov_pcm_tell(LA)!=ov_pcm_tell(LB)){ printf("prop lapland FAIL %ld %ld\n",(long)ov_pcm_tell(LA),(long)ov_pcm_tell(LB)); bad++; }
        vorbis_info *nvi=ov_info(LB,-1); int ch2=nvi?nvi->channels:0; int hsB=ov_halfrate_p(LB); long n2=nvi?vorbis_info_blocksize(nvi,0)>>(1+hsB):0;
        /* B may not be primed yet: the new link is known after the first read */
        /* prime B (zero-length read) to see how many samples are pending at the landing position */
        long pendB=0; { float **p0; int b0=-1; ov_read_float(LB,&p0,0,&b0); if(LB->ready_state==4)pendB=vorbis_synthesis_pcmout(&LB->vd,NULL); }
        int lkA=-1,lkB=-1; long K=2000;
        memset(bufA,0,sizeof bufA); memset(bufB,0,sizeof bufB);   /* links differ in channel count: unused channels compare as zero */
        long ga=readn(LA,pA,MAXCH,K,&lkA,0), gb=readn(LB,pB,MAXCH,K,&lkB,0);
        if(lkB>=0){ nvi=ov_info(LB,lkB); ch2=nvi->channels; n2=vorbis_info_blocksize(nvi,0)>>(1+hsB); }
        long nn=n1<n2?n1:n2;
        if(ga!=gb||lkA!=lkB){ printf("prop lapcount FAIL %ld %ld links %d %d\n",ga,gb,lkA,lkB); bad++; }
        else{
          int okout=1; long fi=-1; int fc=-1; for(int c=0;c<ch2&&c<MAXCH&&okout;c++)for(long i=nn;i<ga;i++)if(memcmp(&pA[c][i],&pB[c][i],4)){ okout=0; fi=i; fc=c; break; }
          if(!okout&&getenv("VERIF_DEBUG")){ for(long i=fi-6;i<fi+8&&i<ga;i++)if(i>=0){ uint32_t ua,ub; memcpy(&ua,&pA[fc][i],4); memcpy(&ub,&pB[fc][i],4); printf("dbg i=%ld A=%08x B=%08x\n",i,ua,ub); } }
          if(!okout){ printf("prop lapoutside FAIL n=%ld first=%ld ch=%d of=%ld pendB=%ld A=%g B=%g n1=%ld n2=%ld ch1=%d ch2=%d\n",nn,fi,fc,ga,pendB,pA[fc][fi],pB[fc][fi],n1,n2,ch1,ch2); bad++; }
          /* inside: new*w^2 + old*(1-w^2), the window being the smaller of the two short windows */
          if(m==n1&&ga>=nn){
            /* window table: identical for equal sizes; take it from whichever handle has that size ready */
            const float *w=NULL;
            if(LB->ready_state==4&&(vorbis_info_blocksize(ov_info(LB,-1),0)>>(1+hsB))==nn)w=vorbis_window(&LB->vd,0);
            if(!w&&C.vf.ready_state==4&&(vorbis_info_blocksize(ov_info(&C.vf,-1),0)>>(1+hs))==nn)w=vorbis_window(&C.vf.vd,0);
            if(w){
              int okin=1,late=0; formula++;
              for(int c=0;c<ch2&&c<MAXCH&&okin;c++)for(long i=0;i<nn;i++){
                float wd=w[i]*w[i]; float d=pB[c][i]; float e;
                if(c<ch1){ float ws=1.-wd; e=d*wd + pO[c][i]*ws; } else e=d*wd;
                if(memcmp(&e,&pA[c][i],4)){ float df=fabsf(e-pA[c][i]); if(!(df<=1e-6f*(fabsf(e)+1e-3f))){
                    if(i>=pendB){ late++; continue; }      /* cross-faded before its own overlap-add: recorded finding */
                    okin=0; printf("prop lapinside FAIL c=%d i=%ld pending=%ld want=%g got=%g\n",c,i,pendB,e,pA[c][i]); break; } }
              }
              if(late)printf("known lap-splice-before-overlap pending=%ld n=%ld samples=%d\n",pendB,nn,late);
              if(!okin)bad++;
            }
          }
        }
        if(nh>0&&!iscl)hist[nh-1].k=K;       /* A asked for K samples after its lapped seek (the same CALLS must be replayed) */
      }
      test_done:
      if(iscl){
        /* A gave its lapping data away (read behind the reported position): bring A and B back to a common state */
        ov_clear(&D.vf); ov_clear(&D2.vf);
        ov_pcm_seek(&A.vf,0); ov_pcm_seek(&B.vf,0); if(nh<510){ strcpy(hist[nh].kind,"z"); hist[nh].pre=-1; hist[nh].preread=0; hist[nh].k=0; nh++; }
      }
    }
    printf("S tests=%ld lapped=%ld formula=%ld eofs=%ld total=%ld\n",tests,lapped,formula,eofs,total);
    if(!bad)printf("prop lap ok\n");
    free(ops); ov_clear(&A.vf); ov_clear(&B.vf); ov_clear(&C.vf); vc_watch(0);
    free(file); free(line);
  }
  return 0;
}
