/* C06 harness: encode a parametrised signal, decode it again, measure per
   channel: the lag of the cross-correlation peak (must be 0), which input
   channel the output resembles most (must be itself), finiteness, peak ratio,
   signal-to-noise ratio.  One spec per line:
     <id> <ch> <rate> <managed> <qbits32 | nominal> <nsamples> <signal> <seed>
   signals: 0 multi-tone (distinct per channel)  1 sweep  2 low-passed noise
            3 click train (distinct phase per channel)  4 tone bursts with silence
            5 one channel at a time (100 Hz tone, the others digitally silent) */
#include "vcommon.h"
#include "vorbis/codec.h"
#include "vorbis/vorbisenc.h"
#include <math.h>

static double lp_state[256];
static void gen(float **in,int ch,long n,int sig,long rate,uint64_t seed){
  vc_rng_s=seed; memset(lp_state,0,sizeof lp_state);
  for(int c=0;c<ch;c++){
    double f1=(0.011+0.0037*c), f2=(0.047+0.0051*c), f3=(0.093+0.0029*c);
    for(long i=0;i<n;i++){
      double t=(double)i,x=0;
      switch(sig){
      case 0: x=0.30*sin(2*M_PI*f1*t)+0.25*sin(2*M_PI*f2*t+1.0)+0.15*sin(2*M_PI*f3*t+2.0); break;
      case 1: { double ph=2*M_PI*(0.002*t+0.5*(0.08+0.01*c)/n*t*t); x=0.5*sin(ph); } break;
      case 2: { double u=(double)(vc_rng()>>11)/9007199254740992.0*2-1; lp_state[c]+=0.15*(u-lp_state[c]); x=1.6*lp_state[c]; } break;
      case 3: x=((i%1777)==(137*(c+1))%1777)?0.9:0.0; break;
      case 5: x=(i*ch/(n>0?n:1)==c)?0.5*sin(2*M_PI*100.0/(double)rate*t):0.0; break;   /* one channel at a time, 100 Hz, the others digitally silent */
      default: x=(((i/4000)%2)==(c%2))?0.5*sin(2*M_PI*f2*t):0.0; break;
      }
      in[c][i]=(float)x;
    }
  }
}

int main(int argc,char **argv){
  FILE *f=fopen(argv[1],"r"); char *line; if(!f)return 2;
  setvbuf(stdout,NULL,_IOLBF,0);
  while((line=vc_getline(f))){
    char id[64]; int ch,managed,sig; long rate,N,nom=0; unsigned long qb=0; unsigned long long seed;
    if(sscanf(line,"%63s %d %ld %d",id,&ch,&rate,&managed)<4){ free(line); continue; }
    if(managed)sscanf(line,"%*s %*d %*d %*d %ld %ld %d %llu",&nom,&N,&sig,&seed);
    else sscanf(line,"%*s %*d %*d %*d %lu %ld %d %llu",&qb,&N,&sig,&seed);
    free(line);
    printf("case %s\n",id);
    vorbis_info vi; vorbis_info_init(&vi); int rc;
    if(managed)rc=vorbis_encode_init(&vi,ch,rate,-1,nom,-1);
    else{ float q; uint32_t u=(uint32_t)qb; memcpy(&q,&u,4); rc=vorbis_encode_init_vbr(&vi,ch,rate,q); }
    if(rc){ printf("refused %d\n",rc); continue; }
    float **in=malloc(sizeof(*in)*ch),**out=malloc(sizeof(*out)*ch);
    for(int c=0;c<ch;c++){ in[c]=calloc(N+1,sizeof(float)); out[c]=calloc(N+8192,sizeof(float)); }
    gen(in,ch,N,sig,rate,seed);
    vorbis_comment vc; vorbis_dsp_state vd; vorbis_block vb; ogg_packet h[3],op;
    vorbis_comment_init(&vc); vorbis_analysis_init(&vd,&vi); vorbis_block_init(&vd,&vb);
    vorbis_analysis_headerout(&vd,&vc,&h[0],&h[1],&h[2]);
    vorbis_info dvi; vorbis_comment dvc; vorbis_dsp_state dvd; vorbis_block dvb;
    vorbis_info_init(&dvi); vorbis_comment_init(&dvc);
    for(int i=0;i<3;i++)if(vorbis_synthesis_headerin(&dvi,&dvc,&h[i]))printf("prop headers FAIL\n");
    vorbis_synthesis_init(&dvd,&dvi); vorbis_block_init(&dvd,&dvb);
    long pos=0,got=0; int eos=0;
    while(!eos){
      long k=N-pos; if(k>1024)k=1024;
      if(k>0){ float **b=vorbis_analysis_buffer(&vd,(int)k); for(int c=0;c<ch;c++)memcpy(b[c],in[c]+pos,sizeof(float)*k); pos+=k; }
      vorbis_analysis_wrote(&vd,(int)(k>0?k:0));
      while(vorbis_analysis_blockout(&vd,&vb)==1){
        vorbis_analysis(&vb,NULL); vorbis_bitrate_addblock(&vb);
        while(vorbis_bitrate_flushpacket(&vd,&op)){
          if(vorbis_synthesis(&dvb,&op)==0)vorbis_synthesis_blockin(&dvd,&dvb);
          float **pcm; int s;
          while((s=vorbis_synthesis_pcmout(&dvd,&pcm))>0){
            for(int c=0;c<ch;c++)for(int i=0;i<s&&got+i<N+8192;i++)out[c][got+i]=pcm[c][i];
            got+=s; vorbis_synthesis_read(&dvd,s);
          }
          if(op.e_o_s)eos=1;
        }
      }
      if(k<=0)break;
    }
    printf("count %ld %ld\n",N,got);
    long M=got<N?got:N;
    for(int c=0;c<ch;c++){
      int finite=1; double pin=0,pout=0,es=0,en=0;
      for(long i=0;i<M;i++){ double a=in[c][i],b=out[c][i]; if(!isfinite(b))finite=0; if(fabs(a)>pin)pin=fabs(a); if(fabs(b)>pout)pout=fabs(b); es+=a*a; en+=(a-b)*(a-b); }
      /* cross-correlation over lags -48..48 */
      int best=0; double bv=-1e300,v0=0;
      for(int lag=-48;lag<=48;lag++){ double s=0; for(long i=64;i<M-64;i++)s+=(double)in[c][i]*out[c][i+lag]; if(lag==0)v0=s; if(s>bv){ bv=s; best=lag; } }
      /* which input channel does this output resemble most */
      int src=c; double sv=-1e300,self=0;
      for(int d=0;d<ch;d++){ double s=0,nd=0; for(long i=0;i<M;i++){ s+=(double)in[d][i]*out[c][i]; nd+=(double)in[d][i]*in[d][i]; } s=s/sqrt(nd+1e-30); if(d==c)self=s; if(s>sv){ sv=s; src=d; } }
      printf("m %d lag=%d peak0=%.6g peakbest=%.6g src=%d self=%.6g srcv=%.6g finite=%d peakin=%.6g peakout=%.6g snr=%.3f\n",c,best,v0,bv,src,self,sv,finite,pin,pout,
             10*log10((es+1e-30)/(en+1e-30)));
    }
    vorbis_block_clear(&dvb); vorbis_dsp_clear(&dvd); vorbis_comment_clear(&dvc); vorbis_info_clear(&dvi);
    vorbis_block_clear(&vb); vorbis_dsp_clear(&vd); vorbis_comment_clear(&vc); vorbis_info_clear(&vi);
    for(int c=0;c<ch;c++){ free(in[c]); free(out[c]); } free(in); free(out);
  }
  return 0;
}
