/* C13 harness: every way of using encoder / packet decoder / vorbisfile followed
   by the documented clear calls (repeated) must leave no live allocation.
   LeakSanitizer's recoverable check is run after every scenario; ASan catches
   double frees.  One scenario per input line:
     enc <ch> <rate> <mode> <q|max:nom:min> <nblocks> <stage>    stage: how far the set-up goes before clearing
     dec <stage> <hexid> <hexcomm> <hexsetup> <hexaudio>          stage: number of headers fed, +10 = also init, +20 = also decode
     vf  <seekable> <faultkind> <persist> <k> <hexfile> <ops...>
   prints one `prop` line per scenario. */
#include "vcommon.h"
#include "vorbis/codec.h"
#include "vorbis/vorbisenc.h"
#include "vorbis/vorbisfile.h"
#include <sanitizer/lsan_interface.h>
#include <signal.h>
#include <unistd.h>
static void on_alarm(int s){ (void)s; const char m[]="\nprop terminates FAIL (watchdog)\n"; write(1,m,sizeof m-1); _exit(97); }

static int leakcheck(const char *what){
  int r=__lsan_do_recoverable_leak_check();
  if(r){ printf("prop noleak FAIL %s\n",what); return 1; }
  return 0;
}

static void do_enc(char *args){
  int ch,mode,nblocks,stage; long rate; char spec[128];
  if(sscanf(args,"%d %ld %d %127s %d %d",&ch,&rate,&mode,spec,&nblocks,&stage)!=6)return;
  vorbis_info vi; vorbis_comment vc; vorbis_dsp_state vd; vorbis_block vb; int have_vd=0,have_vb=0,r=0;
  vorbis_info_init(&vi); vorbis_comment_init(&vc);
  if(mode==0){ r=vorbis_encode_init_vbr(&vi,ch,rate,(float)atof(spec)); }
  else if(mode==1){ long a,b,c; sscanf(spec,"%ld:%ld:%ld",&a,&b,&c); r=vorbis_encode_init(&vi,ch,rate,a,b,c); }
  else if(mode==2){ r=vorbis_encode_setup_vbr(&vi,ch,rate,(float)atof(spec));
    if(!r&&stage>=1){ struct ovectl_ratemanage2_arg ai; if(!vorbis_encode_ctl(&vi,OV_ECTL_RATEMANAGE2_GET,&ai)){ ai.management_active=(stage&1); vorbis_encode_ctl(&vi,OV_ECTL_RATEMANAGE2_SET,&ai);} double lp=13.; vorbis_encode_ctl(&vi,OV_ECTL_LOWPASS_SET,&lp); int cp=(stage>>1)&1; vorbis_encode_ctl(&vi,OV_ECTL_COUPLING_SET,&cp); }
    if(!r&&stage>=2)r=vorbis_encode_setup_init(&vi); }
  else { long a,b,c; sscanf(spec,"%ld:%ld:%ld",&a,&b,&c); r=vorbis_encode_setup_managed(&vi,ch,rate,a,b,c);
    if(!r&&stage>=1){ struct ovectl_ratemanage2_arg ai; if(!vorbis_encode_ctl(&vi,OV_ECTL_RATEMANAGE2_GET,&ai)){ ai.bitrate_limit_reservoir_bits=ai.bitrate_limit_reservoir_bits/2+100; vorbis_encode_ctl(&vi,OV_ECTL_RATEMANAGE2_SET,&ai);} }
    if(!r&&stage>=2)r=vorbis_encode_setup_init(&vi); }
  printf("enc rc %d\n",r);
  int ready=(r==0)&&(mode<=1||stage>=2);
  if(ready&&stage!=7){
    vorbis_comment_add_tag(&vc,"A","b"); vorbis_comment_add(&vc,"c=d");
    if(vorbis_analysis_init(&vd,&vi)==0){ have_vd=1;
      if(stage!=8){ vorbis_block_init(&vd,&vb); have_vb=1;
        ogg_packet h[3]; vorbis_analysis_headerout(&vd,&vc,&h[0],&h[1],&h[2]);
        if(stage==9){ ogg_packet h2[3]; vorbis_analysis_headerout(&vd,&vc,&h2[0],&h2[1],&h2[2]); }   /* twice: earlier copies are replaced */
        for(int k=0;k<nblocks;k++){
          float **b=vorbis_analysis_buffer(&vd,1024); for(int c=0;c<ch;c++)for(int i=0;i<1024;i++)b[c][i]=(float)((double)(vc_rng()>>11)/9007199254740992.0-0.5);
          vorbis_analysis_wrote(&vd,1024);
          while(vorbis_analysis_blockout(&vd,&vb)==1){ ogg_packet op; vorbis_analysis(&vb,NULL); vorbis_bitrate_addblock(&vb); while(vorbis_bitrate_flushpacket(&vd,&op)); }
        }
        if(nblocks&1){ vorbis_analysis_wrote(&vd,0); while(vorbis_analysis_blockout(&vd,&vb)==1){ ogg_packet op; vorbis_analysis(&vb,NULL); vorbis_bitrate_addblock(&vb); while(vorbis_bitrate_flushpacket(&vd,&op)); } }
      }
    }
  }
  /* the documented clears, in the documented order, then again */
  for(int rep=0;rep<2;rep++){
    if(have_vb)vorbis_block_clear(&vb);
    if(have_vd)vorbis_dsp_clear(&vd);
    vorbis_comment_clear(&vc);
    vorbis_info_clear(&vi);
  }
  char w[256]; snprintf(w,sizeof w,"enc %s",args);
  if(!leakcheck(w))printf("prop noleak ok\n");
}

static void do_dec(char *args){
  char *save; int stage=atoi(strtok_r(args," ",&save)); char *hx[4]; for(int i=0;i<4;i++)hx[i]=strtok_r(NULL," ",&save);
  vorbis_info vi; vorbis_comment vc; vorbis_dsp_state vd; vorbis_block vb; int have_vd=0,have_vb=0;
  vorbis_info_init(&vi); vorbis_comment_init(&vc);
  int nh=stage%10, fed=0, lastrc=0;
  for(int i=0;i<nh&&i<3;i++){ long n; ogg_packet op; memset(&op,0,sizeof op); op.packet=vc_unhex(hx[i],&n); op.bytes=n; op.b_o_s=(i==0); op.packetno=i;
    lastrc=vorbis_synthesis_headerin(&vi,&vc,&op); free(op.packet); fed++; if(lastrc)break; }
  printf("dec fed %d rc %d\n",fed,lastrc);
  if(stage>=10&&lastrc==0&&fed==3){
    if(vorbis_synthesis_init(&vd,&vi)==0){ have_vd=1; vorbis_block_init(&vd,&vb); have_vb=1;
      if(stage>=20){ long n; ogg_packet op; memset(&op,0,sizeof op); op.packet=vc_unhex(hx[3],&n); op.bytes=n; op.packetno=3;
        for(int k=0;k<3;k++){ if(vorbis_synthesis(&vb,&op)==0)vorbis_synthesis_blockin(&vd,&vb); float **p; int c=vorbis_synthesis_pcmout(&vd,&p); vorbis_synthesis_read(&vd,c); op.packetno++; }
        free(op.packet); } }
    else printf("dec init refused\n");
  }
  for(int rep=0;rep<2;rep++){
    if(have_vb)vorbis_block_clear(&vb);
    if(have_vd)vorbis_dsp_clear(&vd);
    vorbis_comment_clear(&vc);
    vorbis_info_clear(&vi);
  }
  if(!leakcheck("dec"))printf("prop noleak ok\n");
}

static void do_vf(char *args){
  char *save; char *t0=strtok_r(args," ",&save); int seekable=atoi(t0); char *mrp=strchr(t0,':'); long maxread=mrp?atol(mrp+1):0; int kind=atoi(strtok_r(NULL," ",&save)); int persist=atoi(strtok_r(NULL," ",&save));
  long k=atol(strtok_r(NULL," ",&save)); char *hex=strtok_r(NULL," ",&save); long n; unsigned char *file=vc_unhex(hex,&n);
  memsrc ms={0}; ms.b=file; ms.n=n; ms.seekable=seekable; ms.maxread=maxread; ms.fault_kind=kind; ms.fault_persist=persist; ms.fault_at=k;
  OggVorbis_File vf; ov_callbacks cb={ms_read,seekable?ms_seek:NULL,ms_close,seekable?ms_tell:NULL};
  int orc=ov_open_callbacks(&ms,&vf,NULL,0,cb);
  printf("vf open %d\n",orc);
  if(orc==0){
    for(char *tk=strtok_r(NULL," ",&save);tk;tk=strtok_r(NULL," ",&save)){
      float **p; int bs;
      if(!strncmp(tk,"ps:",3))ov_pcm_seek(&vf,atol(tk+3)); else if(!strncmp(tk,"pp:",3))ov_pcm_seek_page(&vf,atol(tk+3));
      else if(!strncmp(tk,"rs:",3))ov_raw_seek(&vf,atol(tk+3)); else if(!strncmp(tk,"rf:",3))ov_read_float(&vf,&p,atoi(tk+3),&bs);
      else if(!strncmp(tk,"pl:",3))ov_pcm_seek_lap(&vf,atol(tk+3)); else if(!strncmp(tk,"hr:",3))ov_halfrate(&vf,atoi(tk+3));
      else if(!strncmp(tk,"ts:",3))ov_time_seek(&vf,atof(tk+3));
    }
  }
  long c0=ms.closes;
  ov_clear(&vf); ov_clear(&vf);
  int okc=(orc==0)?(c0==0&&ms.closes==1):(ms.closes==0);
  if(!okc)printf("prop closeonce FAIL open=%d closes=%ld\n",orc,ms.closes);
  free(file);
  if(!leakcheck("vf")&&okc)printf("prop noleak ok\n");
}

int main(int argc,char **argv){
  FILE *f=fopen(argv[1],"r"); char *line; if(!f)return 2;
  vc_watch_init(on_alarm); vc_rng_s=12345;
  __lsan_do_recoverable_leak_check();
  while((line=vc_getline(f))){
    vc_watch(60);
    if(!strncmp(line,"case ",5))printf("%s\n",line);
    else if(!strncmp(line,"enc ",4))do_enc(line+4);
    else if(!strncmp(line,"dec ",4))do_dec(line+4);
    else if(!strncmp(line,"vf ",3))do_vf(line+3);
    vc_watch(0); free(line);
  }
  return 0;
}
