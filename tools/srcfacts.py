#!/usr/bin/env python3
"""Regenerates coq/SrcFacts.v (printed on stdout) from the current /repo source.
A tiny C dumper is compiled against the current headers and .c files."""
import os, subprocess, sys, tempfile
repo = sys.argv[1] if len(sys.argv) > 1 else "/repo"
here = os.path.dirname(os.path.abspath(__file__))
src = os.path.join(here, "srcfacts_dump.c")
with tempfile.TemporaryDirectory(prefix="srcfacts") as d:
    exe = os.path.join(d, "dump")
    r = subprocess.run(["gcc", "-w", "-O0", "-I" + os.path.join(repo, "include"), "-I" + os.path.join(repo, "lib"),
                        src, "-O1", "-ffunction-sections", "-fdata-sections", "-Wl,--gc-sections", "-lm", "-logg", "-o", exe],
                       stdout=subprocess.PIPE, stderr=subprocess.STDOUT, text=True)
    if r.returncode != 0:
        sys.stderr.write(r.stdout)
        sys.exit(1)
    r = subprocess.run([exe], stdout=subprocess.PIPE, text=True)
    if r.returncode != 0:
        sys.exit(1)
    sys.stdout.write(r.stdout)
