HOOK_COMMITS = []
NOTES = ("Technique: machine-checked proof in Coq 8.16 over hand-written executable models, tied to the code by a "
         "correspondence check on every run (DESIGN.md).  bin/check <ID> rebuilds /repo's working tree, re-proves "
         "Properties_<ID>.v, runs extracted model and implementation on the same generated cases, searches for a failing input "
         "when either breaks.")
NOT_APPLICABLE = {}
CHECKS = {
 "C16": {
  "text": "Theorems for all comment lists/tags/indices (round trip, ASCII-only case folding, n-th match, count = successes, "
          "no read past the terminator) about Comment.v; the model is run against lib/info.c on generated and boundary-mutated inputs each run.",
  "note": "Trusted: Coq kernel, extraction, harness/c16.c, libogg bit packer (byte-aligned 32-bit reads modelled, not verified), "
          "tools/srcfacts. Print Assumptions: closed under the global context for every theorem.",
  "technique": "Coq proof (induction over comment lists) + differential correspondence of extracted model vs lib/info.c",
 },
}
