HOOK_COMMITS = []
NOTES = ("Technique: machine-checked proof in Coq 8.16 over hand-written executable models, tied to the code by a "
         "correspondence check on every run (DESIGN.md).  bin/check <ID> rebuilds /repo's working tree, re-proves "
         "Properties_<ID>.v, runs extracted model and implementation on the same generated cases, searches for a failing input "
         "when either breaks.")
NOT_APPLICABLE = {}
VF_NOTE = ("Trusted: Coq kernel, extraction, harness/vf.c (page table and reference PCM obtained with libogg + the packet-level API), libogg. "
           "The byte-level page search/bisection is abstracted to its result on the page table (validated by the tie on every run, not proved). "
           "Print Assumptions: closed under the global context.")
CHECKS = {
 "C06": {
  "category": "proof",
  "text": "PARTIAL. Proved: (alignment) for ALL block-size sequences and chunkings the decoder has, after the packets emitted so far, returned exactly the input position of "
          "the centre of the last block - output sample i is input sample i; (channel order) residue bundling returns every vector to the channel it came from and leaves "
          "the others untouched; (window) the Vorbis window slope is power complementary, w(a)^2 + w(pi/2-a)^2 = 1 (reals). NOT decided by proof: finiteness, peak factor and "
          "the error-vs-quality bound concern the floating-point psychoacoustic encoder; they are measured per run on the implementation over a parametrised signal family "
          "(per-channel distinct multi-tones, sweeps, low-passed noise, click trains, tone bursts; 1-8 channels, 8-96 kHz, 7 qualities + managed): cross-correlation peak at "
          "lag 0, each output channel correlates most with its own input, finite, peak <= 4x, SNR above a quality-dependent floor that rises with quality; "
          "one channel at a time (100 Hz tone, the others digitally silent): every channel, the 5.1 LFE included, must come back on itself.",
  "note": "Trusted: Coq kernel; standard-library real-number axioms (ClassicalDedekindReals.sig_forall_dec, sig_not_dec, functional_extensionality_dep) under the window theorem "
          "only; harness/c06.c. The LFE channel of 5.1 set-ups is low-passed by design and exempt from the wide-band alignment/quality measurements. The SNR floors are "
          "calibrated ~10 dB below the unchanged encoder: a change that degrades quality by less is not detected.",
  "technique": "Coq proof (alignment by the encoder/decoder automata, bundling lemmas, window identity over the reals) + measured alignment/permutation/peak/SNR on the implementation",
 },
 "C01": {
  "category": "proof",
  "text": "PARTIAL for sample values, proof for counts and the discrete algorithms. The specification-level decoder is an executable Coq model written from the "
          "specification and the reference code: Setup.v (headers), Codebook.v (codeword assignment, tree decode, VQ unquantisation), PacketDec.v (packet prologue, floor 1 "
          "unwrap + line rendering, floor 0 coefficients, residue formats 0/1/2, coupling, floor x residue in exact binary32 arithmetic), Blocking.v/Overlap.v (windows, overlap, "
          "counts). Proved for all inputs: samples per packet = bs[prev]/4+bs[this]/4; the codeword assignment of lib/sharedbook.c (_make_words, marker array) is prefix-free for every accepted set of lengths below 32 and the tree walk reads back any prefix-free codeword table - so every accepted such book decodes entry by entry; look-ups consume bits and never "
          "grow the reader; residue partition arithmetic for formats 0/1/2 stays inside the half block; floor-1 curve covers exactly n lines. Per run: random VALID set-ups over "
          "the whole feature space (floor 0/1, residue 0/1/2, ordered/sparse/single-entry/lattice/explicit/sequence books, 1-16 submaps, coupling, up to 64 modes, all block "
          "sizes 64..8192, up to 255 channels in the thorough tier) with random packets: header verdicts/fields, packet verdicts, bits left, the spectrum of every channel "
          "before the inverse MDCT (bit for bit) and the sample counts must equal the extracted model; inverse MDCT + window + overlap-add and the floor-0 curve are compared "
          "numerically (direct cosine sum in double; binary32 re-evaluation of the LSP curve) with a tolerance.",
  "note": "Trusted: Coq kernel, extraction, ml/driver.ml, harness/pd.c (captures the spectrum by #including lib/mapping0.c with mdct_backward renamed), vlib/numeric.py (numpy). "
          "NOT proved: numerical accuracy of the inverse MDCT, window, dB table values and floor-0 curve (numeric comparison only); that _make_words yields a prefix-free table "
          "(tied by every run, not proved). Print Assumptions: closed.",
  "technique": "Coq model of the specification-level decoder (exact binary32 arithmetic) + theorems on counts/tree decode/index arithmetic + exact and numeric correspondence on generated valid streams",
 },
 "C02": {
  "category": "proof",
  "text": "PARTIAL. Proved on the models for ALL inputs: reads return values of the announced width and consume exactly that many bits; every tree look-up leaves no more bits "
          "than it found (decode work is bounded by the packet length); accepted mappings and modes only name channels/submaps/floors/residues/mappings that exist; an accepted "
          "floor 1 has at most VIF_POSIT posts; the residue write ranges of formats 0/1/2 stay inside the vectors for every value of begin/end/grouping; granule trimming cannot "
          "leave the decoded range (C11). Real memory safety, stack, heap and time are runtime facts: explored per run on ~500 (quick) / 20000 (thorough) malformed inputs - one "
          "named illegal or boundary value per set-up field, bit flips, byte sets, truncation at any length, identification/comment variants, headers out of order/repeated, "
          "random/truncated/non-audio packets, wild granule positions, trackonly/restart/clear/re-init orders - under ASan+UBSan with a 150 s watchdog, 2 GiB allocation cap "
          "and an exit() guard, while the model must predict every verdict, spectrum and count.",
  "note": "Trusted: Coq kernel, extraction, harness/pd.c, sanitizers. The header parser model is strict (any failed read = reject); that this coincides with the C code's "
          "sticky reader + final framing check is validated by the tie on truncated headers, not proved. Stack use of alloca in vorbis_book_init_decode is measured only through "
          "the default 8 MiB stack the harness runs with. Print Assumptions: closed.",
  "technique": "Coq proof (reader, index-range and write-range lemmas) + exact correspondence on mutated streams under sanitizers with time/heap budgets",
 },
 "C05": {
  "category": "proof",
  "text": "PARTIAL for audio packets, proof for headers. Proved: the header parser reads back exactly what the header packers write - unpack_setup (pack_setup s ++ pad) = Some s "
          "for EVERY packable set-up (Pack.v models _vorbis_pack_books, vorbis_staticbook_pack with its ordered / sparse / dense codeword-length encodings and both value "
          "mappings, floor1_pack, res0_pack, mapping0_pack, the mode table), likewise each codebook alone and the identification header; decode (encode e) = e for every "
          "prefix-free codeword table whatever follows in the packet; reads consume exactly the width written. Per run on real encoder output (18 channel/rate "
          "configurations incl. 255 channels, all qualities, managed modes, control settings; silence, full scale, noise, impulses, DC, denormals, beyond +-1): the three "
          "headers are accepted by the decoder AND by the strict model parser with identical fields, equal to the encoder's own info structure; re-packing the parsed "
          "set-up with the packer model reproduces the header bytes; every audio packet is accepted by both, window flags agree with the neighbouring blocks, the bit position "
          "after the packet agrees and lies within the last byte (unmanaged); managed packets are never rejected and only run out of bits when a hard maximum is configured; "
          "every third packet's full spectrum is compared bit for bit.",
  "note": "Trusted: Coq kernel, extraction, harness/c05enc.c + pd.c. The encoder's psychoacoustic choices (posts, partition classes, values) are inputs; that its audio "
          "packets are consumed exactly is decided per run by the strict model decoder, not by a floor/residue encode-decode theorem. Print Assumptions: closed.",
  "technique": "Coq proof (pack/unpack round trip of all headers, codeword round trip) + strict model parser/decoder/packer run on real encoder output, exact correspondence with the decoder",
 },
 "C18": {
  "category": "proof",
  "text": "PARTIAL. Proved (Interleave.v, generic in the step function; instantiated with the encoder, decoder, vorbisfile and bitrate models): for ALL worlds of instances with "
          "disjoint state and ALL schedules, each instance ends in the state and produces the outputs of running its own operations alone; two schedules with the same "
          "per-instance operation lists are indistinguishable. That is a statement about pure models. The clauses no model can exhibit are explored on the implementation on every "
          "run: encoder/decoder/vorbisfile jobs solo vs 2..16 threads with random yields (hashes of every byte, sample, return code and position must be equal), the same with "
          "malloc fill 0x00/0xAA/0xFF/0x7F and with clang auto-var-init pattern vs zero (stack and alloca), a ThreadSanitizer build, and a foreign thread running with "
          "FE_UPWARD. A scan for writable file-scope objects is recorded in the evidence (informational).",
  "note": "Trusted: Coq kernel; harness/c18.c; pthreads scheduling (sampled, not exhaustive); TSan; libogg assumed thread-safe for disjoint objects. "
          "The runtime clauses are validated by exploration, not proved. Print Assumptions: closed.",
  "technique": "Coq proof (interleaving invisibility, induction over schedules) + concurrent-vs-solo differential runs, heap/stack poisoning, ThreadSanitizer",
 },
 "C15": {
  "category": "proof",
  "text": "Proved on EncSetup.v over the template table of the CURRENT source (SrcFacts.setup_templates is regenerated from lib/vorbisenc.c + lib/modes on every run): "
          "for ALL channels, rates, qualities/bitrates (any double incl. NaN/Inf) and ALL rounding behaviours of the float base-setting sum, template lookup returns an existing "
          "template and a setting index inside its per-setting tables; for ALL sequences of set-up calls, one-step calls and control requests the staged state keeps that "
          "invariant, every call returns 0/OV_EINVAL/OV_EIMPL, a failed one-step call leaves exactly the cleared state, a successful one reports the requested channels "
          "(1..255) and rate with legal block sizes (powers of two, 64<=short<=long<=8192: the precondition of the C04/C11 theorems), and after setup_init every set request "
          "is refused without changing anything. Per run ~500 (quick) / 12000 (thorough) argument/request histories are executed on the real code under ASan+UBSan and the "
          "staged state after every call is compared with the extracted model; after success: analysis_init, headerout, encode, decode.",
  "note": "Trusted: Coq kernel + vm_compute, tools/srcfacts_dump.c, extraction, ml/driver.ml (IEEE glue for the quality adjustment, hi->req store and division by channels), "
          "harness/c15.c. Memory safety of psy/floor/residue set-up and of the encode is sampled under sanitizers, not proved. Print Assumptions: closed.",
  "technique": "Coq proof (lookup range lemma over the generated table, invariant by induction over call histories) + exact correspondence of extracted model vs lib/vorbisenc.c under sanitizers",
 },
 "C14": {
  "category": "proof",
  "text": "Proved on Bitrate.v for ALL sequences of candidate packet sizes, block flags and floater choices: the min/max reservoir stays in [0, reservoir]; over every "
          "contiguous run of packets the bits emitted exceed the sum of the per-block maximum targets by at most the reservoir, and fall short of the per-block minimum "
          "targets by at most it. The literal form of the property (rate x duration) is refuted on the faithful model by an explicit witness (target rounding drift): "
          "recorded KNOWN-FINDING. Per run the model is replayed against every real vorbis_bitrate_addblock call of managed encodes and against synthetic size "
          "sequences pushed through the real function (choice, final size, reservoir must match exactly); window bounds evaluated on the emitted sizes.",
  "note": "Trusted: Coq kernel, extraction, harness/c14.c. The average-bitrate floater (double arithmetic) enters the model as an oracle choice; rint() of the "
          "per-block targets is taken from the library's state. Reservoirs below 8 bits are excluded (byte-aligned packets). Print Assumptions: closed.",
  "technique": "Coq proof (invariant by induction over blocks, window bounds) + exact correspondence of extracted model vs lib/bitrate.c",
 },
 "C13": {
  "category": "proof",
  "text": "Proved (Ledger.v, all call sequences): the close callback runs exactly once per source the library came to own, only in ov_clear, never after a failed "
          "open; clearing twice is clearing once. Heap ownership inside the C code (which allocation each clear releases, on which error exit) is not in any model: "
          "it is decided per run by leak-checking (LeakSanitizer recoverable check) and double-free detection (ASan) after each of ~2000+ scenarios: every encoder template "
          "family and rejected arguments at every set-up stage, decoder header prefixes and corrupted headers, failing opens at callback k, mutated files, failing seeks; "
          "clears are issued twice.",
  "note": "Trusted: Coq kernel; harness/c13.c; ASan/LSan. The leak accounting is the deciding part for the heap clauses and is an enumeration, not a theorem.",
  "technique": "Coq proof (ownership automaton) + per-scenario leak/double-free accounting",
 },
 "C03": {
  "category": "proof",
  "text": "Proved for ARBITRARY page tables, granule positions and states: the packet/page loops of the read path terminate within the fuel the model computes "
          "(measure: pages + packets left); every loop of the seek path terminates too (Term_lemmas.v: the scan of ov_raw_seek, the packet-discarding and the "
          "sample-discarding loop of ov_pcm_seek and the fetch they call give results independent of the fuel beyond the measure of the state, ov_raw_seek and "
          "ov_pcm_seek with any amount of extra fuel compute the same result, ov_pcm_seek_page never reports the out-of-fuel marker - its one non-terminating loop "
          "in the C code, the page rewind, was found by the thorough exploration and repaired); the decoder's buffer writes stay inside its 2*n1 cells from any state, granule trimming stays inside what blockin "
          "produced for every granule value, the source is closed only by ov_clear and never after a failed open. Memory safety and termination of the C code "
          "itself on arbitrary bytes - libogg framing, header parsing, byte-level bisection, the API glue - are decided per run: mutated real files (page header "
          "fields with/without CRC repair, dropped/duplicated/reordered/foreign pages, garbage, lying granules, missing EOS, damaged packets), random bytes and "
          "truncations x random sequences over the whole public API, seekable and streaming, under ASan/UBSan with a watchdog; return codes must be documented, "
          "a failed open must zero the handle and not close the source.",
  "note": VF_NOTE + " The sanitizer-backed exploration is what decides the C-level clauses; the theorems cover the modelled loops and index arithmetic only.",
  "technique": "Coq proof (termination measures, bounds for all states) + sanitizer-backed mutation exploration of the whole vorbisfile API",
 },
 "C12": {
  "category": "proof",
  "text": "Proved: the close callback runs only in ov_clear, once per source the library came to own and never after a failed open (Ledger.v, all op sequences); "
          "no read/seek/half-rate operation of VFile.v modifies the link and page tables built at open, from which every later seek is computed; the seek theorems of C07 hold from ANY "
          "handle state with an open file (whatever an earlier failed or successful call left behind), and every seek terminates from any state (C03). That each faulted call "
          "returns a documented code, terminates, leaves the source unclosed, that a failed open zeroes the handle, and that after the fault a seek + reads equal a "
          "never-faulted twin bit for bit is decided by systematic fault enumeration on every run (5 fault kinds x one-shot/persisting x callback index k x open / read / "
          "pcm-seek / page+raw+time-seek / lapped+half-rate scenarios).",
  "note": VF_NOTE + " The fault behaviour of the C code itself (which error exit is taken) is not modelled: it is enumerated.",
  "technique": "Coq proof (ownership automaton, table immutability) + fault enumeration with clean-twin comparison",
 },
 "C19": {
  "category": "proof",
  "text": "Proved (Overlap.v): vorbis_synthesis_lapout exposes contiguously, in order and inside the buffer exactly what a read would have returned next "
          "followed by the unwindowed second half of the last block (all four window transitions, both buffer phases); the splice touches only the first "
          "min(n1,n2) cells; priming (fetch until something is pending - what a lapped seek does after the plain seek) keeps the reported position after a truthful "
          "seek on an intact run (Prime_lemmas.v). The lapped seek itself is modelled (VFile.seek_lap: set-up, lapping data out of the decoder, plain seek, "
          "priming on a fetch that does not span links, lapout) and proved (Lap_lemmas.v) to return 0 and report EXACTLY the target under the executable hypotheses "
          "lap_hyps, to fail with the plain seek's code where that fails, and to reject what it rejects with the state untouched; lapped page and byte seeks report "
          "the position the plain seek reports wherever that lands on an intact run (priming right after the landing keeps the position). Per run: histories of reads, plain "
          "seeks, half-rate toggles and lapped sample/page/byte seeks replayed on the extracted model (every return code, position, byte cursor, ready state, link, read count), "
          "the theorem's conclusion demanded from the real code where lap_hyps holds; and, for every lapped seek variant and for ov_crosslap between two handles, on twin handles with identical call histories: same return code and landing as the plain seek, bit-identical from "
          "min(n1,n2) samples on, inside = new*w^2+old*(1-w^2) (bit-exact where the cells were final), EOF-without-lapping only when nothing follows in the "
          "landing link or there is no decode state. One recorded KNOWN-FINDING (splice before overlap-add).",
  "note": VF_NOTE + " The cross-fade arithmetic is float and is compared with the same expression evaluated on two plain decodes.",
  "technique": "Coq proof (lapout index arithmetic, case analysis) + twin-handle differential oracle on real lapped seeks",
 },
 "C20": {
  "category": "proof",
  "text": "Proved: a link of N samples yields ceil(N/2) under half-rate (Blocking.v, all block sizes divisible by 8, all window sequences); positions advance "
          "by two per sample; switching on is refused with the state untouched when a link has 64-sample blocks; totals unchanged; link tables are never modified by any op; for ANY page table a successful half-rate sample seek lands less than "
          "one output sample (two positions) below the target, and its loops terminate; SeekH_lemmas.v redoes the C07 development with the half-rate flag set: linear "
          "reading of intact packets delivers half the block step per packet and advances the position by two per sample (SyncInvH), and ov_pcm_seek on an intact run "
          "reports a position at or below the target, less than two below it, and truthful; page seek and byte seek land the handle and the first fetch after landing is in sync at the reported position (executable hypotheses seek_hyps_h, evaluated per run for every half-rate "
          "sample seek). "
          "Per run: ov_halfrate toggled at random points of seek/read histories, every op compared with VFile.v and every read bit for bit with a packet-level decode "
          "that had the setting from the start; final linear read counts ceil(N/2) per link.",
  "note": VF_NOTE + " Streams whose beginning is trimmed by an odd count (all positions on the odd grid) are excluded from this check; even trims are generated.",
  "technique": "Coq proof (count by induction over blocks; half-rate synchronisation and seek invariants) + correspondence of toggling histories vs lib/vorbisfile.c",
 },
 "C07": {
  "category": "proof",
  "text": "VFile.v models vorbisfile's position bookkeeping (link table, fetch/process, reads, raw/page/sample seeks) on the page table, with the decoder "
          "automaton of Blocking.v underneath. Proved: (1) each read's consuming step advances the position by exactly the count returned and touches nothing else; (2) linear reading at "
          "full rate from any synchronised handle stays truthful over ANY number of intact packets, whatever the page layout (Sync_lemmas.v); (3) ov_pcm_seek at full rate "
          "from ANY opened handle: when the page seek succeeds without the continued-packet fallback and the packets from the landing point form an intact run of "
          "the link reaching the target, it returns 0, reports EXACTLY the target and leaves a truthful state - quiet decoder whose next packet ends at the reported "
          "position, or pending samples that are the samples at the reported position; (4) ov_pcm_seek_page under the same hypotheses reports the position where the first following packet ends and the next fetch leaves the handle in sync there ; (5) ov_raw_seek - into the link being decoded or into another link, also from a handle without decoder - onto a page that is not its last and carries a granule position, followed by an intact run, reports the position where the first packet of that run ends and lands the handle the same way (Seek_lemmas.v: invariants of the packet-discarding and the sample-discarding "
          "loop by induction, the landing facts of ov_pcm_seek_page derived, hypotheses packaged as the executable test seek_hyps). The per-run check evaluates "
          "seek_hyps in the extracted model for every sample seek it performs and demands success and position = target from the "
          "real code there; (7) the same up to the very END of the link (SeekE_lemmas.v): the run may close with the link's end-of-stream packet, whose granule "
          "position cuts the last block short - proved for every landing whose first packet carries its granule position (all landings but the beginning-of-link one), "
          "executable hypotheses seek_hyps_e; together the two tests held for 49 % (C07 histories, damaged files included) to 88 % (C08, intact files) of the sample seeks of a run. "
          "NOT theorems: byte seeks that land on a link's last page, the continued-packet fallback, a beginning-of-link landing whose target lies in the "
          "end-of-stream packet's block; half rate is proved separately (C20, SeekH_lemmas.v); the rest is checked per run by replaying random seek/read histories on chained files against the model (return "
          "code, positions, state, link) and by comparing every read bit for bit with an independent packet-level decode at the reported position.",
  "note": VF_NOTE,
  "technique": "Coq model + partial proof (consuming step; linear-read synchronisation invariant; sample, page and byte seeks exact/truthful on intact runs); step-by-step correspondence of extracted model vs lib/vorbisfile.c; bit-exact position oracle",
 },
 "C08": {
  "category": "proof",
  "text": "Proved on VFile.v: out-of-range arguments are rejected with the state untouched; the page a page-granularity seek lands on is the LAST page of the "
          "link (in the search range) whose granule position is set and below the target; link selection; a successful page seek lands inside the selected "
          "link at or before the target for ANY page table; the sample-accurate seek lands EXACTLY on the target whenever the executable hypotheses seek_hyps or seek_hyps_e hold "
          "(intact run from the landing point reaching the target - seek_hyps_e: up to and including the link's end, through the end-of-stream packet's trimmed block; "
          "full rate; evaluated per run for every sample seek, 88 % of them); a sample seek to the END of the last link followed by a read reports end of file "
          "(seek_end_hyps: nothing follows the run, its end-of-stream packet names the target; demanded from the real code wherever it holds). Exact landing for EVERY target 0..L of small chained "
          "files (after random prior ops), time seeks, and end-of-file behaviour are checked on each run against the model and the property itself.",
  "note": VF_NOTE,
  "technique": "Coq proof (landing page maximality, argument validation, exact landing up to the link end, end of file after a seek to the end) + exhaustive-target correspondence vs lib/vorbisfile.c",
 },
 "C09": {
  "category": "proof",
  "text": "Proved on VFile.v: the link split loses no page, one link per BOS-delimited segment, lengths/initial offsets non-negative, total = sum of links; for one link at full rate, reading any intact run of packets and then the "
          "end-of-stream packet delivers exactly the samples up to the position the last granule position names and leaves the reported position at the link's end "
          "(Sync_lemmas.v: blockin_eos, link_read_to_end); a freshly opened handle at the start of an intact link is in sync at position 0 after its first fetch "
          "(executable hypotheses start_hyps); linear reading CROSSES link boundaries: the fetch that meets the next link's first page dumps the decoder, enters "
          "that link, skips its header packets and leaves the handle in sync at position 0 of the new link (Cross_lemmas.v). "
          "Per run: 1..12-link files (zero-sample, single-page links, differing rates/channels) - link table compared with an independent decode and the model; "
          "the linear read must deliver every link completely, in order, bit-identical, without error returns.",
  "note": VF_NOTE,
  "technique": "Coq proof (link table structure; whole-link read accounting) + correspondence of link table and linear read vs independent packet-level decode",
 },
 "C10": {
  "category": "proof",
  "text": "Proved: request lengths do not matter - locally (two reads that fit equal one read of the sum: counts, position, decoder state, queue, cursor) and for "
          "WHOLE HISTORIES over any page table, any handle state, full or half rate: two sequences of successful reads with arbitrary requested lengths that "
          "delivered the same number of samples leave the handle in the same state (Read_lemmas.v: a read is priming independent of the length followed by "
          "handing out min(pending, length); canonical consumption is additive). The model is a "
          "function of the page table only; that byte delivery does not change the page table is libogg's (outside the repo) and is exercised: each file is decoded "
          "through seekable vorbisfile, streaming vorbisfile and the packet API with read callbacks capped at 1..65535 bytes; PCM bit-identical, no hole/error.",
  "note": VF_NOTE,
  "technique": "Coq proof (read composition; histories depend on the delivered total only) + three-path differential decode under short-read schedules",
 },
 "C17": {
  "text": "Theorems over exact dyadic sample values (Pcm.v): clip after the x86-64 conversion is the ideal saturating round-to-nearest-even for every "
          "finite float and both scales; every (word, signedness, byte order) encodes that value; frames are whole, frame-major, never exceed the "
          "buffer; too-small buffers and non-positive word sizes are errors. ov_read_filter is run in all formats with injected boundary floats and "
          "must produce the model's bytes, return value and position advance.",
  "note": "Trusted: Coq kernel, extraction, harness/c17.c, the x86-64 instruction semantics written into Pcm.ftoi (SSE2 variant of vorbis_ftoi; other "
          "platforms' variants are not modelled). Print Assumptions: closed.",
  "technique": "Coq proof (integer/dyadic arithmetic, lia/nia) + byte-exact correspondence of extracted model vs ov_read_filter",
 },
 "C11": {
  "text": "Theorems over the symbolic PCM double buffer (Overlap.v): after blockin of packets k and k+1 - from ANY prior state and buffer - the "
          "samples between the two block centres equal the specification's overlap-add of packets k and k+1 and mention no other packet; "
          "returned range stays inside that region; tracking state never reaches the audio path; all indices in bounds. The model is replayed "
          "against the real blockin/lapout/restart bit for bit (float32 emulation), and the locality property itself is evaluated on real encoder "
          "streams under drop/duplicate/truncate/bit-flip/randomise/restart disturbances.",
  "note": "Trusted: Coq kernel, extraction, ml/driver.ml float32 emulation, harness/c11.c. The per-packet spectral decode (floor, residue, IMDCT) is "
          "not in this model; its independence of earlier packets is checked by the disturbance oracle only. int truncation of pcm_returned is modelled; "
          "64-bit overflow of granule arithmetic is not. Print Assumptions: closed.",
  "technique": "Coq proof (case analysis over window transitions + lia, all block sizes) + bit-exact correspondence of extracted model vs lib/block.c + disturbance oracle",
 },
 "C04": {
  "text": "Theorems over the block-sequencing automata of Blocking.v: for all block-size pairs, all chunkings and ALL envelope-search "
          "oracles the encoder run terminates, granules strictly increase, the last packet carries granule N + eos, window flags chain, "
          "and the decoder returns exactly N samples. Every step of lib/block.c is replayed against the extracted automata each run "
          "(real encodes + an automaton-only sweep over every N in dense ranges); vorbisfile's total/first position are checked directly.",
  "note": "Trusted: Coq kernel, extraction, harness/c04.c (linker --wrap of _ve_envelope_search), libogg. The psychoacoustic decisions are "
          "oracle inputs (theorems quantify over all of them). 64-bit wrap of granule positions not modelled. Print Assumptions: closed.",
  "technique": "Coq proof (invariant by induction over operations, unbounded N) + step-by-step correspondence of extracted automata vs lib/block.c",
 },
 "C16": {
  "text": "Theorems for all comment lists/tags/indices (round trip, ASCII-only case folding, n-th match, count = successes, "
          "no read past the terminator) about Comment.v; the model is run against lib/info.c on generated and boundary-mutated inputs each run.",
  "note": "Trusted: Coq kernel, extraction, harness/c16.c, libogg bit packer (byte-aligned 32-bit reads modelled, not verified), "
          "tools/srcfacts. Print Assumptions: closed under the global context for every theorem.",
  "technique": "Coq proof (induction over comment lists) + differential correspondence of extracted model vs lib/info.c",
 },
}
