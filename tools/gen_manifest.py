#!/usr/bin/env python3
"""Writes MANIFEST.json from tools/manifest_src.py (keeps it valid at all times)."""
import json, os, sys
here = os.path.dirname(os.path.abspath(__file__))
sys.path.insert(0, here)
import manifest_src as m
props = [json.loads(l)["id"] for l in open(os.path.join(here, "..", "properties.jsonl"))]
checks = []
for pid in props:
    c = m.CHECKS.get(pid)
    if not c:
        continue
    checks.append({
        "property_id": pid,
        "quick_cmd": "bin/check %s --tier quick" % pid,
        "thorough_cmd": "bin/check %s --tier thorough" % pid,
        "evidence_file": "evidence/%s.json" % pid,
        "replay_cmd_template": "bin/check %s --replay {path}" % pid,
        "engine": "coq-model+correspondence",
        "level_claimed": {"category": c.get("category", "proof"), "text": c["text"], "design_ref": c.get("design_ref", "DESIGN.md section 4")},
        "level_note": c["note"],
        "technique": c["technique"],
    })
na = [{"property_id": p, "reason": m.NOT_APPLICABLE.get(p, "check not built yet in this round (see DESIGN.md section 12 build order)")}
      for p in props if p not in m.CHECKS]
man = {
    "version": 1,
    "setup_cmd": "bin/setup",
    "hooks": {"guard": "XIPH_VORBIS_VERIF", "enable": "harnesses compile /repo/lib/*.c with -DXIPH_VORBIS_VERIF (vlib/common.py build_repo)",
              "baseline_off_cmd": "cmake --build /repo/_build && ctest --test-dir /repo/_build -j8 --timeout 900",
              "source_commits": m.HOOK_COMMITS, "add_only": True},
    "engines": [{"name": "coq-model+correspondence", "path": "bin/check",
                 "serves_properties": [c["property_id"] for c in checks],
                 "kind_free_text": "Coq 8.16 theorems over hand-written Gallina models (coq/), models extracted to OCaml (ml/) and run against the C implementation built from /repo's working tree with ASan/UBSan (harness/)"}],
    "checks": checks,
    "notes": m.NOTES,
    "not_applicable": na,
}
json.dump(man, open(os.path.join(here, "..", "MANIFEST.json"), "w"), indent=1)
print("checks:", len(checks), "not_applicable:", len(na))
