#!/usr/bin/env python3
"""Apply a seeded breaking change to /repo, run the checks named, record which fire, revert.
usage: seedtest.py <seed_dir> <property> [other properties to try ...]"""
import sys, os, json, subprocess, shutil
seed_dir, pid, others = sys.argv[1], sys.argv[2], sys.argv[3:]
V = "/verif"
def sh(cmd, **kw):
    return subprocess.run(cmd, shell=True, capture_output=True, text=True, **kw)
assert sh("git -C /repo status --porcelain").stdout.strip() == "", "/repo not clean"
patch = os.path.join(seed_dir, "patch.diff")
r = sh("git -C /repo apply --check %s" % patch)
if r.returncode != 0:
    print("patch does not apply:", r.stderr); sys.exit(2)
sh("git -C /repo apply %s" % patch)
res = {}
try:
    for p in [pid] + others:
        fired = []
        for seed in (1, 2):
            o = sh("VERIF_SEED=%d %s/bin/check %s" % (seed, V, p), timeout=3600)
            lines = [l for l in o.stdout.split("\n") if l.startswith("VIOLATION")]
            fired.append({"seed": seed, "exit": o.returncode, "violation_lines": lines})
            if lines:
                # keep what the replay said
                try:
                    rp = lines[0].split("replay=")[1].split()[0]
                    d = json.load(open(rp))
                    fired[-1]["what"] = d.get("what")
                    fs = d["replay"].get("failures") or d["replay"].get("differences") or []
                    fired[-1]["first"] = json.dumps(fs[0])[:600] if fs else None
                except Exception as e:
                    fired[-1]["what"] = "unreadable replay: %s" % e
                break
        res[p] = fired
finally:
    sh("git -C /repo checkout -- .")
    assert sh("git -C /repo status --porcelain").stdout.strip() == ""
out = os.path.join(V, "seeded", os.environ.get("SEED_OUT", pid))
os.makedirs(out, exist_ok=True)
for f in os.listdir(seed_dir):
    src = os.path.join(seed_dir, f)
    if os.path.isfile(src) and os.path.getsize(src) < 400000 and not os.access(src, os.X_OK):
        shutil.copy(src, os.path.join(out, f))
json.dump(res, open(os.path.join(out, "result.json"), "w"), indent=1)
for p, fired in res.items():
    print(p, "CAUGHT" if any(f["violation_lines"] for f in fired) else "MISSED", [(f["seed"], f.get("what")) for f in fired])
